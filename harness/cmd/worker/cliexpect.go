//go:build verif

package main

import (
	"bytes"

	"github.com/z7zmey/php-parser/pkg/conf"
	"github.com/z7zmey/php-parser/pkg/errors"
	"github.com/z7zmey/php-parser/pkg/parser"
	"github.com/z7zmey/php-parser/pkg/visitor/dumper"
	"github.com/z7zmey/php-parser/pkg/visitor/printer"
)

func init() { register("cli_expect", opCliExpect) }

// cli_expect: what the command line tool must produce for one file, computed with the library alone, one file at a time:
// the dump (-d: positions and tokens), the error lines (-e) and the printed text (-pb).
func opCliExpect(t Task) Result {
	src := s2b(tStr(t, "src"))
	var errs []interface{}
	root, err := parser.Parse(src, conf.Config{Version: parseVersion(t), ErrorHandlerFunc: func(e *errors.Error) {
		errs = append(errs, e.String())
	}})
	if err != nil || isNilVertex(root) {
		return Result{"noroot": true, "errs": errs}
	}
	var db, pb bytes.Buffer
	dumper.NewDumper(&db).WithPositions().WithTokens().Dump(root)
	root.Accept(printer.NewPrinter(&pb))
	return Result{"dump": b2s(db.Bytes()), "printed": b2s(pb.Bytes()), "errs": errs}
}
