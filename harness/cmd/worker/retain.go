//go:build verif

package main

import (
	"runtime"
)

func init() { register("retain_check", opRetainCheck) }

// retain_check: a tree (with its tokens and positions) stays what it was while the library goes on working: the first source is
// parsed and its full fingerprint taken; then the other sources are parsed (their trees dropped, garbage collections forced in
// between, so that anything recycled through pools or finalizers comes back); the first tree's fingerprint, its printed text and
// the source buffer must be unchanged.  Then the first source is parsed again: same fingerprint (same input, same tree).
func opRetainCheck(t Task) Result {
	src := s2b(tStr(t, "src"))
	orig := append([]byte(nil), src...)
	ver := parseVersion(t)
	p := doParse(src, ver, true)
	if isNilVertex(p.root) {
		return Result{"skip": true}
	}
	opts := fpOpts{tokens: true, positions: true, values: true}
	fp0 := fingerprint(p.root, opts)
	nerr0 := len(p.errs)
	for i, o := range tArr(t, "others") {
		om := o.(map[string]interface{})
		q := doParse(s2b(om["src"].(string)), parseVersion(Task{"ver": om["ver"]}), i%2 == 0)
		_ = q
		if i%3 == 2 {
			runtime.GC()
			runtime.Gosched()
		}
	}
	runtime.GC()
	runtime.Gosched()
	runtime.GC()
	// one more round of parses after the collections: recycled memory is handed out now
	for _, o := range tArr(t, "others") {
		om := o.(map[string]interface{})
		doParse(s2b(om["src"].(string)), parseVersion(Task{"ver": om["ver"]}), true)
	}
	res := Result{}
	if fingerprint(p.root, opts) != fp0 {
		res["changed"] = "tree-of-an-earlier-parse-changed"
		// which part?
		if fingerprint(p.root, fpOpts{values: true}) != fingerprint(doParse(append([]byte(nil), orig...), ver, true).root, fpOpts{values: true}) {
			res["part"] = "structure-or-values"
		} else if fingerprint(p.root, fpOpts{tokens: true, values: true}) != fingerprint(doParse(append([]byte(nil), orig...), ver, true).root, fpOpts{tokens: true, values: true}) {
			res["part"] = "tokens"
		} else {
			res["part"] = "positions"
		}
		return res
	}
	if string(src) != string(orig) {
		res["changed"] = "source-buffer-changed"
		return res
	}
	q := doParse(append([]byte(nil), orig...), ver, true)
	if isNilVertex(q.root) || fingerprint(q.root, opts) != fp0 || len(q.errs) != nerr0 {
		res["changed"] = "same-input-parsed-again-differs"
		return res
	}
	res["ok"] = true
	return res
}
