//go:build verif

package main

import (
	"runtime"

	"github.com/z7zmey/php-parser/pkg/conf"
	"github.com/z7zmey/php-parser/pkg/errors"
	"github.com/z7zmey/php-parser/pkg/verifshim"
)

func init() { register("retain_check", opRetainCheck) }

// retain_check: a tree (with its tokens and positions) stays what it was while the library goes on working: the first source is
// parsed and its full fingerprint taken; then the other sources are parsed (their trees dropped, garbage collections forced in
// between, so that anything recycled through pools or finalizers comes back); the first tree's fingerprint, its printed text and
// the source buffer must be unchanged.  Then the first source is parsed again: same fingerprint (same input, same tree).
func opRetainCheck(t Task) Result {
	src := s2b(tStr(t, "src"))
	orig := append([]byte(nil), src...)
	ver := parseVersion(t)
	p := doParse(src, ver, true)
	if isNilVertex(p.root) {
		return Result{"skip": true}
	}
	opts := fpOpts{tokens: true, positions: true, values: true}
	fp0 := fingerprint(p.root, opts)
	nerr0 := len(p.errs)
	for i, o := range tArr(t, "others") {
		om := o.(map[string]interface{})
		q := doParse(s2b(om["src"].(string)), parseVersion(Task{"ver": om["ver"]}), i%2 == 0)
		_ = q
		if i%3 == 2 {
			runtime.GC()
			runtime.Gosched()
		}
	}
	runtime.GC()
	runtime.Gosched()
	runtime.GC()
	// one more round of parses after the collections: recycled memory is handed out now
	for _, o := range tArr(t, "others") {
		om := o.(map[string]interface{})
		doParse(s2b(om["src"].(string)), parseVersion(Task{"ver": om["ver"]}), true)
	}
	res := Result{}
	if fingerprint(p.root, opts) != fp0 {
		res["changed"] = "tree-of-an-earlier-parse-changed"
		// which part?
		if fingerprint(p.root, fpOpts{values: true}) != fingerprint(doParse(append([]byte(nil), orig...), ver, true).root, fpOpts{values: true}) {
			res["part"] = "structure-or-values"
		} else if fingerprint(p.root, fpOpts{tokens: true, values: true}) != fingerprint(doParse(append([]byte(nil), orig...), ver, true).root, fpOpts{tokens: true, values: true}) {
			res["part"] = "tokens"
		} else {
			res["part"] = "positions"
		}
		return res
	}
	if string(src) != string(orig) {
		res["changed"] = "source-buffer-changed"
		return res
	}
	q := doParse(append([]byte(nil), orig...), ver, true)
	if isNilVertex(q.root) || fingerprint(q.root, opts) != fp0 || len(q.errs) != nerr0 {
		res["changed"] = "same-input-parsed-again-differs"
		return res
	}
	res["ok"] = true
	return res
}

func init() { register("reparse_check", opReparseCheck) }

// reparse_check: the parser OBJECT is used a second time (Parse called again on it; its scanner is at the end of the input by
// then, so the second run yields an empty program): the tree the first run returned, its tokens and its positions stay what they were.
func opReparseCheck(t Task) Result {
	src := s2b(tStr(t, "src"))
	ver := parseVersion(t)
	cfg := conf.Config{Version: ver, ErrorHandlerFunc: func(e *errors.Error) {}}
	lx := verifshim.NewLexer(src, cfg)
	var p verifshim.Parser
	if ver != nil && ver.Major == 5 {
		p = verifshim.NewParser5(lx, cfg)
	} else {
		p = verifshim.NewParser7(lx, cfg)
	}
	p.Parse()
	root := p.GetRootNode()
	if isNilVertex(root) {
		return Result{"skip": true}
	}
	opts := fpOpts{tokens: true, positions: true, values: true}
	fp0 := fingerprint(root, opts)
	for i := 0; i < 3; i++ {
		p.Parse()
	}
	if fingerprint(root, opts) != fp0 {
		part := "positions"
		if fingerprint(root, fpOpts{tokens: true, values: true}) != fingerprint(doParse(append([]byte(nil), src...), ver, true).root, fpOpts{tokens: true, values: true}) {
			part = "tokens-or-structure"
		}
		return Result{"changed": "tree-changed-when-its-parser-ran-again", "part": part}
	}
	return Result{"ok": true}
}
