//go:build verif

// worker executes verification tasks against the real code built from /repo.
// Protocol: one JSON task per line on stdin, one JSON result per line on stdout.
// A watchdog goroutine terminates the process (exit 3) after reporting the
// current task as hung or out of memory; panics are recovered and reported.
package main

import (
	"bufio"
	"encoding/json"
	"fmt"
	"os"
	"runtime"
	"runtime/debug"
	"strings"
	"sync"
	"sync/atomic"
	"time"
)

type Task = map[string]interface{}
type Result = map[string]interface{}

type opFunc func(t Task) Result

var ops = map[string]opFunc{}

func register(name string, f opFunc) { ops[name] = f }

var (
	outMu     sync.Mutex
	out       *bufio.Writer
	curID     atomic.Int64
	curStart  atomic.Int64 // unix nanos; 0 = idle
	curLimit  atomic.Int64 // nanos
	memLimit  uint64 = 3 << 30
)

func emit(r Result) {
	b, err := json.Marshal(r)
	if err != nil {
		b, _ = json.Marshal(Result{"id": r["id"], "error": "marshal: " + err.Error()})
	}
	outMu.Lock()
	out.Write(b)
	out.WriteByte('\n')
	out.Flush()
	outMu.Unlock()
}

func watchdog() {
	var ms runtime.MemStats
	tick := 0
	for {
		time.Sleep(5 * time.Millisecond)
		st := curStart.Load()
		if st == 0 {
			continue
		}
		el := time.Now().UnixNano() - st
		if el > curLimit.Load() {
			emit(Result{"id": curID.Load(), "hang": true, "ms": el / 1e6})
			os.Exit(3)
		}
		tick++
		if tick%10 == 0 {
			runtime.ReadMemStats(&ms)
			if ms.HeapAlloc > memLimit {
				emit(Result{"id": curID.Load(), "oom": true, "hang": true, "heap": ms.HeapAlloc, "ms": el / 1e6})
				os.Exit(3)
			}
		}
	}
}

// panicSite extracts the innermost frame inside the repository from a stack trace.
func panicSite(stack string) string {
	lines := strings.Split(stack, "\n")
	for i := 0; i+1 < len(lines); i++ {
		l := lines[i]
		if strings.HasPrefix(l, "github.com/z7zmey/php-parser/") && !strings.Contains(l, "verifshim") {
			fn := l
			if k := strings.LastIndex(fn, "("); k > 0 {
				fn = fn[:k]
			}
			fn = strings.TrimPrefix(fn, "github.com/z7zmey/php-parser/")
			return fn
		}
	}
	return "unknown"
}

func runTask(t Task) (res Result) {
	id := int64(0)
	if f, ok := t["id"].(float64); ok {
		id = int64(f)
	}
	limit := int64(2000)
	if f, ok := t["limit_ms"].(float64); ok {
		limit = int64(f)
	}
	curID.Store(id)
	curLimit.Store(limit * 1e6)
	curStart.Store(time.Now().UnixNano())
	defer func() {
		curStart.Store(0)
		if r := recover(); r != nil {
			st := string(debug.Stack())
			res = Result{"id": id, "panic": fmt.Sprint(r), "site": panicSite(st)}
			if os.Getenv("VERIF_STACK") != "" {
				res["stack"] = st
			}
		}
	}()
	op, _ := t["op"].(string)
	f, ok := ops[op]
	if !ok {
		return Result{"id": id, "error": "unknown op " + op}
	}
	res = f(t)
	if res == nil {
		res = Result{}
	}
	res["id"] = id
	return res
}

func main() {
	out = bufio.NewWriterSize(os.Stdout, 1<<16)
	go watchdog()
	in := bufio.NewReaderSize(os.Stdin, 1<<20)
	for {
		line, err := in.ReadBytes('\n')
		if len(line) > 1 {
			var t Task
			if e := json.Unmarshal(line, &t); e != nil {
				emit(Result{"id": -1, "error": "bad task: " + e.Error()})
			} else {
				emit(runTask(t))
			}
		}
		if err != nil {
			break
		}
	}
}

// helpers for task field access

func tStr(t Task, k string) string {
	s, _ := t[k].(string)
	return s
}

func tInt(t Task, k string, def int) int {
	if f, ok := t[k].(float64); ok {
		return int(f)
	}
	return def
}

func tBool(t Task, k string) bool {
	b, _ := t[k].(bool)
	return b
}

func tArr(t Task, k string) []interface{} {
	l, _ := t[k].([]interface{})
	return l
}

func nowNanos() int64 { return time.Now().UnixNano() }
