//go:build verif

package main

import (
	"bytes"
	"fmt"
	"go/ast"
	"go/parser"
	gotoken "go/token"
	"reflect"
	"strconv"

	phpast "github.com/z7zmey/php-parser/pkg/ast"
	"github.com/z7zmey/php-parser/pkg/position"
	"github.com/z7zmey/php-parser/pkg/token"
	"github.com/z7zmey/php-parser/pkg/visitor/dumper"
	"github.com/z7zmey/php-parser/pkg/visitor/printer"
	"github.com/z7zmey/php-parser/pkg/visitor/traverser"
)

func init() {
	register("synth", opSynth)
}

func mk(tag string, i, k int) string { return fmt.Sprintf("{#%s%d.%d#}", tag, i, k) }

// zeroIDs: tokens are built without an id (what the formatter and hand-written trees do)
var zeroIDs bool

func markerTok(i, k int) *token.Token {
	id := token.T_STRING
	if zeroIDs {
		id = 0
	}
	return &token.Token{
		ID:    id,
		Value: []byte(mk("T", i, k)),
		FreeFloating: []*token.Token{
			{ID: token.T_WHITESPACE, Value: []byte(mk("F", i, k))},
		},
	}
}

// buildSynth builds one node of the given kind.  slots[i] (i = 0-based index of the struct field,
// which is the 1-based TLA+ slot index minus one) says what to put there:
// tkn/node/value/position: 0 absent, 1 present; list: length; tknlist: number of separators.
// sharedChild: when set, every child slot (node slots and list items) holds this ONE object
var sharedChild phpast.Vertex

func buildSynth(kind string, slots []int) (phpast.Vertex, map[phpast.Vertex]string) {
	ki := kindByName[kind]
	if ki == nil {
		panic("verif: unknown kind " + kind)
	}
	if len(slots) != len(ki.fields) {
		panic(fmt.Sprintf("verif: schema drift: kind %s has %d fields, specification has %d", kind, len(ki.fields), len(slots)))
	}
	pv := reflect.New(ki.typ)
	v := pv.Elem()
	ids := map[phpast.Vertex]string{}
	node := func(i, k int) phpast.Vertex {
		if sharedChild != nil {
			ids[sharedChild] = "N0.0"
			return sharedChild
		}
		n := &phpast.Identifier{Value: []byte(mk("N", i, k))}
		ids[n] = fmt.Sprintf("N%d.%d", i, k)
		return n
	}
	for j, f := range ki.fields {
		i := j + 1
		p := slots[j]
		fv := v.Field(f.idx)
		switch f.kind {
		case fPos:
			if p > 0 {
				fv.Set(reflect.ValueOf(&position.Position{StartLine: 100 + i, EndLine: 200 + i, StartPos: 300 + i, EndPos: 400 + i}))
			}
		case fTok:
			if p > 0 {
				fv.Set(reflect.ValueOf(markerTok(i, 1)))
			}
		case fTokList:
			if p > 0 {
				var l []*token.Token
				for k := 1; k <= p; k++ {
					l = append(l, markerTok(i, k))
				}
				fv.Set(reflect.ValueOf(l))
			}
		case fNode:
			if p > 0 {
				fv.Set(reflect.ValueOf(node(i, 1)))
			}
		case fList:
			if p > 0 {
				var l []phpast.Vertex
				for k := 1; k <= p; k++ {
					l = append(l, node(i, k))
				}
				fv.Set(reflect.ValueOf(l))
			}
		case fVal:
			if p > 0 {
				fv.SetBytes([]byte(mk("V", i, 1)))
			}
		}
	}
	n := pv.Interface().(phpast.Vertex)
	ids[n] = "self"
	return n, ids
}

func opSynth(t Task) Result {
	var slots []int
	for _, x := range tArr(t, "slots") {
		slots = append(slots, int(x.(float64)))
	}
	zeroIDs = tBool(t, "zero_ids")
	defer func() { zeroIDs = false }()
	sharedChild = nil
	if tBool(t, "shared") {
		sharedChild = &phpast.Identifier{Value: []byte(mk("N", 0, 0))}
	}
	n, ids := buildSynth(tStr(t, "kind"), slots)
	sharedChild = nil
	before := fingerprint(n, fpOpts{tokens: true, positions: true, values: true})
	res := Result{}
	again := tBool(t, "again") // the same visitor object walks the node a second time
	switch tStr(t, "run") {
	case "traverse":
		rv := &recVisitor{}
		tr := traverser.NewTraverser(rv)
		conv := func() []string {
			var seq []string
			for _, x := range rv.seq {
				if id, ok := ids[x]; ok {
					seq = append(seq, id)
				} else {
					seq = append(seq, "foreign:"+kindName(x))
				}
			}
			return seq
		}
		tr.Traverse(n)
		res["seq"] = conv()
		if again {
			rv.seq = nil
			tr.Traverse(n)
			res["seq2"] = conv()
		}
	case "print":
		var buf bytes.Buffer
		pr := printer.NewPrinter(&buf).WithState(printer.PrinterStatePHP)
		n.Accept(pr)
		res["out"] = b2s(buf.Bytes())
		if again {
			k := buf.Len()
			n.Accept(pr)
			res["out2"] = b2s(buf.Bytes()[k:])
		}
	case "dump":
		var buf bytes.Buffer
		d := dumper.NewDumper(&buf)
		if tBool(t, "tokens") {
			d = d.WithTokens()
		}
		if tBool(t, "positions") {
			d = d.WithPositions()
		}
		d.Dump(n)
		lit, err := parseDump(buf.Bytes())
		if err != nil {
			res["dump_err"] = err.Error()
			res["out"] = b2s(truncate(buf.Bytes(), 2000))
		} else {
			res["lit"] = lit
		}
		if again {
			first := append([]byte(nil), buf.Bytes()...)
			buf.Reset()
			d.Dump(n)
			res["same_again"] = bytes.Equal(first, buf.Bytes())
			if !bytes.Equal(first, buf.Bytes()) {
				res["out2"] = b2s(truncate(buf.Bytes(), 1500))
			}
		}
	}
	if fingerprint(n, fpOpts{tokens: true, positions: true, values: true}) != before {
		res["mutated"] = true
	}
	return res
}

// ---------------------------------------------------------------------------
// parsing the dumper's output as Go syntax

// parseDump parses "&ast.X{...},\n" (the dumper terminates every literal with a comma) and returns a
// generic rendering: {"type": "ast.X", "fields": [[label, value], ...]}, lists as {"list": [...], "type": ...},
// []byte("..") as {"bytes": "..."}, identifiers/selectors as strings, integers as numbers.
func parseDump(out []byte) (interface{}, error) {
	src := "[]interface{}{\n" + string(out) + "}"
	e, err := parser.ParseExpr(src)
	if err != nil {
		return nil, err
	}
	cl, ok := e.(*ast.CompositeLit)
	if !ok || len(cl.Elts) != 1 {
		return nil, fmt.Errorf("dump is not exactly one literal (%d elements)", len(cl.Elts))
	}
	return goExpr(cl.Elts[0])
}

func typeString(e ast.Expr) string {
	var buf bytes.Buffer
	switch x := e.(type) {
	case *ast.Ident:
		return x.Name
	case *ast.SelectorExpr:
		return typeString(x.X) + "." + x.Sel.Name
	case *ast.StarExpr:
		return "*" + typeString(x.X)
	case *ast.ArrayType:
		return "[]" + typeString(x.Elt)
	}
	fmt.Fprintf(&buf, "%T", e)
	return buf.String()
}

func goExpr(e ast.Expr) (interface{}, error) {
	switch x := e.(type) {
	case *ast.UnaryExpr:
		if x.Op == gotoken.AND {
			return goExpr(x.X)
		}
		if x.Op == gotoken.SUB {
			v, err := goExpr(x.X)
			if err != nil {
				return nil, err
			}
			if f, ok := v.(int); ok {
				return -f, nil
			}
		}
		return nil, fmt.Errorf("unexpected unary %s", x.Op)
	case *ast.CompositeLit:
		typ := ""
		if x.Type != nil {
			typ = typeString(x.Type)
		}
		if _, isArr := x.Type.(*ast.ArrayType); isArr {
			var l []interface{}
			for _, el := range x.Elts {
				v, err := goExpr(el)
				if err != nil {
					return nil, err
				}
				l = append(l, v)
			}
			if l == nil {
				l = []interface{}{}
			}
			return map[string]interface{}{"list": l, "type": typ}, nil
		}
		var fs []interface{}
		for _, el := range x.Elts {
			kv, ok := el.(*ast.KeyValueExpr)
			if !ok {
				return nil, fmt.Errorf("unkeyed element in literal %s", typ)
			}
			k, ok := kv.Key.(*ast.Ident)
			if !ok {
				return nil, fmt.Errorf("non-identifier key in literal %s", typ)
			}
			v, err := goExpr(kv.Value)
			if err != nil {
				return nil, err
			}
			fs = append(fs, []interface{}{k.Name, v})
		}
		if fs == nil {
			fs = []interface{}{}
		}
		return map[string]interface{}{"type": typ, "fields": fs}, nil
	case *ast.CallExpr:
		if typeString(x.Fun) == "[]byte" && len(x.Args) == 1 {
			if bl, ok := x.Args[0].(*ast.BasicLit); ok && bl.Kind == gotoken.STRING {
				s, err := strconv.Unquote(bl.Value)
				if err != nil {
					return nil, err
				}
				return map[string]interface{}{"bytes": b2s([]byte(s))}, nil
			}
		}
		if typeString(x.Fun) == "token.ID" && len(x.Args) == 1 {
			if bl, ok := x.Args[0].(*ast.BasicLit); ok && bl.Kind == gotoken.INT {
				return "token.ID(" + bl.Value + ")", nil
			}
		}
		return nil, fmt.Errorf("unexpected call %s", typeString(x.Fun))
	case *ast.BasicLit:
		if x.Kind == gotoken.INT {
			n, err := strconv.Atoi(x.Value)
			return n, err
		}
		return x.Value, nil
	case *ast.Ident:
		return x.Name, nil
	case *ast.SelectorExpr:
		return typeString(x), nil
	}
	return nil, fmt.Errorf("unexpected expression %T", e)
}

// ---------------------------------------------------------------------------
// dump_check: dump a parsed tree with each option combination, parse the dump as Go and compare it
// with a reflection walk of the tree (C16 on parsed trees).

func init() { register("dump_check", opDumpCheck) }

func opDumpCheck(t Task) Result {
	src := s2b(tStr(t, "src"))
	p := doParse(src, parseVersion(t), true)
	if isNilVertex(p.root) || len(p.errs) > 0 {
		return Result{"skip": true}
	}
	fails := &failList{}
	for _, o := range [][2]bool{{false, false}, {true, false}, {false, true}, {true, true}} {
		var buf bytes.Buffer
		d := dumper.NewDumper(&buf)
		if o[0] {
			d = d.WithTokens()
		}
		if o[1] {
			d = d.WithPositions()
		}
		d.Dump(p.root)
		lit, err := parseDump(buf.Bytes())
		if err != nil {
			fails.add("not-go-syntax", "err", err.Error())
			continue
		}
		cmpDumpNode(lit, p.root, o[0], o[1], fails)
	}
	return Result{"fails": fails.l, "fp": fingerprint(p.root, fpOpts{tokens: true, positions: true, values: true})}
}

func litFields(lit interface{}) (string, [][2]interface{}, bool) {
	m, ok := lit.(map[string]interface{})
	if !ok {
		return "", nil, false
	}
	typ, _ := m["type"].(string)
	fl, ok := m["fields"].([]interface{})
	if !ok {
		return typ, nil, false
	}
	var out [][2]interface{}
	for _, f := range fl {
		p := f.([]interface{})
		out = append(out, [2]interface{}{p[0], p[1]})
	}
	return typ, out, true
}

func cmpDumpPos(lit interface{}, pos *position.Position, kind string, fails *failList) {
	typ, fs, ok := litFields(lit)
	if !ok || typ != "position.Position" {
		fails.add("content", "kind", kind, "label", "Position", "detail", "not a position literal")
		return
	}
	want := map[string]int{"StartLine": pos.StartLine, "EndLine": pos.EndLine, "StartPos": pos.StartPos, "EndPos": pos.EndPos}
	if len(fs) != 4 {
		fails.add("content", "kind", kind, "label", "Position", "detail", "field count")
	}
	for _, f := range fs {
		if v, ok := f[1].(int); !ok || want[f[0].(string)] != v {
			fails.add("content", "kind", kind, "label", "Position", "detail", fmt.Sprint(f[0], " ", f[1]))
		}
	}
}

func cmpDumpTok(lit interface{}, tk *token.Token, kind, label string, withPos bool, fails *failList) {
	_, fs, ok := litFields(lit)
	if !ok {
		fails.add("content", "kind", kind, "label", label, "detail", "not a token literal")
		return
	}
	seen := map[string]bool{}
	for _, f := range fs {
		name := f[0].(string)
		if seen[name] {
			fails.add("duplicate", "kind", kind, "label", label+"."+name)
		}
		seen[name] = true
		switch name {
		case "ID":
			if f[1] != "token."+tk.ID.String() {
				fails.add("content", "kind", kind, "label", label+".ID", "detail", fmt.Sprint(f[1]))
			}
		case "Val":
			b, _ := f[1].(map[string]interface{})
			if b == nil || b["bytes"] != b2s(tk.Value) {
				fails.add("content", "kind", kind, "label", label+".Val")
			}
		case "Position":
			if !withPos || tk.Position == nil {
				fails.add("extra", "kind", kind, "label", label+".Position")
			} else {
				cmpDumpPos(f[1], tk.Position, kind, fails)
			}
		case "FreeFloating":
			l, _ := f[1].(map[string]interface{})
			items, _ := l["list"].([]interface{})
			if len(items) != len(tk.FreeFloating) {
				fails.add("content", "kind", kind, "label", label+".FreeFloating", "detail", "length")
			} else {
				for i, it := range items {
					cmpDumpTok(it, tk.FreeFloating[i], kind, label+".FreeFloating", withPos, fails)
				}
			}
		default:
			fails.add("extra", "kind", kind, "label", label+"."+name)
		}
	}
	if tk.ID > 0 && !seen["ID"] {
		fails.add("missing", "kind", kind, "label", label+".ID")
	}
	if len(tk.Value) > 0 && !seen["Val"] {
		fails.add("missing", "kind", kind, "label", label+".Val")
	}
	if withPos && tk.Position != nil && !seen["Position"] {
		fails.add("missing", "kind", kind, "label", label+".Position")
	}
	if len(tk.FreeFloating) > 0 && !seen["FreeFloating"] {
		fails.add("missing", "kind", kind, "label", label+".FreeFloating")
	}
}

func cmpDumpNode(lit interface{}, n phpast.Vertex, withTok, withPos bool, fails *failList) {
	ki, v := infoOf(n)
	typ, fs, ok := litFields(lit)
	if !ok || typ != "ast."+ki.name {
		fails.add("wrong-type", "kind", ki.name, "detail", typ)
		return
	}
	got := map[string]interface{}{}
	for _, f := range fs {
		name := f[0].(string)
		if _, dup := got[name]; dup {
			fails.add("duplicate", "kind", ki.name, "label", name)
		}
		got[name] = f[1]
	}
	used := map[string]bool{}
	need := func(label string) (interface{}, bool) {
		x, ok := got[label]
		if !ok {
			fails.add("missing", "kind", ki.name, "label", label)
			return nil, false
		}
		used[label] = true
		return x, true
	}
	for _, f := range ki.fields {
		fv := v.Field(f.idx)
		switch f.kind {
		case fPos:
			if pos := fv.Interface().(*position.Position); pos != nil && withPos {
				if x, ok := need("Position"); ok {
					cmpDumpPos(x, pos, ki.name, fails)
				}
			}
		case fTok:
			if tk := fv.Interface().(*token.Token); tk != nil && withTok {
				if x, ok := need(f.name); ok {
					cmpDumpTok(x, tk, ki.name, f.name, withPos, fails)
				}
			}
		case fTokList:
			l := fv.Interface().([]*token.Token)
			if withTok && len(l) > 0 {
				if x, ok := need(f.name); ok {
					m, _ := x.(map[string]interface{})
					items, _ := m["list"].([]interface{})
					if len(items) != len(l) {
						fails.add("content", "kind", ki.name, "label", f.name, "detail", "length")
					} else {
						for i := range l {
							cmpDumpTok(items[i], l[i], ki.name, f.name, withPos, fails)
						}
					}
				}
			} else if _, ok := got[f.name]; ok && withTok {
				used[f.name] = true // an empty list may be shown
			}
		case fNode:
			if !fv.IsNil() && !isNilVertex(fv.Interface().(phpast.Vertex)) {
				if x, ok := need(f.name); ok {
					cmpDumpNode(x, fv.Interface().(phpast.Vertex), withTok, withPos, fails)
				}
			}
		case fList:
			l := fv.Interface().([]phpast.Vertex)
			if len(l) > 0 {
				if x, ok := need(f.name); ok {
					m, _ := x.(map[string]interface{})
					items, _ := m["list"].([]interface{})
					if len(items) != len(l) {
						fails.add("content", "kind", ki.name, "label", f.name, "detail", "length")
					} else {
						for i := range l {
							cmpDumpNode(items[i], l[i], withTok, withPos, fails)
						}
					}
				}
			} else if x, ok := got[f.name]; ok {
				if m, _ := x.(map[string]interface{}); m != nil {
					if items, _ := m["list"].([]interface{}); len(items) == 0 {
						used[f.name] = true // an empty list may be shown
					}
				}
			}
		case fVal:
			if b := fv.Bytes(); b != nil {
				if x, ok := need("Val"); ok {
					m, _ := x.(map[string]interface{})
					if m == nil || m["bytes"] != b2s(b) {
						fails.add("content", "kind", ki.name, "label", "Val")
					}
				}
			}
		}
	}
	for name := range got {
		if !used[name] {
			fails.add("extra", "kind", ki.name, "label", name)
		}
	}
}

func init() { register("synth_pairs", opSynthPairs) }

func baselineSlots(ki *kinfo, present bool) []int {
	slots := make([]int, len(ki.fields))
	if !present {
		return slots
	}
	for j, f := range ki.fields {
		switch f.kind {
		case fTok, fNode, fVal:
			slots[j] = 1
		case fList:
			slots[j] = 2
		case fTokList:
			slots[j] = 1
		}
	}
	return slots
}

func printPHP(n phpast.Vertex) string {
	var buf bytes.Buffer
	n.Accept(printer.NewPrinter(&buf).WithState(printer.PrinterStatePHP))
	return buf.String()
}

func isNameByte(c byte) bool {
	return c >= 'A' && c <= 'Z' || c >= 'a' && c <= 'z' || c >= '0' && c <= '9' || c == '_' || c >= 0x80
}

// synth_pairs: printing is compositional (C15: "a change confined to one subtree changes only that subtree's portion of the output,
// apart from a separating space"): for every ordered pair of node kinds (each all-present and all-absent) the text printed for
// the two nodes in one statement list must be the text of the first followed by the text of the second, with at most the
// separating space of PrinterOut.tla between two name bytes.  The printer has no other state that may leak from one node into
// the next.  kinds: the kinds to use as the first node (all kinds are used as the second).
func opSynthPairs(t Task) Result {
	var firsts []string
	for _, k := range tArr(t, "kinds") {
		firsts = append(firsts, k.(string))
	}
	var all []string
	for name := range kindByName {
		if name != "Root" && name != "StmtInlineHtml" {
			all = append(all, name)
		}
	}
	var bad []interface{}
	n := 0
	single := map[string]string{}
	key := func(k string, p bool) string { return fmt.Sprintf("%s/%v", k, p) }
	build := func(k string, p bool) phpast.Vertex {
		v, _ := buildSynth(k, baselineSlots(kindByName[k], p))
		return v
	}
	for _, k := range all {
		for _, p := range []bool{true, false} {
			single[key(k, p)] = printPHP(build(k, p))
		}
	}
	for _, ka := range firsts {
		if ka == "Root" || ka == "StmtInlineHtml" {
			continue
		}
		for _, pa := range []bool{true, false} {
			for _, kb := range all {
				for _, pb := range []bool{true, false} {
					n++
					a, b := single[key(ka, pa)], single[key(kb, pb)]
					got := printPHP(&phpast.Root{Stmts: []phpast.Vertex{build(ka, pa), build(kb, pb)}})
					want := a + b
					if len(a) > 0 && len(b) > 0 && isNameByte(a[len(a)-1]) && isNameByte(b[0]) {
						want = a + " " + b
					}
					if got != want && len(bad) < 20 {
						bad = append(bad, map[string]interface{}{"first": ka, "first_present": pa, "second": kb, "second_present": pb,
							"printed": got, "first_alone": a, "second_alone": b})
					}
				}
			}
		}
	}
	return Result{"pairs": n, "bad": bad}
}
