//go:build verif

package main

import (
	"github.com/z7zmey/php-parser/pkg/conf"
	"github.com/z7zmey/php-parser/pkg/parser"
	"github.com/z7zmey/php-parser/pkg/version"
)

func init() {
	register("version_pair", opVersionPair)
	register("version_str", opVersionStr)
}

func u64(x interface{}) uint64 {
	switch v := x.(type) {
	case float64:
		return uint64(v)
	case string:
		var n uint64
		for _, c := range v {
			n = n*10 + uint64(c-'0')
		}
		return n
	}
	return 0
}

// version_pair: for v=(maj,min) and o=(omaj,omin) (decimal strings, so that
// values above 2^53 survive JSON) report validation, dispatch and comparisons.
func opVersionPair(t Task) Result {
	v := &version.Version{Major: u64(t["maj"]), Minor: u64(t["min"])}
	o := &version.Version{Major: u64(t["omaj"]), Minor: u64(t["omin"])}
	src := []byte(tStr(t, "src"))
	res := Result{}
	res["valid"] = v.Validate() == nil
	root, err := parser.Parse(src, conf.Config{Version: v})
	res["range_err"] = err == parser.ErrVersionOutOfRange
	res["other_err"] = err != nil && err != parser.ErrVersionOutOfRange
	res["tree"] = root != nil
	res["cmp"] = v.Compare(o)
	res["less"] = v.Less(o)
	res["le"] = v.LessOrEqual(o)
	res["greater"] = v.Greater(o)
	res["ge"] = v.GreaterOrEqual(o)
	res["inrange_self"] = v.InRange(v, v)
	return res
}

// version_str: parses the string twice; what the caller does with the first result (its fields are exported) must not show
// in the second, nor in a parse done afterwards with an explicit version.
func opVersionStr(t Task) Result {
	v, err := version.New(tStr(t, "s"))
	if err != nil {
		return Result{"ok": false}
	}
	res := Result{"ok": true, "maj": v.Major, "min": v.Minor}
	v.Major, v.Minor = v.Major+1000, v.Minor+7
	w, err2 := version.New(tStr(t, "s"))
	if err2 != nil {
		res["again_ok"] = false
	} else {
		res["again_ok"], res["again_maj"], res["again_min"] = true, w.Major, w.Minor
	}
	return res
}
