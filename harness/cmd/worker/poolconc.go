//go:build verif

package main

import (
	"fmt"
	"sync"

	"github.com/z7zmey/php-parser/pkg/ast"
	"github.com/z7zmey/php-parser/pkg/position"
	"github.com/z7zmey/php-parser/pkg/token"
)

func init() { register("pool_concurrent", opPoolConcurrent) }

// pool_concurrent: the pools in their real use.  Every parser draws its tokens and positions from pools; parsers running at the
// same time on different goroutines (what cmd/php-parser does) must still get objects nobody else holds.  The inputs are parsed
// alone first (reference fingerprints with tokens and positions); then, round after round, all of them are parsed at once on
// `goroutines` goroutines released together.  All trees of a round are kept, and then
//   - every *position.Position and every *token.Token reachable from them must be reachable once (object identity), and
//   - every tree must have the fingerprint of its solo parse (writing through one object never changed another).
func opPoolConcurrent(t Task) Result {
	type in struct {
		src []byte
		ver string
	}
	var ins []in
	for _, o := range tArr(t, "inputs") {
		om := o.(map[string]interface{})
		ins = append(ins, in{s2b(om["src"].(string)), om["ver"].(string)})
	}
	g := tInt(t, "goroutines", 8)
	rounds := tInt(t, "rounds", 3)
	opts := fpOpts{tokens: true, positions: true, values: true}
	solo := make([]string, len(ins))
	for i, x := range ins {
		p := doParse(append([]byte(nil), x.src...), parseVersion(Task{"ver": x.ver}), true)
		if isNilVertex(p.root) {
			solo[i] = ""
			continue
		}
		solo[i] = fingerprint(p.root, opts)
	}
	// objects of one tree, in walk order
	collect := func(root ast.Vertex) (ps []*position.Position, ts []*token.Token) {
		w := &walker{
			enter: func(n ast.Vertex, ki *kinfo, parent ast.Vertex, role string) {
				if p := n.GetPosition(); p != nil {
					ps = append(ps, p)
				}
			},
			tok: func(tk *token.Token, owner ast.Vertex, field string, ff bool) {
				ts = append(ts, tk)
				if tk.Position != nil {
					ps = append(ps, tk.Position)
				}
			},
		}
		w.walk(root, nil, "")
		return
	}
	// objects a tree reaches along more than one path (none for the trees the grammars build today; counted on the solo tree
	// so that only what concurrency adds is judged)
	dups := func(ps []*position.Position, ts []*token.Token) (int, int) {
		sp := map[*position.Position]bool{}
		st := map[*token.Token]bool{}
		dp, dt := 0, 0
		for _, p := range ps {
			if sp[p] {
				dp++
			}
			sp[p] = true
		}
		for _, t := range ts {
			if st[t] {
				dt++
			}
			st[t] = true
		}
		return dp, dt
	}
	soloDP := make([]int, len(ins))
	soloDT := make([]int, len(ins))
	for i, x := range ins {
		if solo[i] == "" {
			continue
		}
		soloDP[i], soloDT[i] = dups(collect(doParse(append([]byte(nil), x.src...), parseVersion(Task{"ver": x.ver}), true).root))
	}
	var bad []interface{}
	objects := 0
	for r := 0; r < rounds && len(bad) == 0; r++ {
		roots := make([]ast.Vertex, len(ins))
		panics := make([]string, len(ins))
		start := make(chan struct{})
		var wg sync.WaitGroup
		for w := 0; w < g; w++ {
			wg.Add(1)
			go func(w int) {
				defer wg.Done()
				<-start
				for i := w; i < len(ins); i += g {
					func() {
						defer func() {
							if e := recover(); e != nil {
								panics[i] = fmt.Sprint(e)
							}
						}()
						roots[i] = doParse(append([]byte(nil), ins[i].src...), parseVersion(Task{"ver": ins[i].ver}), true).root
					}()
				}
			}(w)
		}
		close(start)
		wg.Wait()
		posOwner := map[*position.Position]int{}
		tokOwner := map[*token.Token]int{}
		for i, root := range roots {
			if panics[i] != "" {
				if solo[i] != "" {
					bad = append(bad, map[string]interface{}{"what": "panic-only-when-concurrent", "input": i, "msg": panics[i]})
				}
				continue
			}
			if isNilVertex(root) || solo[i] == "" {
				continue
			}
			ps, ts := collect(root)
			objects += len(ps) + len(ts)
			dp, dt := dups(ps, ts)
			if (dp != soloDP[i] || dt != soloDT[i]) && len(bad) < 5 {
				bad = append(bad, map[string]interface{}{"what": "object-held-twice-in-one-tree", "input": i, "positions": dp - soloDP[i], "tokens": dt - soloDT[i]})
			}
			for _, p := range ps {
				if j, seen := posOwner[p]; seen && j != i && len(bad) < 5 {
					bad = append(bad, map[string]interface{}{"what": "position-object-held-by-two-trees", "input": i, "other": j})
					break
				}
				posOwner[p] = i
			}
			for _, tk := range ts {
				if j, seen := tokOwner[tk]; seen && j != i && len(bad) < 5 {
					bad = append(bad, map[string]interface{}{"what": "token-object-held-by-two-trees", "input": i, "other": j})
					break
				}
				tokOwner[tk] = i
			}
			if fingerprint(root, opts) != solo[i] && len(bad) < 5 {
				bad = append(bad, map[string]interface{}{"what": "tree-differs-from-solo-parse", "input": i})
			}
		}
	}
	return Result{"bad": bad, "objects": objects, "rounds": rounds, "inputs": len(ins)}
}
