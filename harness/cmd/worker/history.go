//go:build verif

package main

import (
	"bytes"
	"crypto/sha1"
	"encoding/hex"
	"fmt"
	"reflect"
	"runtime/debug"
	"sort"
	"strings"

	"github.com/z7zmey/php-parser/pkg/ast"
	"github.com/z7zmey/php-parser/pkg/token"
	"github.com/z7zmey/php-parser/pkg/visitor/dumper"
	"github.com/z7zmey/php-parser/pkg/visitor/formatter"
	"github.com/z7zmey/php-parser/pkg/visitor/nsresolver"
	"github.com/z7zmey/php-parser/pkg/visitor/printer"
	"github.com/z7zmey/php-parser/pkg/visitor/traverser"
)

func init() { register("history", opHistory) }

// failWriter accepts n bytes and fails from then on.
type failWriter struct{ n int }

func (w *failWriter) Write(p []byte) (int, error) {
	if len(p) > w.n {
		k := w.n
		w.n = 0
		return k, errWriterFailed
	}
	w.n -= len(p)
	return len(p), nil
}

var errWriterFailed = fmt.Errorf("verif: writer failed")

// observeFaulty runs the observer with a writer that fails after n bytes; a panic carrying the writer's error is what the
// dumper documents (it panics on write errors) and is recovered as the caller would; any other panic goes on.
func observeFaulty(op string, root ast.Vertex, n int) {
	defer func() {
		if r := recover(); r != nil {
			if e, ok := r.(error); ok && e == errWriterFailed {
				return
			}
			panic(r)
		}
	}()
	w := &failWriter{n: n}
	switch op {
	case "print":
		root.Accept(printer.NewPrinter(w))
	case "dump11":
		dumper.NewDumper(w).WithTokens().WithPositions().Dump(root)
	default:
		panic("verif: unknown faulty observer " + op)
	}
}

// observe applies one observer to the tree and renders its output as a string.
func observe(op string, root ast.Vertex) string {
	switch op {
	case "print":
		var buf bytes.Buffer
		root.Accept(printer.NewPrinter(&buf))
		return buf.String()
	case "dump00", "dump10", "dump01", "dump11":
		var buf bytes.Buffer
		d := dumper.NewDumper(&buf)
		if op[4] == '1' {
			d = d.WithTokens()
		}
		if op[5] == '1' {
			d = d.WithPositions()
		}
		d.Dump(root)
		return buf.String()
	case "traverse":
		rv := &recVisitor{}
		traverser.NewTraverser(rv).Traverse(root)
		var sb strings.Builder
		for _, n := range rv.seq {
			sb.WriteString(kindName(n))
			sb.WriteByte(' ')
		}
		return sb.String()
	case "resolve":
		return resolveString(root)
	}
	panic("verif: unknown observer " + op)
}

// resolveString renders the resolver's result with nodes identified by pre-order index.
func resolveString(root ast.Vertex) string {
	idx := map[ast.Vertex]int{}
	w := &walker{enter: func(n ast.Vertex, ki *kinfo, parent ast.Vertex, role string) { idx[n] = len(idx) }}
	w.walk(root, nil, "root")
	r := nsresolver.NewNamespaceResolver()
	traverser.NewTraverser(r).Traverse(root)
	var lines []string
	for n, name := range r.ResolvedNames {
		i, ok := idx[n]
		if !ok {
			i = -1
		}
		lines = append(lines, fmt.Sprintf("%06d %s %s", i, kindName(n), name))
	}
	sort.Strings(lines)
	return strings.Join(lines, "\n")
}

// deepFingerprint additionally covers what lies between len and cap of every list (a stray append
// through a shared slice shows up there) and the identity of every node and token object.
func deepFingerprint(root ast.Vertex) string {
	var sb strings.Builder
	sb.WriteString(fingerprint(root, fpOpts{tokens: true, positions: true, values: true}))
	w := &walker{
		enter: func(n ast.Vertex, ki *kinfo, parent ast.Vertex, role string) {
			v := reflect.ValueOf(n).Elem()
			fmt.Fprintf(&sb, "|%p", n)
			for _, f := range ki.fields {
				fv := v.Field(f.idx)
				switch f.kind {
				case fList:
					l := fv.Interface().([]ast.Vertex)
					fmt.Fprintf(&sb, "L%d/%d", len(l), cap(l))
					for _, x := range l[len(l):cap(l)] {
						fmt.Fprintf(&sb, "+%v", isNilVertex(x))
					}
				case fTokList:
					l := fv.Interface().([]*token.Token)
					fmt.Fprintf(&sb, "T%d/%d", len(l), cap(l))
					for _, x := range l[len(l):cap(l)] {
						fmt.Fprintf(&sb, "+%v", x == nil)
					}
				case fVal:
					b := fv.Bytes()
					fmt.Fprintf(&sb, "V%d", len(b))
				}
			}
		},
		tok: func(t *token.Token, owner ast.Vertex, field string, ff bool) {
			fmt.Fprintf(&sb, "|%p:%d/%d", t, len(t.FreeFloating), cap(t.FreeFloating))
		},
	}
	w.walk(root, nil, "root")
	return sb.String()
}

func opHistory(t Task) Result {
	src := s2b(tStr(t, "src"))
	orig := append([]byte(nil), src...)
	ver := parseVersion(t)
	var hist []string
	for _, x := range tArr(t, "hist") {
		hist = append(hist, x.(string))
	}
	// baseline: every observer on its own freshly parsed tree
	base := map[string]string{}
	for _, op := range hist {
		if strings.HasSuffix(op, "!") {
			continue
		}
		if _, ok := base[op]; !ok {
			p := doParse(append([]byte(nil), orig...), ver, true)
			if isNilVertex(p.root) || len(p.errs) > 0 {
				return Result{"skip": true}
			}
			base[op] = observe(op, p.root)
		}
	}
	p := doParse(src, ver, true)
	fp0 := deepFingerprint(p.root)
	outs := map[string]string{}
	for op, o := range base {
		outs[op] = shortHash(o)
	}
	for i, op := range hist {
		if strings.HasSuffix(op, "!") {
			plain := strings.TrimSuffix(op, "!")
			full := len(observe(plain, doParse(append([]byte(nil), orig...), ver, true).root))
			observeFaulty(plain, p.root, full/2)
			observeFaulty(plain, p.root, 0)
			if deepFingerprint(p.root) != fp0 {
				return Result{"diverged": i, "op": op, "what": "tree"}
			}
			continue
		}
		out := observe(op, p.root)
		if out != base[op] {
			d := 0
			for d < len(out) && d < len(base[op]) && out[d] == base[op][d] {
				d++
			}
			return Result{"diverged": i, "op": op, "what": "output", "at": d,
				"got": truncStr(out[d:], 120), "want": truncStr(base[op][d:], 120)}
		}
		if deepFingerprint(p.root) != fp0 {
			return Result{"diverged": i, "op": op, "what": "tree"}
		}
		if !bytes.Equal(src, orig) {
			return Result{"diverged": i, "op": op, "what": "source-buffer"}
		}
	}
	return Result{"ok": true, "outs": outs}
}

func shortHash(s string) string {
	h := sha1.Sum([]byte(s))
	return hex.EncodeToString(h[:8])
}

func truncStr(s string, n int) string {
	if len(s) > n {
		return s[:n]
	}
	return s
}

func init() { register("resolve", opResolve) }

// resolve: parse, run the real name resolver through the real traverser, return the map with nodes identified by
// kind and start offset.
func opResolve(t Task) Result {
	src := s2b(tStr(t, "src"))
	p := doParse(src, parseVersion(t), true)
	res := Result{"nerr": len(p.errs)}
	if len(p.errs) > 0 {
		res["errs"] = []interface{}{map[string]interface{}{"msg": p.errs[0].Msg, "p": posJSON(p.errs[0].Pos)}}
	}
	if isNilVertex(p.root) {
		return res
	}
	r := nsresolver.NewNamespaceResolver()
	traverser.NewTraverser(r).Traverse(p.root)
	var out []interface{}
	for n, name := range r.ResolvedNames {
		s, e := -1, -1
		if pos := n.GetPosition(); pos != nil {
			s, e = pos.StartPos, pos.EndPos
		}
		out = append(out, map[string]interface{}{"kind": kindName(n), "s": s, "e": e, "name": b2s([]byte(name))})
	}
	res["map"] = out
	return res
}

func init() { register("format_check", opFormatCheck) }

func formatAndPrint(root ast.Vertex) string {
	root.Accept(formatter.NewFormatter())
	var buf bytes.Buffer
	root.Accept(printer.NewPrinter(&buf))
	return buf.String()
}

// format_check: parse -> format -> print (F) -> parse -> format -> print (F2)
func opFormatCheck(t Task) Result {
	src := s2b(tStr(t, "src"))
	ver := parseVersion(t)
	p := doParse(src, ver, true)
	if isNilVertex(p.root) || len(p.errs) > 0 {
		return Result{"skip": true}
	}
	res := Result{"sfp0": fingerprint(p.root, fpOpts{values: true})}
	stage := "format"
	defer func() {
		if r := recover(); r != nil {
			res["fmt_panic"] = fmt.Sprint(r)
			res["stage"] = stage
			res["site"] = panicSite(string(debug.Stack()))
			panic(r)
		}
	}()
	f1 := formatAndPrint(p.root)
	res["F"] = b2s([]byte(f1))
	stage = "reparse"
	p2 := doParse([]byte(f1), ver, true)
	res["nerr1"] = len(p2.errs)
	if len(p2.errs) > 0 {
		res["err1"] = p2.errs[0].Msg
	}
	if isNilVertex(p2.root) || len(p2.errs) > 0 {
		return res
	}
	res["sfp1"] = fingerprint(p2.root, fpOpts{values: true})
	stage = "reformat"
	f2 := formatAndPrint(p2.root)
	res["idempotent"] = f2 == f1
	if f2 != f1 {
		res["F2"] = b2s([]byte(f2))
	}
	return res
}
