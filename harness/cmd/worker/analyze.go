//go:build verif

package main

import (
	"bytes"
	"fmt"
	"reflect"
	"sort"

	"github.com/z7zmey/php-parser/pkg/ast"
	"github.com/z7zmey/php-parser/pkg/conf"
	"github.com/z7zmey/php-parser/pkg/errors"
	"github.com/z7zmey/php-parser/pkg/parser"
	"github.com/z7zmey/php-parser/pkg/position"
	"github.com/z7zmey/php-parser/pkg/token"
	"github.com/z7zmey/php-parser/pkg/version"
	"github.com/z7zmey/php-parser/pkg/visitor/formatter"
	"github.com/z7zmey/php-parser/pkg/visitor/printer"
	"github.com/z7zmey/php-parser/pkg/visitor/traverser"
)

func init() {
	register("analyze", opAnalyze)
	register("tree", opTree)
}

// lineStarts implements the line rule of C04 on the raw bytes: LF, CRLF and a lone CR each end one line.
func lineStarts(src []byte) []int {
	var ls []int
	for i, c := range src {
		if c == '\n' {
			ls = append(ls, i+1)
		} else if c == '\r' && (i+1 == len(src) || src[i+1] != '\n') {
			ls = append(ls, i+1)
		}
	}
	return ls
}

func lineOf(ls []int, p int) int {
	return 1 + sort.Search(len(ls), func(i int) bool { return ls[i] > p })
}

func parseVersion(t Task) *version.Version {
	switch v := t["ver"].(type) {
	case string:
		if v == "" || v == "nil" {
			return nil
		}
		ver, err := version.New(v)
		if err != nil {
			panic("verif: bad version in task: " + v)
		}
		return ver
	}
	return nil
}

type parsed struct {
	root ast.Vertex
	err  error
	errs []*errors.Error
}

// reenter: when set, the error callback itself parses another (malformed) input before it returns - a callback may do anything,
// and what it does must not change the tree of the parse that called it (C06: the callback never changes the returned tree)
var reenter bool

func doParse(src []byte, ver *version.Version, cb bool) parsed {
	var p parsed
	cfg := conf.Config{Version: ver}
	if cb {
		re := reenter
		cfg.ErrorHandlerFunc = func(e *errors.Error) {
			p.errs = append(p.errs, e)
			if re {
				parser.Parse([]byte("<?php function g() { $a = ; if ( } echo 1 2;"), conf.Config{Version: ver, ErrorHandlerFunc: func(*errors.Error) {}})
			}
		}
	}
	p.root, p.err = parser.Parse(src, cfg)
	return p
}

type failList struct {
	l   []interface{}
	cnt map[string]int
}

func (f *failList) add(check string, kv ...interface{}) {
	if f.cnt == nil {
		f.cnt = map[string]int{}
	}
	f.cnt[check]++
	if f.cnt[check] > 3 {
		return
	}
	m := map[string]interface{}{"c": check}
	for i := 0; i+1 < len(kv); i += 2 {
		m[kv[i].(string)] = kv[i+1]
	}
	f.l = append(f.l, m)
}

func ffClass(v []byte) string {
	allws := len(v) > 0
	for _, c := range v {
		if c != ' ' && c != '\t' && c != '\v' && c != '\f' && c != '\r' && c != '\n' {
			allws = false
			break
		}
	}
	switch {
	case allws:
		return "T_WHITESPACE"
	case len(v) > 4 && bytes.HasPrefix(v, []byte("/**")):
		return "T_DOC_COMMENT"
	case bytes.HasPrefix(v, []byte("/*")), bytes.HasPrefix(v, []byte("//")), bytes.HasPrefix(v, []byte("#")):
		return "T_COMMENT"
	case bytes.HasPrefix(v, []byte("<?")):
		return "T_OPEN_TAG"
	}
	return "other"
}

type tokRec struct {
	t     *token.Token
	owner ast.Vertex
	field string
	ff    bool
}

// recording visitor support (methods generated into recvisitor_gen.go)
type recVisitor struct {
	seq []ast.Vertex
}

func (r *recVisitor) rec(n ast.Vertex) { r.seq = append(r.seq, n) }

func opAnalyze(t Task) Result {
	orig := s2b(tStr(t, "src"))
	// the input is handed over as a slice with spare capacity behind it (a window into a larger buffer of the caller's):
	// neither the input nor what lies behind it may be written
	inbuf := make([]byte, len(orig)+32)
	copy(inbuf, orig)
	for i := len(orig); i < len(inbuf); i++ {
		inbuf[i] = 0xAA
	}
	src := inbuf[:len(orig)]
	ver := parseVersion(t)
	cb := !tBool(t, "nocb")
	reenter = tBool(t, "recb")
	p := doParse(src, ver, cb)
	reenter = false
	res := Result{}
	fails := &failList{}
	if !bytes.Equal(src, orig) {
		fails.add("C01.mutated")
	}
	for i := len(orig); i < len(inbuf); i++ {
		if inbuf[i] != 0xAA {
			fails.add("C01.mutated", "beyond_input", i-len(orig))
			break
		}
	}
	if p.err != nil {
		res["parse_err"] = p.err.Error()
		res["fails"] = fails.l
		return res
	}
	ls := lineStarts(orig)
	n := len(orig)
	// ---- errors (C06 shape)
	var errs []interface{}
	prev := -1
	for i, e := range p.errs {
		if i < 50 {
			errs = append(errs, map[string]interface{}{"msg": e.Msg, "p": posJSON(e.Pos)})
		}
		if e.Msg == "" {
			fails.add("C06.empty-message", "i", i)
		}
		if e.Pos != nil {
			ps := e.Pos
			if !(0 <= ps.StartPos && ps.StartPos < ps.EndPos && ps.EndPos <= n) {
				fails.add("C06.pos-out-of-range", "i", i, "p", posJSON(ps), "msg", e.Msg)
			} else {
				if ps.StartLine != lineOf(ls, ps.StartPos) || ps.EndLine != lineOf(ls, ps.EndPos-1) {
					fails.add("C06.pos-line", "i", i, "p", posJSON(ps), "want", []int{lineOf(ls, ps.StartPos), lineOf(ls, ps.EndPos-1)}, "msg", e.Msg)
				}
				if ps.StartPos < prev {
					fails.add("C06.order", "i", i, "p", posJSON(ps), "prev", prev, "msg", e.Msg)
				}
				prev = ps.StartPos
			}
		}
	}
	res["nerr"] = len(p.errs)
	res["errs"] = errs
	res["root"] = !isNilVertex(p.root)
	if isNilVertex(p.root) {
		if cb && len(p.errs) == 0 {
			fails.add("C06.silent-nil-root")
		}
		res["fails"] = fails.l
		return res
	}
	root := p.root
	clean := cb && len(p.errs) == 0
	if tBool(t, "format") {
		// the tree as the formatter leaves it (C12 speaks of any tree): only the traversal facts are of interest to the caller
		if !clean || isNilVertex(root) {
			return Result{"skip": true}
		}
		root.Accept(formatter.NewFormatter())
		clean = false
	}

	// ---- collect tokens / nodes in source order
	var toks []tokRec
	type nodeRec struct {
		n      ast.Vertex
		ki     *kinfo
		parent ast.Vertex
		role   string
	}
	var nodes []nodeRec
	seen := map[ast.Vertex]bool{}
	w := &walker{
		enter: func(nn ast.Vertex, ki *kinfo, parent ast.Vertex, role string) {
			if seen[nn] {
				fails.add("C12.shared-node", "kind", ki.name, "role", role, "parent", kindName(parent))
			}
			seen[nn] = true
			nodes = append(nodes, nodeRec{nn, ki, parent, role})
		},
		tok: func(tk *token.Token, owner ast.Vertex, field string, ff bool) {
			toks = append(toks, tokRec{tk, owner, field, ff})
		},
	}
	w.walk(root, nil, "root")
	res["ntok"] = len(toks)
	res["nnodes"] = len(nodes)

	// ---- C04: token facts
	last := 0
	tokSeen := map[*token.Token]bool{}
	for i, r := range toks {
		tk := r.t
		if tokSeen[tk] {
			fails.add("C04.token-shared", "owner", kindName(r.owner), "field", r.field, "v", b2s(tk.Value))
			continue
		}
		tokSeen[tk] = true
		if tk.Position == nil {
			// only the end-of-input token has no position
			if len(tk.Value) != 0 {
				fails.add("C04.no-position", "owner", kindName(r.owner), "field", r.field, "v", b2s(tk.Value))
			}
			continue
		}
		ps := tk.Position
		if !(0 <= ps.StartPos && ps.StartPos <= ps.EndPos && ps.EndPos <= n) {
			fails.add("C04.range", "owner", kindName(r.owner), "field", r.field, "p", posJSON(ps))
			continue
		}
		if !bytes.Equal(tk.Value, orig[ps.StartPos:ps.EndPos]) {
			fails.add("C04.value", "owner", kindName(r.owner), "field", r.field, "p", posJSON(ps), "v", b2s(tk.Value), "srcv", b2s(orig[ps.StartPos:ps.EndPos]))
		}
		if ps.EndPos > ps.StartPos {
			wsl, wel := lineOf(ls, ps.StartPos), lineOf(ls, ps.EndPos-1)
			if ps.StartLine != wsl || ps.EndLine != wel {
				fails.add("C04.line", "owner", kindName(r.owner), "field", r.field, "ff", r.ff, "id", tk.ID.String(), "p", posJSON(ps), "want", []int{wsl, wel})
			}
		}
		if ps.StartPos < last {
			fails.add("C04.order", "owner", kindName(r.owner), "field", r.field, "p", posJSON(ps), "prev_end", last, "i", i)
		}
		if clean && ps.StartPos != last {
			fails.add("C04.gap", "owner", kindName(r.owner), "field", r.field, "p", posJSON(ps), "prev_end", last, "gap", b2s(orig[minInt(last, ps.StartPos):ps.StartPos]))
		}
		if ps.EndPos > last {
			last = ps.EndPos
		}
		if r.ff && clean {
			want := ffClass(tk.Value)
			got := tk.ID.String()
			if want == "other" {
				if got != "T_HALT_COMPILER" {
					fails.add("C04.ff-class", "id", got, "v", b2s(tk.Value), "want", "T_HALT_COMPILER")
				}
			} else if got != want && !(got == "T_HALT_COMPILER") {
				fails.add("C04.ff-class", "id", got, "v", b2s(tk.Value), "want", want)
			}
		}
		if !r.ff && clean {
			if c := ffClass(tk.Value); (c == "T_WHITESPACE" || c == "T_COMMENT" || c == "T_DOC_COMMENT") && tk.ID != token.T_INLINE_HTML && tk.ID != token.T_ENCAPSED_AND_WHITESPACE {
				fails.add("C04.trivia-as-token", "id", tk.ID.String(), "v", b2s(tk.Value))
			}
		}
	}
	if clean && last != n {
		fails.add("C04.tail-gap", "covered", last, "len", n)
	}
	// leaf values
	for _, nr := range nodes {
		v := infoOfV(nr.n)
		var val []byte
		hasVal := false
		var mainTok *token.Token
		for _, f := range nr.ki.fields {
			if f.kind == fVal {
				hasVal = true
				val = v.Field(f.idx).Bytes()
			}
		}
		if !hasVal {
			continue
		}
		var minus []byte
		for _, f := range nr.ki.fields {
			if f.kind == fTok {
				if tk := v.Field(f.idx).Interface().(*token.Token); tk != nil {
					if f.name == "MinusTkn" {
						minus = tk.Value
					} else {
						mainTok = tk
					}
				}
			}
		}
		if mainTok == nil {
			fails.add("C04.leaf-no-token", "kind", nr.ki.name)
		} else if !bytes.Equal(val, append(append([]byte(nil), minus...), mainTok.Value...)) {
			fails.add("C04.leaf-value", "kind", nr.ki.name, "val", b2s(val), "tok", b2s(mainTok.Value))
		}
	}

	// ---- C05: node spans (clean parses only)
	if clean {
		checkSpans(root, ls, fails)
	}

	// ---- C12 on the parsed tree: real traverser vs reflection preorder
	rv := &recVisitor{}
	traverser.NewTraverser(rv).Traverse(root)
	if len(rv.seq) != len(nodes) {
		fails.add("C12.count", "visited", len(rv.seq), "nodes", len(nodes))
	} else {
		for i := range nodes {
			if rv.seq[i] != nodes[i].n {
				fails.add("C12.order", "i", i, "visited", kindName(rv.seq[i]), "want", kindName(nodes[i].n), "parent", kindName(nodes[i].parent), "role", nodes[i].role)
				break
			}
		}
	}

	// ---- printing (C02 when clean; C07 no-invention otherwise)
	var buf bytes.Buffer
	root.Accept(printer.NewPrinter(&buf))
	printed := buf.Bytes()
	if clean {
		eq := bytes.Equal(printed, orig)
		res["print_eq"] = eq
		if !eq {
			d := 0
			for d < len(printed) && d < len(orig) && printed[d] == orig[d] {
				d++
			}
			res["print_diff_at"] = d
			res["printed_ctx"] = b2s(printed[maxInt(0, d-10):minInt(len(printed), d+20)])
			res["src_ctx"] = b2s(orig[maxInt(0, d-10):minInt(len(orig), d+20)])
		}
	} else {
		var cat bytes.Buffer
		for _, r := range toks {
			cat.Write(r.t.Value)
		}
		res["print_eq_tokens"] = bytes.Equal(printed, cat.Bytes())
		if !bytes.Equal(printed, cat.Bytes()) {
			res["printed"] = b2s(truncate(printed, 300))
			res["tokcat"] = b2s(truncate(cat.Bytes(), 300))
		}
	}
	res["fp"] = fingerprint(root, fpOpts{tokens: true, positions: true, values: true})
	res["sfp"] = fingerprint(root, fpOpts{values: true})
	if tBool(t, "kinds") {
		ks := map[string]bool{}
		for _, nr := range nodes {
			ks[nr.ki.name] = true
		}
		var kl []string
		for k := range ks {
			kl = append(kl, k)
		}
		sort.Strings(kl)
		res["kinds"] = kl
	}
	res["fails"] = fails.l
	return res
}

func truncate(b []byte, n int) []byte {
	if len(b) > n {
		return b[:n]
	}
	return b
}

func minInt(a, b int) int {
	if a < b {
		return a
	}
	return b
}
func maxInt(a, b int) int {
	if a > b {
		return a
	}
	return b
}

func infoOfV(n ast.Vertex) reflect.Value {
	_, v := infoOf(n)
	return v
}

// ---------------------------------------------------------------------------
// C05: span of a node = extent of the positioned, non-free-floating tokens of its subtree.

type extent struct{ s, e int }

func (x extent) ok() bool { return x.s >= 0 }

func merge(a, b extent) extent {
	if !a.ok() {
		return b
	}
	if !b.ok() {
		return a
	}
	return extent{minInt(a.s, b.s), maxInt(a.e, b.e)}
}

func tokExtent(t *token.Token) extent {
	if t == nil || t.Position == nil {
		return extent{-1, -1}
	}
	return extent{t.Position.StartPos, t.Position.EndPos}
}

type fieldExt struct {
	name string
	x    extent
}

// describe names an observed offset relative to the node's own fields, so that known deviations
// can be matched by relation rather than by number.
func describe(off int, fe []fieldExt, want extent) string {
	if off == -1 {
		return "-1"
	}
	if off == want.s {
		return "start(node)"
	}
	if off == want.e {
		return "end(node)"
	}
	for _, f := range fe {
		if f.x.ok() && off == f.x.e {
			return "end(" + f.name + ")"
		}
	}
	for _, f := range fe {
		if f.x.ok() && off == f.x.s {
			return "start(" + f.name + ")"
		}
	}
	return "other"
}

// boundaryList: an empty list in one of these fields forms a -1 boundary when it is the first/last
// element of its node (documented convention: "-1 stands for a boundary formed by an empty
// statement list"; the catch list of a catch-less, finally-less try is treated the same way).
func boundaryList(kind, field string) bool {
	return field == "Stmts" || (kind == "StmtTry" && field == "Catches")
}

type spanRes struct {
	full extent // extent of all positioned tokens below (for descriptions)
	s, e int    // expected recorded start / end (with the -1 convention)
	any  bool   // contributes a boundary to its parent
}

func checkSpans(root ast.Vertex, ls []int, fails *failList) {
	var rec func(n ast.Vertex, parent ast.Vertex, role string, pfe []fieldExt) spanRes
	rec = func(n ast.Vertex, parent ast.Vertex, role string, pfe []fieldExt) spanRes {
		ki, v := infoOf(n)
		var fe []fieldExt
		var pos *position.Position
		prevChildEnd := -1
		first, lastE := spanRes{}, spanRes{}
		elem := func(s, e int) {
			if !first.any {
				first = spanRes{s: s, e: e, any: true}
			}
			lastE = spanRes{s: s, e: e, any: true}
		}
		full := extent{-1, -1}
		// first pass: own token extents, so that children can be described relative to this node
		for _, f := range ki.fields {
			fv := v.Field(f.idx)
			switch f.kind {
			case fTok:
				fe = append(fe, fieldExt{f.name, tokExtent(fv.Interface().(*token.Token))})
			case fTokList:
				x := extent{-1, -1}
				for _, t := range fv.Interface().([]*token.Token) {
					x = merge(x, tokExtent(t))
				}
				fe = append(fe, fieldExt{f.name, x})
			}
		}
		child := func(c ast.Vertex, fname string) {
			r := rec(c, n, fname, fe)
			full = merge(full, r.full)
			if r.any {
				elem(r.s, r.e)
			}
			if cp := c.GetPosition(); cp != nil && cp.StartPos >= 0 && cp.EndPos >= 0 {
				if cp.StartPos < prevChildEnd {
					fails.add("C05.sibling-overlap", "kind", ki.name, "field", fname)
				}
				if cp.EndPos > prevChildEnd {
					prevChildEnd = cp.EndPos
				}
			}
		}
		skip := -1
		for i, f := range ki.fields {
			if i == skip {
				continue
			}
			fv := v.Field(f.idx)
			switch f.kind {
			case fPos:
				pos = fv.Interface().(*position.Position)
			case fTok:
				x := tokExtent(fv.Interface().(*token.Token))
				full = merge(full, x)
				// convention: a trait adaptation excludes its terminating semicolon
				if f.name == "SemiColonTkn" && (ki.name == "StmtTraitUseAlias" || ki.name == "StmtTraitUsePrecedence") {
					continue
				}
				if x.ok() {
					elem(x.s, x.e)
				}
			case fNode:
				if !fv.IsNil() && !isNilVertex(fv.Interface().(ast.Vertex)) {
					child(fv.Interface().(ast.Vertex), f.name)
				}
			case fList:
				list := fv.Interface().([]ast.Vertex)
				var seps []*token.Token
				if f.pair >= 0 {
					seps = v.Field(ki.fields[f.pair].idx).Interface().([]*token.Token)
					skip = f.pair
				}
				if len(list) == 0 && len(seps) == 0 {
					if boundaryList(ki.name, f.name) {
						elem(-1, -1)
					}
					continue
				}
				for k := 0; k < len(list) || k < len(seps); k++ {
					if k < len(list) && !isNilVertex(list[k]) {
						child(list[k], f.name)
					}
					if k < len(seps) {
						if x := tokExtent(seps[k]); x.ok() {
							full = merge(full, x)
							elem(x.s, x.e)
						}
					}
				}
			}
		}
		want := extent{-1, -1}
		if first.any {
			want = extent{first.s, lastE.e}
		}
		res := spanRes{full: full, s: want.s, e: want.e, any: true}
		if pos == nil {
			// convention: an empty array/list slot has no position (and no tokens)
			if full.ok() {
				fails.add("C05.no-position", "kind", ki.name, "parent", kindName(parent), "role", role)
			}
			res.any = full.ok()
			return res
		}
		desc := func(off int) string {
			d := describe(off, fe, full)
			if d == "other" {
				if pd := describe(off, pfe, extent{-2, -2}); pd != "other" {
					return "parent." + pd
				}
			}
			return d
		}
		if pos.StartPos != want.s {
			fails.add("C05.span", "kind", ki.name, "parent", kindName(parent), "role", role, "side", "start",
				"observed", desc(pos.StartPos), "p", posJSON(pos), "want", []int{want.s, want.e})
		} else if want.s >= 0 && pos.StartLine != lineOf(ls, pos.StartPos) || want.s < 0 && pos.StartLine != -1 {
			fails.add("C05.line", "kind", ki.name, "side", "start", "p", posJSON(pos))
		}
		if pos.EndPos != want.e {
			fails.add("C05.span", "kind", ki.name, "parent", kindName(parent), "role", role, "side", "end",
				"observed", desc(pos.EndPos), "p", posJSON(pos), "want", []int{want.s, want.e})
		} else if want.e > 0 && pos.EndLine != lineOf(ls, pos.EndPos-1) || want.e < 0 && pos.EndLine != -1 {
			fails.add("C05.line", "kind", ki.name, "side", "end", "p", posJSON(pos))
		}
		// children within parents
		if pp := parentPos(parent); pp != nil && pp.StartPos >= 0 && pp.EndPos >= 0 && pos.StartPos >= 0 && pos.EndPos >= 0 {
			if pos.StartPos < pp.StartPos || pos.EndPos > pp.EndPos {
				fails.add("C05.child-outside-parent", "kind", ki.name, "parent", kindName(parent), "role", role, "p", posJSON(pos), "pp", posJSON(pp))
			}
		}
		return res
	}
	rec(root, nil, "root", nil)
}

func parentPos(p ast.Vertex) *position.Position {
	if isNilVertex(p) {
		return nil
	}
	return p.GetPosition()
}

// tree: returns the parsed tree as JSON (reports, expectations, debugging)
func opTree(t Task) Result {
	src := s2b(tStr(t, "src"))
	p := doParse(src, parseVersion(t), !tBool(t, "nocb"))
	var errs []interface{}
	for _, e := range p.errs {
		errs = append(errs, map[string]interface{}{"msg": e.Msg, "p": posJSON(e.Pos)})
	}
	res := Result{"errs": errs, "tree": treeJSON(p.root, tBool(t, "tokens"))}
	if !isNilVertex(p.root) {
		var buf bytes.Buffer
		p.root.Accept(printer.NewPrinter(&buf))
		res["printed"] = b2s(buf.Bytes())
	}
	return res
}

var _ = fmt.Sprint

func init() { register("timing", opTiming) }

// timing: wall-clock of one parse in milliseconds (scaling check of C01)
func opTiming(t Task) Result {
	src := s2b(tStr(t, "src"))
	best := 1e18
	for i := 0; i < 3; i++ {
		st := nowNanos()
		doParse(src, parseVersion(t), true)
		if d := float64(nowNanos()-st) / 1e6; d < best {
			best = d
		}
	}
	return Result{"ms": best}
}
