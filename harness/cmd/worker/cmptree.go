//go:build verif

package main

import (
	"bytes"
	"fmt"
	"reflect"

	"github.com/z7zmey/php-parser/pkg/ast"
	"github.com/z7zmey/php-parser/pkg/position"
	"github.com/z7zmey/php-parser/pkg/token"
	"github.com/z7zmey/php-parser/pkg/visitor/printer"
)

func init() { register("cmp_tree", opCmpTree) }

type cmpCtx struct {
	ls    []int
	fails *failList
}

func jInt(x interface{}) int {
	f, _ := x.(float64)
	return int(f)
}

func (c *cmpCtx) tok(exp map[string]interface{}, tk *token.Token, path, kind, field string) {
	te := exp["t"].([]interface{})
	ws, we := jInt(te[0]), jInt(te[1])
	if ws >= 0 {
		if tk.Position == nil || tk.Position.StartPos != ws || tk.Position.EndPos != we {
			c.fails.add("token-offset", "path", path, "kind", kind, "field", field, "want", []int{ws, we}, "got", posJSON(tk.Position))
			return
		}
	}
	ffe, _ := exp["ff"].([]interface{})
	if len(ffe) != len(tk.FreeFloating) {
		c.fails.add("ff-count", "path", path, "kind", kind, "field", field, "want", len(ffe), "got", len(tk.FreeFloating))
		return
	}
	for i, x := range ffe {
		e := x.([]interface{})
		f := tk.FreeFloating[i]
		if f.ID.String() != e[0].(string) {
			c.fails.add("ff-class", "path", path, "kind", kind, "field", field, "want", e[0], "got", f.ID.String())
		} else if f.Position == nil || f.Position.StartPos != jInt(e[1]) || f.Position.EndPos != jInt(e[2]) {
			c.fails.add("ff-offset", "path", path, "kind", kind, "field", field, "want", []int{jInt(e[1]), jInt(e[2])}, "got", posJSON(f.Position))
		}
	}
}

func (c *cmpCtx) node(exp map[string]interface{}, n ast.Vertex, path string) {
	wantKind, _ := exp["k"].(string)
	if isNilVertex(n) {
		c.fails.add("missing-node", "path", path, "kind", wantKind)
		return
	}
	ki, v := infoOf(n)
	if ki.name != wantKind {
		c.fails.add("kind", "path", path, "kind", wantKind, "got", ki.name)
		return
	}
	ef, _ := exp["f"].(map[string]interface{})
	var pos *position.Position
	for _, f := range ki.fields {
		fv := v.Field(f.idx)
		e, has := ef[f.name]
		p := path + "." + f.name
		switch f.kind {
		case fPos:
			pos = fv.Interface().(*position.Position)
		case fTok:
			tk := fv.Interface().(*token.Token)
			if has && tk == nil {
				c.fails.add("missing-token", "path", p, "kind", ki.name, "field", f.name)
			} else if !has && tk != nil {
				c.fails.add("extra-token", "path", p, "kind", ki.name, "field", f.name, "got", b2s(tk.Value))
			} else if has {
				c.tok(e.(map[string]interface{}), tk, p, ki.name, f.name)
			}
		case fTokList:
			l := fv.Interface().([]*token.Token)
			var el []interface{}
			if has {
				el, _ = e.(map[string]interface{})["tl"].([]interface{})
			}
			if len(el) != len(l) {
				c.fails.add("separator-count", "path", p, "kind", ki.name, "field", f.name, "want", len(el), "got", len(l))
			} else {
				for i := range l {
					if l[i] == nil {
						c.fails.add("missing-token", "path", p, "kind", ki.name, "field", f.name)
					} else {
						c.tok(el[i].(map[string]interface{}), l[i], fmt.Sprintf("%s[%d]", p, i), ki.name, f.name)
					}
				}
			}
		case fNode:
			isnil := fv.IsNil() || isNilVertex(fv.Interface().(ast.Vertex))
			if has && isnil {
				c.fails.add("missing-child", "path", p, "kind", ki.name, "field", f.name)
			} else if !has && !isnil {
				c.fails.add("extra-child", "path", p, "kind", ki.name, "field", f.name, "got", kindName(fv.Interface().(ast.Vertex)))
			} else if has {
				c.node(e.(map[string]interface{}), fv.Interface().(ast.Vertex), p)
			}
		case fList:
			l := fv.Interface().([]ast.Vertex)
			var el []interface{}
			if has {
				el, _ = e.(map[string]interface{})["l"].([]interface{})
			}
			if len(el) != len(l) {
				c.fails.add("list-length", "path", p, "kind", ki.name, "field", f.name, "want", len(el), "got", len(l))
			} else {
				for i := range l {
					c.node(el[i].(map[string]interface{}), l[i], fmt.Sprintf("%s[%d]", p, i))
				}
			}
		case fVal:
			b := fv.Bytes()
			if has {
				want := s2b(e.(map[string]interface{})["v"].(string))
				if !bytes.Equal(want, b) {
					c.fails.add("value", "path", p, "kind", ki.name, "field", f.name, "want", b2s(want), "got", b2s(b))
				}
			} else if len(b) > 0 {
				c.fails.add("extra-value", "path", p, "kind", ki.name, "field", f.name, "got", b2s(b))
			}
		}
	}
	for name := range ef {
		if _, ok := reflect.TypeOf(n).Elem().FieldByName(name); !ok {
			c.fails.add("spec-field-unknown", "path", path, "kind", ki.name, "field", name)
		}
	}
	ws, we := jInt(exp["s"]), jInt(exp["e"])
	if pos == nil {
		if ws != -1 || we != -1 {
			c.fails.add("span-missing", "path", path, "kind", ki.name, "want", []int{ws, we})
		}
		return
	}
	if pos.StartPos != ws {
		c.fails.add("span-start", "path", path, "kind", ki.name, "want", []int{ws, we}, "got", posJSON(pos))
	} else if ws >= 0 && pos.StartLine != lineOf(c.ls, ws) || ws < 0 && pos.StartLine != -1 {
		c.fails.add("span-line", "path", path, "kind", ki.name, "side", "start", "got", posJSON(pos))
	}
	if pos.EndPos != we {
		c.fails.add("span-end", "path", path, "kind", ki.name, "want", []int{ws, we}, "got", posJSON(pos))
	} else if we > 0 && pos.EndLine != lineOf(c.ls, we-1) || we < 0 && pos.EndLine != -1 {
		c.fails.add("span-line", "path", path, "kind", ki.name, "side", "end", "got", posJSON(pos))
	}
}

// cmp_tree: parse src and compare the returned tree with the expectation derived from Syntax.tla.
func opCmpTree(t Task) Result {
	src := s2b(tStr(t, "src"))
	p := doParse(src, parseVersion(t), true)
	res := Result{"nerr": len(p.errs)}
	var errs []interface{}
	for i, e := range p.errs {
		if i < 5 {
			errs = append(errs, map[string]interface{}{"msg": e.Msg, "p": posJSON(e.Pos)})
		}
	}
	res["errs"] = errs
	if isNilVertex(p.root) {
		res["root"] = false
		return res
	}
	res["root"] = true
	fails := &failList{}
	if exp, ok := t["exp"].(map[string]interface{}); ok && len(p.errs) == 0 {
		c := &cmpCtx{ls: lineStarts(src), fails: fails}
		c.node(exp, p.root, "Root")
	}
	var buf bytes.Buffer
	p.root.Accept(printer.NewPrinter(&buf))
	res["print_eq"] = bytes.Equal(buf.Bytes(), src)
	if !bytes.Equal(buf.Bytes(), src) {
		d := 0
		pb := buf.Bytes()
		for d < len(pb) && d < len(src) && pb[d] == src[d] {
			d++
		}
		res["print_diff_at"] = d
		res["printed_ctx"] = b2s(pb[maxInt(0, d-10):minInt(len(pb), d+20)])
		res["src_ctx"] = b2s(src[maxInt(0, d-10):minInt(len(src), d+20)])
	}
	res["fp"] = fingerprint(p.root, fpOpts{tokens: true, positions: true, values: true})
	res["sfp"] = fingerprint(p.root, fpOpts{values: true})
	res["fails"] = fails.l
	return res
}

func init() { register("stmt_fps", opStmtFps) }

// stmt_fps: parse and return, for the statement list reached by `path` (alternating field names and indices
// from the root), the full and structural fingerprint of every statement, plus errors.
func opStmtFps(t Task) Result {
	src := s2b(tStr(t, "src"))
	p := doParse(src, parseVersion(t), !tBool(t, "nocb"))
	res := Result{"nerr": len(p.errs), "root": !isNilVertex(p.root)}
	if isNilVertex(p.root) {
		return res
	}
	var cur interface{} = p.root
	for _, step := range tArr(t, "path") {
		switch s := step.(type) {
		case string:
			n, ok := cur.(ast.Vertex)
			if !ok || isNilVertex(n) {
				res["path_ok"] = false
				return res
			}
			_, v := infoOf(n)
			f := v.FieldByName(s)
			if !f.IsValid() {
				res["path_ok"] = false
				return res
			}
			cur = f.Interface()
		case float64:
			l, ok := cur.([]ast.Vertex)
			if !ok || int(s) >= len(l) {
				res["path_ok"] = false
				return res
			}
			cur = l[int(s)]
		}
	}
	l, ok := cur.([]ast.Vertex)
	if !ok {
		res["path_ok"] = false
		return res
	}
	res["path_ok"] = true
	var fps []interface{}
	for _, s := range l {
		fps = append(fps, []string{fingerprint(s, fpOpts{tokens: true, positions: true, values: true}), fingerprint(s, fpOpts{values: true}), kindName(s)})
	}
	res["fps"] = fps
	res["tree_fp"] = fingerprint(p.root, fpOpts{tokens: true, positions: true, values: true})
	// a node object reachable along two paths (C12)
	seen := map[ast.Vertex]bool{}
	w := &walker{enter: func(nn ast.Vertex, ki *kinfo, parent ast.Vertex, role string) {
		if seen[nn] {
			res["shared"] = ki.name + " as " + role + " of " + kindName(parent)
		}
		seen[nn] = true
	}}
	w.walk(p.root, nil, "root")
	return res
}
