//go:build verif

package main

import (
	"github.com/z7zmey/php-parser/pkg/conf"
	"github.com/z7zmey/php-parser/pkg/token"
	"github.com/z7zmey/php-parser/pkg/verifshim"
)

func init() {
	register("newlines_replay", opNewLinesReplay)
	register("lex_lines", opLexLines)
}

// newlines_replay: behaviours of NewLines.tla.  cases: [{appends: [p...], n: N}] -> per case the table after every
// Append call and GetLine(p) for p = 0..n on the final table, from the real scanner.NewLines.
func opNewLinesReplay(t Task) Result {
	var outs []interface{}
	for _, c := range tArr(t, "cases") {
		cm := c.(map[string]interface{})
		nl := &verifshim.NewLines{}
		var after []interface{}
		for _, p := range cm["appends"].([]interface{}) {
			nl.Append(int(p.(float64)))
			after = append(after, len(nl.VerifData()))
		}
		n := int(cm["n"].(float64))
		lines := make([]int, 0, n+1)
		for p := 0; p <= n; p++ {
			lines = append(lines, nl.GetLine(p))
		}
		outs = append(outs, map[string]interface{}{"data": nl.VerifData(), "len_after": after, "lines": lines})
	}
	return Result{"outs": outs}
}

// lex_lines: runs the real scanner over each source and returns the recorded line starts and, for every token and
// free-floating token, [start, end, startLine, endLine].
func opLexLines(t Task) Result {
	var outs []interface{}
	ver := parseVersion(t)
	if ver == nil {
		ver = parseVersion(Task{"ver": "7.4"})
	}
	for _, c := range tArr(t, "srcs") {
		src := s2b(c.(string))
		lx := verifshim.NewLexer(src, conf.Config{Version: ver})
		var toks []interface{}
		add := func(tk *token.Token) {
			if tk.Position != nil {
				toks = append(toks, []int{tk.Position.StartPos, tk.Position.EndPos, tk.Position.StartLine, tk.Position.EndLine})
			}
		}
		stuck := false
		for i := 0; ; i++ {
			tk := lx.Lex()
			for _, f := range tk.FreeFloating {
				add(f)
			}
			if tk.ID <= 0 {
				break
			}
			add(tk)
			if i > len(src)+16 {
				stuck = true
				break
			}
		}
		outs = append(outs, map[string]interface{}{"starts": lx.VerifLineStarts(), "toks": toks, "stuck": stuck})
	}
	return Result{"outs": outs}
}
