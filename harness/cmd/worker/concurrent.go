//go:build verif

package main

import (
	"bytes"
	"fmt"
	"io"
	"sync"

	"github.com/z7zmey/php-parser/pkg/ast"
	"github.com/z7zmey/php-parser/pkg/conf"
	"github.com/z7zmey/php-parser/pkg/errors"
	"github.com/z7zmey/php-parser/pkg/parser"
	"github.com/z7zmey/php-parser/pkg/token"
	"github.com/z7zmey/php-parser/pkg/verifshim"
	"github.com/z7zmey/php-parser/pkg/visitor/dumper"
	"github.com/z7zmey/php-parser/pkg/visitor/printer"
)

func init() {
	register("interleave", opInterleave)
	register("stress", opStress)
}

type pipeOut struct {
	fp, printed, dump, resolved, errs, panicked string
}

func (a pipeOut) diff(b pipeOut) string {
	switch {
	case a.panicked != b.panicked:
		return "panic"
	case a.fp != b.fp:
		return "tree"
	case a.errs != b.errs:
		return "errors"
	case a.printed != b.printed:
		return "print"
	case a.dump != b.dump:
		return "dump"
	case a.resolved != b.resolved:
		return "resolve"
	}
	return ""
}

func errString(es []*errors.Error) string {
	var sb bytes.Buffer
	for _, e := range es {
		fmt.Fprintf(&sb, "%s@%v;", e.Msg, posJSON(e.Pos))
	}
	return sb.String()
}

// pipeline runs parse -> print -> dump -> resolve for one input.  mk builds the parser (so that callers can
// register it for gating); w wraps the printer's writer.
// A panic of the code under test is part of the pipeline's result (C01 decides whether it is allowed; C11 only
// demands that the result under concurrency equals the result obtained alone).
func pipeline(src []byte, ver string, onParser func(p interface{}), wrap func(io.Writer) io.Writer) (out pipeOut) {
	defer func() {
		if r := recover(); r != nil {
			out = pipeOut{panicked: fmt.Sprint(r)}
		}
	}()
	var errs []*errors.Error
	cfg := conf.Config{Version: parseVersion(Task{"ver": ver}), ErrorHandlerFunc: func(e *errors.Error) { errs = append(errs, e) }}
	if wrap == nil && onParser == nil && len(src) > 0 && src[len(src)-1] == 0 {
		// (stress only) a trailing NUL marks "run this one without a callback"; the marker is not part of the input
		src = src[:len(src)-1]
		cfg.ErrorHandlerFunc = nil
	}
	var root ast.Vertex
	if onParser != nil {
		lx := verifshim.NewLexer(src, cfg)
		if ver[0] == '5' {
			p := verifshim.NewParser5(lx, cfg)
			onParser(p)
			p.Parse()
			root = p.GetRootNode()
		} else {
			p := verifshim.NewParser7(lx, cfg)
			onParser(p)
			p.Parse()
			root = p.GetRootNode()
		}
	} else {
		root, _ = parser.Parse(src, cfg)
	}
	out.errs = errString(errs)
	if isNilVertex(root) {
		return out
	}
	out.fp = fingerprint(root, fpOpts{tokens: true, positions: true, values: true})
	var pb bytes.Buffer
	var w io.Writer = &pb
	if wrap != nil {
		w = wrap(&pb)
	}
	root.Accept(printer.NewPrinter(w))
	out.printed = pb.String()
	var db bytes.Buffer
	dumper.NewDumper(&db).WithTokens().WithPositions().Dump(root)
	out.dump = db.String()
	out.resolved = resolveString(root)
	return out
}

type gated struct {
	mu      sync.Mutex
	passed  int
	k       int
	arrived chan bool
	goCh    chan struct{}
}

func (g *gated) gate() {
	g.mu.Lock()
	if g.passed >= g.k {
		g.mu.Unlock()
		return
	}
	g.passed++
	g.mu.Unlock()
	g.arrived <- true
	<-g.goCh
}

type gateWriter struct {
	w io.Writer
	g *gated
}

func (gw gateWriter) Write(b []byte) (int, error) {
	gw.g.gate()
	return gw.w.Write(b)
}

// interleave: replays one schedule of Interleave.tla. workers: [{src, ver}], sched: [worker index (1-based)...],
// k gates per worker, kind "lex" | "write".
func opInterleave(t Task) Result {
	ws := tArr(t, "workers")
	k := tInt(t, "k", 3)
	kind := tStr(t, "kind")
	n := len(ws)
	srcs := make([][]byte, n)
	vers := make([]string, n)
	solo := make([]pipeOut, n)
	for i, w := range ws {
		m := w.(map[string]interface{})
		srcs[i] = s2b(m["src"].(string))
		vers[i] = m["ver"].(string)
		solo[i] = pipeline(append([]byte(nil), srcs[i]...), vers[i], nil, nil)
	}
	gates := make([]*gated, n)
	byParser := sync.Map{}
	for i := range gates {
		gates[i] = &gated{k: k, arrived: make(chan bool), goCh: make(chan struct{})}
	}
	if kind == "lex" {
		verifshim.SetLexHook7(func(p *verifshim.Parser7, tk *token.Token) {
			if g, ok := byParser.Load(p); ok {
				g.(*gated).gate()
			}
		})
		verifshim.SetLexHook5(func(p *verifshim.Parser5, tk *token.Token) {
			if g, ok := byParser.Load(p); ok {
				g.(*gated).gate()
			}
		})
		defer verifshim.SetLexHook7(nil)
		defer verifshim.SetLexHook5(nil)
	}
	outs := make([]pipeOut, n)
	for i := 0; i < n; i++ {
		go func(i int) {
			g := gates[i]
			var onP func(p interface{})
			var wrap func(io.Writer) io.Writer
			if kind == "lex" {
				onP = func(p interface{}) { byParser.Store(p, g) }
			} else {
				onP = func(p interface{}) {}
				wrap = func(w io.Writer) io.Writer { return gateWriter{w, g} }
			}
			outs[i] = pipeline(append([]byte(nil), srcs[i]...), vers[i], onP, wrap)
			g.arrived <- false
		}(i)
	}
	at := make([]bool, n)
	for i := 0; i < n; i++ {
		at[i] = <-gates[i].arrived
	}
	for _, s := range tArr(t, "sched") {
		w := int(s.(float64)) - 1
		if w >= 0 && w < n && at[w] {
			gates[w].goCh <- struct{}{}
			at[w] = <-gates[w].arrived
		}
	}
	for i := 0; i < n; i++ {
		for at[i] {
			gates[i].goCh <- struct{}{}
			at[i] = <-gates[i].arrived
		}
	}
	var bad []interface{}
	for i := 0; i < n; i++ {
		if d := outs[i].diff(solo[i]); d != "" {
			bad = append(bad, map[string]interface{}{"worker": i + 1, "what": d})
		}
	}
	return Result{"bad": bad, "gates_passed": func() []int {
		r := make([]int, n)
		for i, g := range gates {
			r[i] = g.passed
		}
		return r
	}()}
}

// stress: G goroutines run the pipeline over all inputs for several rounds, un-gated; every result must equal
// the sequential one; parsing the same input twice must give identical results.
func opStress(t Task) Result {
	ins := tArr(t, "inputs")
	g := tInt(t, "goroutines", 16)
	rounds := tInt(t, "rounds", 3)
	type in struct {
		src []byte
		ver string
	}
	var inputs []in
	var seq []pipeOut
	for _, x := range ins {
		m := x.(map[string]interface{})
		i := in{s2b(m["src"].(string)), m["ver"].(string)}
		inputs = append(inputs, i)
		a := pipeline(append([]byte(nil), i.src...), i.ver, nil, nil)
		b := pipeline(append([]byte(nil), i.src...), i.ver, nil, nil)
		if d := a.diff(b); d != "" {
			return Result{"bad": []interface{}{map[string]interface{}{"what": "nondeterministic-" + d, "input": len(seq)}}}
		}
		seq = append(seq, a)
	}
	// all inputs back to back in one buffer
	var big []byte
	offs := make([]int, len(inputs))
	for i, in := range inputs {
		offs[i] = len(big)
		big = append(big, in.src...)
	}
	bigOrig := append([]byte(nil), big...)
	var mu sync.Mutex
	var bad []interface{}
	var wg sync.WaitGroup
	for w := 0; w < g; w++ {
		wg.Add(1)
		go func(w int) {
			defer wg.Done()
			defer func() {
				if r := recover(); r != nil {
					mu.Lock()
					bad = append(bad, map[string]interface{}{"what": "panic", "msg": fmt.Sprint(r)})
					mu.Unlock()
				}
			}()
			for r := 0; r < rounds; r++ {
				for k := range inputs {
					i := (k*7 + w*13 + r) % len(inputs)
					var o pipeOut
					switch (w + r + k) % 3 {
					case 0:
						// the input is a window into one buffer shared by all goroutines (read-only for everybody)
						o = pipeline(big[offs[i]:offs[i]+len(inputs[i].src)], inputs[i].ver, nil, nil)
					case 1:
						// no error callback installed
						o = pipeline(append(append([]byte(nil), inputs[i].src...), 0), inputs[i].ver, nil, nil)
						o.errs = seq[i].errs
					default:
						o = pipeline(append([]byte(nil), inputs[i].src...), inputs[i].ver, nil, nil)
					}
					if d := o.diff(seq[i]); d != "" {
						mu.Lock()
						if len(bad) < 5 {
							bad = append(bad, map[string]interface{}{"what": d, "input": i})
						}
						mu.Unlock()
					}
				}
			}
		}(w)
	}
	wg.Wait()
	if !bytes.Equal(big, bigOrig) {
		bad = append(bad, map[string]interface{}{"what": "shared-input-buffer-written"})
	}
	return Result{"bad": bad, "pipelines": g * rounds * len(inputs)}
}

func init() { register("cold_start", opColdStart) }

// cold_start: meant to be the FIRST task of a fresh process.  Every input is run through the whole pipeline on a goroutine of
// its own, all released at once, before anything in the library has been used in this process (lazily built tables, sync.Once-less
// caches and pools are in their initial state); only then are the sequential results computed and compared.
func opColdStart(t Task) Result {
	type in struct {
		src []byte
		ver string
	}
	var inputs []in
	for _, x := range tArr(t, "inputs") {
		m := x.(map[string]interface{})
		inputs = append(inputs, in{s2b(m["src"].(string)), m["ver"].(string)})
	}
	outs := make([]pipeOut, len(inputs))
	panics := make([]string, len(inputs))
	start := make(chan struct{})
	var wg sync.WaitGroup
	for i := range inputs {
		wg.Add(1)
		go func(i int) {
			defer wg.Done()
			defer func() {
				if r := recover(); r != nil {
					panics[i] = fmt.Sprint(r)
				}
			}()
			<-start
			outs[i] = pipeline(append([]byte(nil), inputs[i].src...), inputs[i].ver, nil, nil)
		}(i)
	}
	close(start)
	wg.Wait()
	var bad []interface{}
	for i := range inputs {
		if panics[i] != "" {
			bad = append(bad, map[string]interface{}{"what": "panic", "msg": panics[i], "input": i})
			continue
		}
		seq := pipeline(append([]byte(nil), inputs[i].src...), inputs[i].ver, nil, nil)
		if d := outs[i].diff(seq); d != "" && len(bad) < 5 {
			bad = append(bad, map[string]interface{}{"what": d, "input": i})
		}
	}
	res := Result{"pipelines": len(inputs)}
	if len(bad) > 0 {
		res["bad"] = bad
	}
	return res
}
