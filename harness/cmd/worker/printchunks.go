//go:build verif

package main

import (
	"github.com/z7zmey/php-parser/pkg/ast"
	"github.com/z7zmey/php-parser/pkg/position"
	"github.com/z7zmey/php-parser/pkg/token"
	"github.com/z7zmey/php-parser/pkg/visitor/printer"
)

func init() { register("print_chunks", opPrintChunks) }

// recWriter records every Write call: the printer's output stage is observable without a hook, because every
// inserted "<?php ", " " and "?>" is a Write call of its own.
type recWriter struct{ writes []string }

func (w *recWriter) Write(b []byte) (int, error) {
	w.writes = append(w.writes, b2s(b))
	return len(b), nil
}

// print_chunks replays behaviours of PrinterOut.tla.  cases: [{init: "html"|"php", chunks: [{kind, car, text}]}].
// A chunk is carried by an Identifier (kind php) or a StmtInlineHtml (kind html) in a Root's statement list:
// car "src" = token with a position, "syn" = token without, "val" = no token (the node's Value is written).
// A chunk with "ff": true is not a node of its own: its token is a free-floating token in front of the next chunk's token
// (printToken hands free-floating tokens to the same writeToken, so PrinterOut.tla owes the same pieces).
func opPrintChunks(t Task) Result {
	var outs []interface{}
	for _, c := range tArr(t, "cases") {
		cm := c.(map[string]interface{})
		root := &ast.Root{}
		off := 0
		var pend []*token.Token // chunks carried as free-floating tokens of the next chunk's token ("ff": true)
		for _, x := range cm["chunks"].([]interface{}) {
			ch := x.(map[string]interface{})
			text := s2b(ch["text"].(string))
			var tk *token.Token
			switch ch["car"].(string) {
			case "src":
				tk = &token.Token{ID: token.T_STRING, Value: text,
					Position: &position.Position{StartLine: 1, EndLine: 1, StartPos: off, EndPos: off + len(text)}}
			case "syn":
				tk = &token.Token{ID: token.T_STRING, Value: text}
			}
			off += len(text)
			if ff, _ := ch["ff"].(bool); ff && tk != nil {
				tk.ID = token.T_WHITESPACE
				if len(text) >= 2 && text[0] == '<' && text[1] == '?' {
					tk.ID = token.T_OPEN_TAG
				}
				pend = append(pend, tk)
				continue
			}
			if tk != nil && len(pend) > 0 {
				tk.FreeFloating = pend
				pend = nil
			}
			if ch["kind"].(string) == "html" {
				n := &ast.StmtInlineHtml{InlineHtmlTkn: tk}
				if tk == nil {
					n.Value = text
				}
				root.Stmts = append(root.Stmts, n)
			} else {
				n := &ast.Identifier{IdentifierTkn: tk}
				if tk == nil {
					n.Value = text
				}
				root.Stmts = append(root.Stmts, n)
			}
		}
		w := &recWriter{}
		p := printer.NewPrinter(w)
		if cm["init"].(string) == "php" {
			p = p.WithState(printer.PrinterStatePHP)
		}
		root.Accept(p)
		ws := make([]interface{}, len(w.writes))
		for i, s := range w.writes {
			ws[i] = s
		}
		outs = append(outs, ws)
	}
	return Result{"outs": outs}
}
