//go:build verif

package main

import (
	"unsafe"

	"github.com/z7zmey/php-parser/pkg/position"
	"github.com/z7zmey/php-parser/pkg/token"
)

// pool_run drives a real pool with a sequence of operations
//   ["g"]        Get
//   ["w", k, v]  write value v through the pointer returned by the k-th Get (0-based)
//   ["r", k]     read back through that pointer
// and returns one observation per operation. Object identity is derived from
// addresses (first-seen numbering), not from the pool's own counters.
func init() { register("pool_run", opPoolRun) }

type poolDrv interface {
	get() (addr uintptr, isNil bool, off, size int)
	write(k int, v int)
	read(k int) int
}

type tokDrv struct {
	p    *token.Pool
	ptrs []*token.Token
}

func (d *tokDrv) get() (uintptr, bool, int, int) {
	t := d.p.Get()
	d.ptrs = append(d.ptrs, t)
	off, size := d.p.VerifState()
	return uintptr(unsafe.Pointer(t)), t == nil, off, size
}
func (d *tokDrv) write(k, v int) {
	t := d.ptrs[k]
	if t == nil {
		return
	}
	t.ID = token.ID(v)
	t.Value = []byte{byte(v), byte(v >> 8), byte(v >> 16)}
	t.Position = nil
	t.FreeFloating = nil
}
func (d *tokDrv) read(k int) int {
	t := d.ptrs[k]
	if t == nil {
		return -2
	}
	v := int(t.ID)
	if len(t.Value) == 0 && v == 0 {
		return 0 // never written: zero value
	}
	if len(t.Value) != 3 || int(t.Value[0])|int(t.Value[1])<<8|int(t.Value[2])<<16 != v {
		return -1
	}
	return v
}

type posDrv struct {
	p    *position.Pool
	ptrs []*position.Position
}

func (d *posDrv) get() (uintptr, bool, int, int) {
	t := d.p.Get()
	d.ptrs = append(d.ptrs, t)
	off, size := d.p.VerifState()
	return uintptr(unsafe.Pointer(t)), t == nil, off, size
}
func (d *posDrv) write(k, v int) {
	t := d.ptrs[k]
	if t == nil {
		return
	}
	t.StartLine, t.EndLine, t.StartPos, t.EndPos = v, v+1, v+2, v+3
}
func (d *posDrv) read(k int) int {
	t := d.ptrs[k]
	if t == nil {
		return -2
	}
	v := t.StartLine
	if t.EndLine == 0 && t.StartPos == 0 && t.EndPos == 0 && v == 0 {
		return 0
	}
	if t.EndLine != v+1 || t.StartPos != v+2 || t.EndPos != v+3 {
		return -1
	}
	return v
}

func opPoolRun(t Task) Result {
	size := tInt(t, "size", 1024)
	var d poolDrv
	if tStr(t, "kind") == "position" {
		d = &posDrv{p: position.NewPool(size)}
	} else {
		d = &tokDrv{p: token.NewPool(size)}
	}
	seen := map[uintptr]int{}
	obs := make([]interface{}, 0, len(tArr(t, "ops")))
	for _, o := range tArr(t, "ops") {
		op := o.([]interface{})
		switch op[0].(string) {
		case "g":
			addr, isNil, off, sz := d.get()
			h := -1
			if !isNil {
				if id, ok := seen[addr]; ok {
					h = id
				} else {
					h = len(seen)
					seen[addr] = h
				}
			}
			obs = append(obs, map[string]interface{}{"op": "g", "h": h, "nil": isNil, "off": off, "size": sz})
		case "w":
			d.write(int(op[1].(float64)), int(op[2].(float64)))
			obs = append(obs, map[string]interface{}{"op": "w", "k": op[1], "v": op[2]})
		case "r":
			obs = append(obs, map[string]interface{}{"op": "r", "k": op[1], "v": d.read(int(op[1].(float64)))})
		}
	}
	return Result{"obs": obs}
}

func init() { register("pool_long", opPoolLong) }

// pool_long: count Get calls on a pool of the given block size; a unique value is written through every object when it is
// handed out, and at the end every object must be distinct from all others and still hold its value (PoolAbs.tla: Fresh,
// NonInterference, for histories far beyond what TLC enumerates).  Returns the first offending request, if any.
func opPoolLong(t Task) Result {
	size := tInt(t, "size", 1024)
	count := tInt(t, "count", 40000)
	var d poolDrv
	if tStr(t, "kind") == "position" {
		d = &posDrv{p: position.NewPool(size)}
	} else {
		d = &tokDrv{p: token.NewPool(size)}
	}
	seen := make(map[uintptr]int, count)
	for i := 0; i < count; i++ {
		addr, isNil, _, _ := d.get()
		if isNil {
			return Result{"bad": "nil-object", "at": i}
		}
		if j, ok := seen[addr]; ok {
			return Result{"bad": "object-returned-twice", "at": i, "first": j}
		}
		seen[addr] = i
		d.write(i, i+1)
	}
	for i := 0; i < count; i++ {
		if v := d.read(i); v != i+1 {
			return Result{"bad": "read-differs-from-last-write", "at": i, "got": v}
		}
	}
	return Result{"ok": true}
}
