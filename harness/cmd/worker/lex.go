//go:build verif

package main

import (
	"github.com/z7zmey/php-parser/pkg/conf"
	"github.com/z7zmey/php-parser/pkg/errors"
	"github.com/z7zmey/php-parser/pkg/token"
	"github.com/z7zmey/php-parser/pkg/verifshim"
)

func init() { register("lex", opLex) }

func tokEv(t *token.Token) map[string]interface{} {
	m := map[string]interface{}{"id": t.ID.String(), "s": -1, "e": -1}
	if t.Position != nil {
		m["s"], m["e"], m["sl"], m["el"] = t.Position.StartPos, t.Position.EndPos, t.Position.StartLine, t.Position.EndLine
	}
	return m
}

// lex runs the real scanner alone over the input and records one event per Lex() call: the token, its
// free-floating tokens, and the scanner state afterwards (mode by name, call stack).  The lexer never
// receives feedback from the parser, so this is the stream a parse sees.
func opLex(t Task) Result {
	src := s2b(tStr(t, "src"))
	ver := parseVersion(t)
	if ver == nil {
		ver = parseVersion(Task{"ver": "7.4"})
	}
	var errs []interface{}
	cfg := conf.Config{Version: ver, ErrorHandlerFunc: func(e *errors.Error) {
		errs = append(errs, map[string]interface{}{"msg": e.Msg, "p": posJSON(e.Pos)})
	}}
	lx := verifshim.NewLexer(src, cfg)
	var evs []interface{}
	limit := len(src) + 16
	noProgress := false
	for i := 0; ; i++ {
		st0 := lx.VerifState()
		tk := lx.Lex()
		st := lx.VerifState()
		ev := tokEv(tk)
		ev["v"] = b2s(tk.Value)
		ev["mode0"] = st0.Mode
		ev["mode"] = st.Mode
		ev["stack"] = st.Stack
		ev["top"] = st.Top
		ev["p"] = st.P
		ev["lines"] = st.Lines
		var ff []interface{}
		for _, f := range tk.FreeFloating {
			fe := tokEv(f)
			fe["v"] = b2s(f.Value)
			ff = append(ff, fe)
		}
		ev["ff"] = ff
		ev["nerr"] = len(errs)
		evs = append(evs, ev)
		if tk.ID == 0 {
			break
		}
		if i > limit {
			noProgress = true
			break
		}
	}
	return Result{"evs": evs, "errs": errs, "no_progress": noProgress, "linestarts": lx.VerifLineStarts()}
}
