//go:build verif

package main

import (
	"bufio"
	"io"
	"os"
	"regexp"
	"strconv"
	"strings"

	"github.com/z7zmey/php-parser/pkg/conf"
	"github.com/z7zmey/php-parser/pkg/errors"
	"github.com/z7zmey/php-parser/pkg/verifshim"
)

func init() { register("lrtrace", opLRTrace) }

var (
	reLex     = regexp.MustCompile(`^lex (.+)\((\d+)\)$`)
	rePush    = regexp.MustCompile(`^char (.+) in state-(\d+)$`)
	reReduce  = regexp.MustCompile(`^reduce (\d+) in:$`)
	reState   = regexp.MustCompile(`^\s*state-(\d+)$`)
	reSaw     = regexp.MustCompile(`^state-(\d+) saw (.+)$`)
	rePop     = regexp.MustCompile(`^error recovery pops state (\d+)$`)
	reDiscard = regexp.MustCompile(`^error recovery discards (.+)$`)
)

// captureStdout runs f with os.Stdout redirected into a pipe (goyacc's debug stream is printed with fmt.Printf)
// and returns what was printed.  The worker's own protocol writer keeps the original descriptor.
func captureStdout(f func()) string {
	r, w, err := os.Pipe()
	if err != nil {
		panic("verif: pipe: " + err.Error())
	}
	old := os.Stdout
	os.Stdout = w
	done := make(chan string)
	go func() {
		var sb strings.Builder
		io.Copy(&sb, bufio.NewReader(r))
		done <- sb.String()
	}()
	func() {
		defer func() {
			os.Stdout = old
			w.Close()
		}()
		f()
	}()
	s := <-done
	r.Close()
	return s
}

// lrtrace: parses src with goyacc's debug level 4 and returns the driver's steps as events
//   ["lex", tok] ["push", state, lookahead held ("" = none)] ["reduce", rule, state] ["err", state, tok] ["pop", state] ["discard", tok] ["ret", n]
// (tok = the token NAME the driver prints), the errors delivered to the callback, the rule tables R2 (right-hand-side lengths)
// and which errors came from Parser.Error (syntax errors) - the others come from the scanner or from grammar actions.
func opLRTrace(t Task) Result {
	src := s2b(tStr(t, "src"))
	ver := tStr(t, "ver")
	var errs []interface{}
	cfg := conf.Config{Version: parseVersion(t), ErrorHandlerFunc: func(e *errors.Error) {
		errs = append(errs, map[string]interface{}{"msg": e.Msg, "p": posJSON(e.Pos)})
	}}
	ret := -1
	php5 := strings.HasPrefix(ver, "5")
	out := captureStdout(func() {
		lx := verifshim.NewLexer(src, cfg)
		if php5 {
			verifshim.SetDebug5(4)
			defer verifshim.SetDebug5(0)
			ret = verifshim.NewParser5(lx, cfg).Parse()
		} else {
			verifshim.SetDebug7(4)
			defer verifshim.SetDebug7(0)
			ret = verifshim.NewParser7(lx, cfg).Parse()
		}
	})
	var evs []interface{}
	lines := strings.Split(out, "\n")
	unknown := 0
	for i := 0; i < len(lines); i++ {
		l := lines[i]
		if l == "" {
			continue
		}
		if m := reLex.FindStringSubmatch(l); m != nil {
			evs = append(evs, []interface{}{"lex", m[1]})
		} else if m := rePush.FindStringSubmatch(l); m != nil {
			s, _ := strconv.Atoi(m[2])
			la := m[1]
			if la == "tok--1" {
				la = ""
			}
			evs = append(evs, []interface{}{"push", s, la})
		} else if m := reReduce.FindStringSubmatch(l); m != nil && i+1 < len(lines) {
			r, _ := strconv.Atoi(m[1])
			s := -1
			if m2 := reState.FindStringSubmatch(lines[i+1]); m2 != nil {
				s, _ = strconv.Atoi(m2[1])
				i++
			}
			evs = append(evs, []interface{}{"reduce", r, s})
		} else if m := reSaw.FindStringSubmatch(l); m != nil {
			s, _ := strconv.Atoi(m[1])
			evs = append(evs, []interface{}{"err", s, m[2]})
		} else if m := rePop.FindStringSubmatch(l); m != nil {
			s, _ := strconv.Atoi(m[1])
			evs = append(evs, []interface{}{"pop", s})
		} else if m := reDiscard.FindStringSubmatch(l); m != nil {
			evs = append(evs, []interface{}{"discard", m[1]})
		} else {
			unknown++
		}
	}
	evs = append(evs, []interface{}{"ret", ret})
	res := Result{"evs": evs, "errs": errs, "ret": ret, "unknown_lines": unknown}
	if tBool(t, "raw") {
		res["raw"] = out
	}
	if tBool(t, "tables") {
		var r1, r2 []int
		if php5 {
			r1, r2, _ = verifshim.Tables5()
		} else {
			r1, r2, _ = verifshim.Tables7()
		}
		res["r1"], res["r2"] = r1, r2
	}
	return res
}
