//go:build verif

package main

import (
	"crypto/sha1"
	"encoding/hex"
	"fmt"
	"hash"
	"reflect"
	"sort"
	"strconv"

	"github.com/z7zmey/php-parser/pkg/ast"
	"github.com/z7zmey/php-parser/pkg/position"
	"github.com/z7zmey/php-parser/pkg/token"
)

// ---------------------------------------------------------------------------
// Reflection view of pkg/ast: every node kind is a struct whose fields are one
// of six types.  Field order is source order (NodeSchema.tla states this).

type fkind int

const (
	fPos fkind = iota
	fTok
	fTokList
	fNode
	fList
	fVal
)

var fkindNames = map[fkind]string{fPos: "position", fTok: "tkn", fTokList: "tknlist", fNode: "node", fList: "list", fVal: "value"}

type finfo struct {
	name string
	kind fkind
	idx  int
	pair int // for fList: index (in fields) of the separator list that follows it, else -1
}

type kinfo struct {
	name   string
	typ    reflect.Type // struct type
	fields []finfo
}

var (
	tPos     = reflect.TypeOf((*position.Position)(nil))
	tTok     = reflect.TypeOf((*token.Token)(nil))
	tTokList = reflect.TypeOf([]*token.Token(nil))
	tVertex  = reflect.TypeOf((*ast.Vertex)(nil)).Elem()
	tList    = reflect.TypeOf([]ast.Vertex(nil))
	tBytes   = reflect.TypeOf([]byte(nil))
	kinds    = map[reflect.Type]*kinfo{}
	kindList []*kinfo
	kindByName = map[string]*kinfo{}
)

func init() {
	vt := reflect.TypeOf((*ast.Visitor)(nil)).Elem()
	for i := 0; i < vt.NumMethod(); i++ {
		m := vt.Method(i)
		if m.Type.NumIn() != 1 {
			continue
		}
		pt := m.Type.In(0)
		if pt.Kind() != reflect.Ptr || pt.Elem().Kind() != reflect.Struct {
			continue
		}
		st := pt.Elem()
		if _, ok := kinds[st]; ok {
			continue
		}
		ki := &kinfo{name: st.Name(), typ: st}
		for j := 0; j < st.NumField(); j++ {
			f := st.Field(j)
			fi := finfo{name: f.Name, idx: j, pair: -1}
			switch f.Type {
			case tPos:
				fi.kind = fPos
			case tTok:
				fi.kind = fTok
			case tTokList:
				fi.kind = fTokList
			case tVertex:
				fi.kind = fNode
			case tList:
				fi.kind = fList
			case tBytes:
				fi.kind = fVal
			default:
				panic("verif: unknown field type in pkg/ast: " + st.Name() + "." + f.Name)
			}
			ki.fields = append(ki.fields, fi)
		}
		for j := range ki.fields {
			if ki.fields[j].kind == fList && j+1 < len(ki.fields) && ki.fields[j+1].kind == fTokList {
				ki.fields[j].pair = j + 1
			}
		}
		kinds[st] = ki
		kindList = append(kindList, ki)
		kindByName[ki.name] = ki
	}
	sort.Slice(kindList, func(a, b int) bool { return kindList[a].name < kindList[b].name })
	register("schema", opSchema)
}

func opSchema(t Task) Result {
	out := map[string]interface{}{}
	for _, k := range kindList {
		var fs []interface{}
		for _, f := range k.fields {
			fs = append(fs, []string{f.name, fkindNames[f.kind]})
		}
		out[k.name] = fs
	}
	return Result{"schema": out}
}

func isNilVertex(n ast.Vertex) bool {
	if n == nil {
		return true
	}
	v := reflect.ValueOf(n)
	return v.Kind() == reflect.Ptr && v.IsNil()
}

func infoOf(n ast.Vertex) (*kinfo, reflect.Value) {
	v := reflect.ValueOf(n).Elem()
	ki := kinds[v.Type()]
	if ki == nil {
		panic("verif: node of unknown kind " + v.Type().String())
	}
	return ki, v
}

// walker callbacks; any may be nil.
type walker struct {
	enter func(n ast.Vertex, ki *kinfo, parent ast.Vertex, role string)
	leave func(n ast.Vertex, ki *kinfo)
	tok   func(t *token.Token, owner ast.Vertex, field string, ff bool)
}

func (w *walker) token(t *token.Token, owner ast.Vertex, field string) {
	if t == nil || w.tok == nil {
		return
	}
	for _, ff := range t.FreeFloating {
		if ff != nil {
			w.tok(ff, owner, field, true)
		}
	}
	w.tok(t, owner, field, false)
}

// walk visits the subtree in source order: fields in declaration order, separators
// interleaved with the items of the list they follow.
func (w *walker) walk(n ast.Vertex, parent ast.Vertex, role string) {
	if isNilVertex(n) {
		return
	}
	ki, v := infoOf(n)
	if w.enter != nil {
		w.enter(n, ki, parent, role)
	}
	skip := -1
	for i, f := range ki.fields {
		if i == skip {
			continue
		}
		fv := v.Field(f.idx)
		switch f.kind {
		case fTok:
			w.token(fv.Interface().(*token.Token), n, f.name)
		case fTokList:
			for _, t := range fv.Interface().([]*token.Token) {
				w.token(t, n, f.name)
			}
		case fNode:
			if !fv.IsNil() {
				w.walk(fv.Interface().(ast.Vertex), n, f.name)
			}
		case fList:
			list := fv.Interface().([]ast.Vertex)
			var seps []*token.Token
			if f.pair >= 0 {
				seps = v.Field(ki.fields[f.pair].idx).Interface().([]*token.Token)
				skip = f.pair
			}
			for k, c := range list {
				w.walk(c, n, f.name)
				if k < len(seps) {
					w.token(seps[k], n, ki.fields[f.pair].name)
				}
			}
			for k := len(list); k < len(seps); k++ {
				w.token(seps[k], n, ki.fields[f.pair].name)
			}
		}
	}
	if w.leave != nil {
		w.leave(n, ki)
	}
}

// ---------------------------------------------------------------------------
// byte <-> JSON string (latin-1 mapping keeps arbitrary bytes intact)

func b2s(b []byte) string {
	r := make([]rune, len(b))
	for i, c := range b {
		r[i] = rune(c)
	}
	return string(r)
}

func s2b(s string) []byte {
	b := make([]byte, 0, len(s))
	for _, r := range s {
		b = append(b, byte(r))
	}
	return b
}

// ---------------------------------------------------------------------------
// fingerprints

type fpOpts struct {
	tokens, positions, values bool
}

type fper struct {
	h hash.Hash
	o fpOpts
}

func (f *fper) s(x string) { f.h.Write([]byte(x)); f.h.Write([]byte{0}) }
func (f *fper) i(x int)    { f.s(strconv.Itoa(x)) }

func (f *fper) pos(p *position.Position) {
	if !f.o.positions {
		return
	}
	if p == nil {
		f.s("nopos")
		return
	}
	f.i(p.StartLine)
	f.i(p.EndLine)
	f.i(p.StartPos)
	f.i(p.EndPos)
}

func (f *fper) tok(t *token.Token) {
	if t == nil {
		f.s("niltok")
		return
	}
	f.i(int(t.ID))
	f.s(string(t.Value))
	f.pos(t.Position)
	f.i(len(t.FreeFloating))
	for _, ff := range t.FreeFloating {
		f.tok(ff)
	}
}

func (f *fper) node(n ast.Vertex) {
	if isNilVertex(n) {
		f.s("nil")
		return
	}
	ki, v := infoOf(n)
	f.s("<" + ki.name)
	for _, fi := range ki.fields {
		fv := v.Field(fi.idx)
		switch fi.kind {
		case fPos:
			f.pos(fv.Interface().(*position.Position))
		case fTok:
			if f.o.tokens {
				f.s(fi.name)
				f.tok(fv.Interface().(*token.Token))
			}
		case fTokList:
			if f.o.tokens {
				f.s(fi.name)
				l := fv.Interface().([]*token.Token)
				f.i(len(l))
				for _, t := range l {
					f.tok(t)
				}
			}
		case fNode:
			f.s(fi.name)
			if fv.IsNil() {
				f.s("nil")
			} else {
				f.node(fv.Interface().(ast.Vertex))
			}
		case fList:
			f.s(fi.name)
			l := fv.Interface().([]ast.Vertex)
			f.i(len(l))
			for _, c := range l {
				f.node(c)
			}
		case fVal:
			if f.o.values {
				f.s(fi.name)
				f.s(string(fv.Bytes()))
			}
		}
	}
	f.s(">")
}

func fingerprint(n ast.Vertex, o fpOpts) string {
	f := &fper{h: sha1.New(), o: o}
	f.node(n)
	return hex.EncodeToString(f.h.Sum(nil))[:20]
}

// ---------------------------------------------------------------------------
// JSON rendering of a tree (for reports and for comparison with expectations)

func posJSON(p *position.Position) interface{} {
	if p == nil {
		return nil
	}
	return []int{p.StartLine, p.EndLine, p.StartPos, p.EndPos}
}

func tokJSON(t *token.Token) interface{} {
	if t == nil {
		return nil
	}
	m := map[string]interface{}{"id": t.ID.String(), "v": b2s(t.Value), "p": posJSON(t.Position)}
	if len(t.FreeFloating) > 0 {
		var ff []interface{}
		for _, f := range t.FreeFloating {
			ff = append(ff, tokJSON(f))
		}
		m["ff"] = ff
	}
	return m
}

func treeJSON(n ast.Vertex, withTokens bool) interface{} {
	if isNilVertex(n) {
		return nil
	}
	ki, v := infoOf(n)
	f := map[string]interface{}{}
	m := map[string]interface{}{"k": ki.name, "f": f}
	for _, fi := range ki.fields {
		fv := v.Field(fi.idx)
		switch fi.kind {
		case fPos:
			m["p"] = posJSON(fv.Interface().(*position.Position))
		case fTok:
			if withTokens && !fv.IsNil() {
				f[fi.name] = tokJSON(fv.Interface().(*token.Token))
			}
		case fTokList:
			if withTokens && fv.Len() > 0 {
				var l []interface{}
				for _, t := range fv.Interface().([]*token.Token) {
					l = append(l, tokJSON(t))
				}
				f[fi.name] = l
			}
		case fNode:
			if !fv.IsNil() {
				f[fi.name] = treeJSON(fv.Interface().(ast.Vertex), withTokens)
			}
		case fList:
			if !fv.IsNil() {
				l := []interface{}{}
				for _, c := range fv.Interface().([]ast.Vertex) {
					l = append(l, treeJSON(c, withTokens))
				}
				f[fi.name] = l
			}
		case fVal:
			if !fv.IsNil() {
				f[fi.name] = map[string]interface{}{"val": b2s(fv.Bytes())}
			}
		}
	}
	return m
}

func kindName(n ast.Vertex) string {
	if isNilVertex(n) {
		return "nil"
	}
	ki, _ := infoOf(n)
	return ki.name
}

var _ = fmt.Sprint
