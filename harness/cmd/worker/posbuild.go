//go:build verif

package main

import (
	"github.com/z7zmey/php-parser/pkg/ast"
	"github.com/z7zmey/php-parser/pkg/position"
	"github.com/z7zmey/php-parser/pkg/token"
	"github.com/z7zmey/php-parser/pkg/verifshim"
)

func init() { register("posbuild", opPosBuild) }

// posbuild: cases of Position.tla.  cases: [{comb, args}] -> per case the span the real internal/position.Builder yields, whether
// the returned object is one of the arguments' own Position objects (or one handed out before), and whether an argument changed.
func opPosBuild(t Task) Result {
	b := verifshim.NewBuilder()
	handed := map[*position.Position]bool{}
	var outs []interface{}
	for _, c := range tArr(t, "cases") {
		cm := c.(map[string]interface{})
		comb := cm["comb"].(string)
		var owned []*position.Position
		var snap []position.Position
		mkpos := func(s map[string]interface{}) *position.Position {
			p := &position.Position{StartLine: int(s["sl"].(float64)), EndLine: int(s["el"].(float64)), StartPos: int(s["sp"].(float64)), EndPos: int(s["ep"].(float64))}
			owned = append(owned, p)
			snap = append(snap, *p)
			return p
		}
		mknode := func(a map[string]interface{}) ast.Vertex {
			switch a["k"].(string) {
			case "nil":
				return nil
			case "nopos":
				return &ast.Identifier{}
			}
			return &ast.Identifier{Position: mkpos(a["s"].(map[string]interface{}))}
		}
		var toks []*token.Token
		var nodes []ast.Vertex
		var lists [][]ast.Vertex
		var sorts []string
		for _, a := range cm["args"].([]interface{}) {
			am := a.(map[string]interface{})
			switch am["k"].(string) {
			case "tok":
				toks = append(toks, &token.Token{Position: mkpos(am["s"].(map[string]interface{}))})
				sorts = append(sorts, "tok")
			case "nillist":
				lists = append(lists, nil)
				sorts = append(sorts, "list")
			case "list":
				l := []ast.Vertex{}
				for _, it := range am["items"].([]interface{}) {
					l = append(l, mknode(it.(map[string]interface{})))
				}
				lists = append(lists, l)
				sorts = append(sorts, "list")
			default:
				nodes = append(nodes, mknode(am))
				sorts = append(sorts, "node")
			}
		}
		var p *position.Position
		switch comb {
		case "NodeList":
			p = b.NewNodeListPosition(lists[0])
		case "Node":
			p = b.NewNodePosition(nodes[0])
		case "Token":
			p = b.NewTokenPosition(toks[0])
		case "Tokens":
			p = b.NewTokensPosition(toks[0], toks[1])
		case "TokenNode":
			p = b.NewTokenNodePosition(toks[0], nodes[0])
		case "NodeToken":
			p = b.NewNodeTokenPosition(nodes[0], toks[0])
		case "Nodes":
			p = b.NewNodesPosition(nodes[0], nodes[1])
		case "NodeListToken":
			p = b.NewNodeListTokenPosition(lists[0], toks[0])
		case "TokenNodeList":
			p = b.NewTokenNodeListPosition(toks[0], lists[0])
		case "NodeNodeList":
			p = b.NewNodeNodeListPosition(nodes[0], lists[0])
		case "NodeListNode":
			p = b.NewNodeListNodePosition(lists[0], nodes[0])
		case "OptionalListTokens":
			p = b.NewOptionalListTokensPosition(lists[0], toks[0], toks[1])
		default:
			outs = append(outs, map[string]interface{}{"error": "unknown combinator " + comb})
			continue
		}
		r := map[string]interface{}{}
		if p == nil {
			r["nil"] = true
		} else {
			r["span"] = []int{p.StartLine, p.EndLine, p.StartPos, p.EndPos}
			for _, o := range owned {
				if o == p {
					r["aliases_argument"] = true
				}
			}
			if handed[p] {
				r["handed_out_before"] = true
			}
			handed[p] = true
			// writing through the result must not reach an argument
			save := *p
			p.StartLine, p.EndLine, p.StartPos, p.EndPos = -7, -7, -7, -7
			for i, o := range owned {
				if *o != snap[i] {
					r["argument_changed"] = true
				}
			}
			*p = save
		}
		outs = append(outs, r)
	}
	return Result{"outs": outs}
}
