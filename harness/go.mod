module verifharness

go 1.23

require github.com/z7zmey/php-parser v0.0.0

replace github.com/z7zmey/php-parser => /repo
