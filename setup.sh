#!/bin/sh
# Offline setup: pre-build the conformance worker (plain and -race) from /repo's current tree.
cd "$(dirname "$0")" || exit 2
export GOFLAGS=-mod=mod GOPROXY=off GOSUMDB=off GOTOOLCHAIN=local
mkdir -p build evidence replays
cp /repo/go.sum harness/go.sum 2>/dev/null
python3 -c "import sys; sys.path.insert(0, \".\"); from vf import core; core.gen_recvisitor(\"harness\")" || exit 1
(cd harness && go build -tags verif -o ../build/worker ./cmd/worker) || exit 1
(cd harness && go build -race -tags verif -o ../build/worker-race ./cmd/worker) || exit 1
java -cp /opt/veriftools/tla/tla2tools.jar tlc2.TLC -h >/dev/null 2>&1
echo setup ok
