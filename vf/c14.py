"""C14 - resolved names follow PHP's name-resolution rules.

NsResolver.tla states PHP's rules as a state machine over the statements of a file (namespace statements of both
forms, use / use function / use const / group use with aliases in any letter case, declarations, references of
every name form at every resolvable site).  TLC enumerates the files exhaustively within the bounds (factorised
into matrices); each is rendered to PHP, parsed and resolved by the real resolver through the real traverser, and
the final ResolvedNames map must equal the specification's map exactly: no missing, wrong or extra entry."""
import json
import random

from . import core

NAMES = ["A", "a", "B", "F", "f", "C", "X"]
IMPORTS = [["P", "A"], ["P", "Q", "B"], ["R", "f"], ["R", "C"], ["P", "a"]]

# site id -> (kind, typepos, template with {N}, auxiliary resolved names [(marker text, fq name or ("decl", name))])
SITES = {
    "extends": ("class", False, "class Z1 extends {N} {}", [("class Z1", "decl:Z1")]),
    "implements": ("class", False, "class Z1 implements {N} {}", [("class Z1", "decl:Z1")]),
    "iface_extends": ("class", False, "interface Z1 extends {N} {}", [("interface Z1", "decl:Z1")]),
    "anon_extends": ("class", False, "$o = new class extends {N} {};", []),
    "anon_implements": ("class", False, "$o = new class(1) implements \\Zz, {N} {};", [("\\Zz", "fq:Zz")]),
    "anon_both": ("class", False, "$o = new class extends \\Zz implements {N} { use \\T1; };", [("\\Zz", "fq:Zz"), ("\\T1", "fq:T1")]),
    "new": ("class", False, "new {N};", []),
    "new_args": ("class", False, "$o = new {N}(1, 2);", []),
    "static_call": ("class", False, "{N}::m();", []),
    "static_prop": ("class", False, "{N}::$p;", []),
    "class_const": ("class", False, "{N}::K;", []),
    "instanceof": ("class", False, "$x instanceof {N};", []),
    "catch": ("class", False, "try {} catch ({N} $e) {}", []),
    "multicatch": ("class", False, "try {} catch (\\Zz | {N} $e) {}", [("\\Zz", "fq:Zz")]),
    "param_type": ("class", True, "function z1({N} $p) {}", [("function z1", "decl:z1")]),
    "nullable_param": ("class", True, "function z1(?{N} $p) {}", [("function z1", "decl:z1")]),
    "return_type": ("class", True, "function z1(): {N} {}", [("function z1", "decl:z1")]),
    "nullable_return": ("class", True, "function z1(): ?{N} {}", [("function z1", "decl:z1")]),
    "method_param": ("class", True, "class Z1 { function m({N} $p) {} }", [("class Z1", "decl:Z1")]),
    "method_return": ("class", True, "class Z1 { public static function m(): {N} {} }", [("class Z1", "decl:Z1")]),
    "prop_type": ("class", True, "class Z1 { public {N} $p; }", [("class Z1", "decl:Z1")]),
    "closure_param": ("class", True, "$c = function({N} $p) {};", []),
    "closure_return": ("class", True, "$c = function() use ($x): {N} {};", []),
    "arrow_param": ("class", True, "$c = fn({N} $p) => 1;", []),
    "arrow_return": ("class", True, "$c = fn(): ?{N} => 1;", []),
    "trait_use": ("class", False, "class Z1 { use {N}; }", [("class Z1", "decl:Z1")]),
    "insteadof_ref": ("class", False, "class Z1 { use \\T1, \\T2 { {N}::m insteadof \\T2; } }",
                      [("class Z1", "decl:Z1"), ("\\T1,", "fq:T1"), ("\\T2 {", "fq:T2"), ("\\T2;", "fq:T2")]),
    "insteadof_name": ("class", False, "class Z1 { use \\T1, \\T2 { \\T1::m insteadof {N}; } }",
                       [("class Z1", "decl:Z1"), ("\\T1,", "fq:T1"), ("\\T2 {", "fq:T2"), ("\\T1::", "fq:T1")]),
    "alias_ref": ("class", False, "class Z1 { use \\T1 { {N}::m as n; } }", [("class Z1", "decl:Z1"), ("\\T1 {", "fq:T1")]),
    "call": ("function", False, "{N}(1);", []),
    "call_nested": ("function", False, "$y = g0(1) + {N}();", [("g0", "unq_function:g0")]),
    "constfetch": ("const", False, "$y = {N};", []),
}
SPECIALS = {"self", "parent", "static", "int", "float", "bool", "string", "void", "iterable", "object", "true", "false", "null"}
DECL = {"class": "class {n} {{}}", "interface": "interface {n} {{}}", "trait": "trait {n} {{}}", "function": "function {n}() {{}}", "const": "const {n} = 1;"}


def tla_set(xs):
    return "{" + ", ".join(xs) + "}"


def tla_seq(xs):
    return "<<" + ", ".join('"%s"' % x for x in xs) + ">>"


def behaviours(check, sites, names, forms, maximp, maxrefs, maxsec, label, timeout=1800, simulate=None, mixed=False):
    sites_tla = tla_set('[id |-> "%s", kind |-> "%s", typepos |-> %s]' % (s, SITES[s][0], "TRUE" if SITES[s][1] else "FALSE") for s in sites)
    mc = ("---- MODULE MCNsResolver ----\nEXTENDS NsResolver\nMCNames == %s\nMCImports == %s\nMCSites == %s\nMCForms == %s\n====\n"
          % (tla_set('"%s"' % n for n in names), tla_set(tla_seq(i) for i in IMPORTS), sites_tla, tla_set('"%s"' % f for f in forms)))
    cfg = ("SPECIFICATION Spec\nCONSTANTS MaxImports = %d MaxRefs = %d MaxSections = %d Mixed = %s\nCONSTANT Names <- MCNames\nCONSTANT Imports <- MCImports\n"
           "CONSTANT Sites <- MCSites\nCONSTANT Forms <- MCForms\nINVARIANTS TypeOK ImportIndependence CaseRule\nPROPERTY NamespaceDropsImports\nCHECK_DEADLOCK FALSE\n"
           % (maximp, maxrefs, maxsec, "TRUE" if mixed else "FALSE"))
    if simulate:
        r = core.tlc("MCNsResolver", cfg, files={"MCNsResolver.tla": mc}, timeout=timeout, simulate={"num": simulate, "depth": 60}, seed_=core.seed())
    else:
        r = core.tlc("MCNsResolver", cfg, files={"MCNsResolver.tla": mc}, timeout=timeout, heap="12g")
    check.add_tlc("NsResolver(%s)" % label, r)
    out = [o for o in r.out if isinstance(o, dict) and "prog" in o]
    out.sort(key=lambda o: json.dumps(o["prog"]))
    return out


def render(beh, enc=None):
    """file text + expected {(start offset) -> (name, special?)}"""
    if enc:
        beh = _spell_beh(beh, enc)
    src = "<?php\n"
    expected = {}
    open_brace = False
    ns = []
    exp_by_ev = {e["ev"]: e["name"] for e in beh["expect"]}
    for idx, ev in enumerate(beh["prog"], start=1):
        t = ev["t"]
        if t == "ns":
            if open_brace:
                src += "}\n"
                open_brace = False
            ns = list(ev["name"])
            if ev["form"] == "semi":
                src += "namespace %s;\n" % "\\".join(ns)
            elif ev["form"] == "braced":
                src += ("namespace %s {\n" % "\\".join(ns)) if ns else "namespace {\n"
                open_brace = True
        elif t == "use":
            kw = {"class": "", "function": "function ", "const": "const "}[ev["kind"]]
            src += "use %s%s%s;\n" % (kw, "\\".join(ev["fqn"]), (" as " + ev["alias"]) if ev["alias"] else "")
        elif t == "groupuse":
            kw = {"class": "", "function": "function ", "const": "const "}
            src += "use %s\\{%s%s, %s%s%s};\n" % ("\\".join(ev["prefix"]), kw[ev["k1"]], "\\".join(ev["r1"]), kw[ev["k2"]], "\\".join(ev["r2"]),
                                                  (" as " + ev["al2"]) if ev["al2"] else "")
        elif t == "decl":
            text = DECL[ev["kind"]].format(n=ev["name"])
            off = len(src) + (len("const ") if ev["kind"] == "const" else 0)
            expected[off] = ("\\".join(exp_by_ev[idx]), "decl:" + ev["kind"], False)
            src += text + "\n"
        elif t == "ref":
            kind, typepos, tmpl, aux = SITES[ev["site"]]
            parts = ev["parts"]
            name = {"unq": parts[0], "qual": "\\".join(parts), "fq": "\\" + "\\".join(parts), "rel": "namespace\\" + "\\".join(parts)}[ev["form"]]
            text = tmpl.replace("{N}", name)
            base = len(src)
            special = ev["form"] == "unq" and exp_by_ev[idx] == [parts[0].lower()] and parts[0].lower() in SPECIALS
            expected[base + tmpl.index("{N}")] = ("\\".join(exp_by_ev[idx]), ev["site"], special)
            for marker, what in aux:
                # every occurrence of the marker (computed on the rendered text, after the main name was inserted)
                pos = text.index(marker)
                w, n = what.split(":")
                if w == "decl":
                    val = "\\".join(ns + [n])
                elif w == "fq":
                    val = n
                else:
                    val = "\\".join(ns + [n])
                key = base + pos + (0 if w != "decl" else 0)
                expected[key] = (val, "aux", False)
            src += text + "\n"
    if open_brace:
        src += "}\n"
    return src, expected


def _spell_beh(x, enc):
    if isinstance(x, str):
        return spell(x, enc)
    if isinstance(x, list):
        return [_spell_beh(y, enc) for y in x]
    if isinstance(x, dict):
        return {k: _spell_beh(v, enc) for k, v in x.items()}
    return x


def sample_sources(check, tier, n):
    """rendered files of matrix D (several namespace sections of both forms, imports, declarations, references with
    colliding short names) for checks that need resolver-heavy inputs (C11, C13)"""
    behs = behaviours(check, sorted(SITES), NAMES, ["unq", "qual", "fq", "rel"], 3, 4, 3, "matrix D as input pool (simulated)",
                      simulate=3000 if tier == "quick" else 40000)
    seen, out = set(), []
    for b in behs:
        src = render(b)[0]
        if src not in seen:
            seen.add(src)
            out.append(src)
    rng = random.Random(core.seed())
    rng.shuffle(out)
    return out[:n]


# the non-ASCII placeholders of NsResolver.tla's names, in the two usual source encodings
ENCODINGS = {"latin1": {"U1": "\u00c9", "u1": "\u00e9", "U2": "\u00c8"}, "utf8": {"U1": "\u00c3\u0089", "u1": "\u00c3\u00a9", "U2": "\u00c3\u0088"}}


def spell(text, enc):
    for k, v in ENCODINGS[enc].items():
        text = text.replace(k, v)
    return text


def run_matrix(check, wp, behs, label, encodings=None):
    if encodings:
        out = []
        for enc in encodings:
            out.append(_run_matrix(check, wp, behs, label + "/" + enc, enc))
        return
    _run_matrix(check, wp, behs, label, None)


def _run_matrix(check, wp, behs, label, enc):
    tasks, exps = [], []
    for b in behs:
        src, exp = render(b)
        if enc:
            # placeholders are three bytes in the rendered text and one or two in the source: re-render with offsets recomputed
            src, exp = render(b, enc)
        tasks.append({"op": "resolve", "src": src, "ver": "7.4"})
        exps.append(exp)
    res = wp.run(tasks)
    for b, t, exp, r in zip(behs, tasks, exps, res):
        check.count()
        check.distinct(t["src"])
        if r.get("panic") or r.get("hang") or r.get("crash"):
            check.violation({"class": "crash", "site": r.get("site")}, {"src": t["src"], "observed": r})
            continue
        if r.get("nerr", 0) > 0:
            raise core.InfraError("rendered resolver program does not parse: %r %r" % (t["src"], r.get("errs")))
        got = {}
        for e in r.get("map") or []:
            got[e["s"]] = e["name"]
        refs = [e for e in b["prog"] if e["t"] == "ref"]
        site = refs[-1]["site"] if refs else "decl"
        form = refs[-1]["form"] if refs else ""
        for off, (name, esite, special) in exp.items():
            if off not in got:
                check.violation({"class": "missing-entry", "site": esite},
                                {"src": t["src"], "offset": off, "expected": name, "map": r.get("map"), "events": b["prog"]})
            elif got[off] != name and not (special and got[off].lower() == name.lower()):
                check.violation({"class": "wrong-name", "site": esite, "form": form},
                                {"src": t["src"], "offset": off, "expected": name, "observed": got[off], "events": b["prog"]})
        for off in got:
            if off not in exp:
                check.violation({"class": "extra-entry", "site": site}, {"src": t["src"], "offset": off, "observed": got[off], "events": b["prog"]})


def run(tier):
    check = core.Check("C14", tier)
    wp = core.WorkerPool(core.build_worker())
    # matrix A (rules): three representative sites (one per kind) x all forms x all names x <= 2 imports x namespaces
    a_sites = ["new", "call", "constfetch"]
    behs = behaviours(check, a_sites, NAMES, ["unq", "qual", "fq", "rel"], 2 if tier == "thorough" else 1, 1, 1, "matrix A: rules")
    run_matrix(check, wp, behs, "A")
    check.cov["matrix_A_files"] = len(behs)
    check.sample({"direction": "spec->impl", "file": render(behs[len(behs) // 2])[0], "expected": behs[len(behs) // 2]["expect"]})
    # matrix B (sites): every site x unqualified/qualified names x one import
    behs = behaviours(check, sorted(SITES), ["A", "a", "X"], ["unq", "qual", "rel"], 1, 1, 1, "matrix B: sites")
    run_matrix(check, wp, behs, "B")
    check.cov["matrix_B_files"] = len(behs)
    check.cov["sites"] = sorted(SITES)
    # matrix C (specials): special names at class / type / const sites
    behs = behaviours(check, ["new", "param_type", "return_type", "prop_type", "constfetch", "static_call", "arrow_param", "call", "call_nested"],
                      ["Self", "INT", "TRUE", "self", "int", "parent", "null", "void", "string", "object"], ["unq"], 1, 1, 1, "matrix C: special names")
    run_matrix(check, wp, behs, "C")
    check.cov["matrix_C_files"] = len(behs)
    # matrix D (sections): two namespace sections, imports must not leak; declarations
    behs = behaviours(check, sorted(SITES), NAMES, ["unq", "qual", "fq", "rel"], 3, 4, 3, "matrix D: long files, several sections (simulated)",
                      simulate=3000 if tier == "quick" else 40000)
    seen = set()
    behs = [b for b in behs if not (json.dumps(b["prog"]) in seen or seen.add(json.dumps(b["prog"])))]
    run_matrix(check, wp, behs, "D")
    check.cov["matrix_D_files"] = len(behs)
    # matrix E (order): imports between references - a name keeps the resolution it had where it stands, an import counts from its
    # own position on (exhaustive for one import among two references; simulated for more)
    behs = behaviours(check, a_sites, ["A", "C"], ["unq", "qual"], 1, 2, 1, "matrix E: imports between references" + (" (simulated)" if tier == "quick" else ""),
                      mixed=True, simulate=30000 if tier == "quick" else None)
    behs += behaviours(check, a_sites + ["param_type", "static_call"], ["A", "a", "C"], ["unq", "qual", "rel"], 3, 5, 2, "matrix E: longer files (simulated)",
                       mixed=True, simulate=4000 if tier == "quick" else 60000)
    seen = set()
    behs = [b for b in behs if not (json.dumps(b["prog"]) in seen or seen.add(json.dumps(b["prog"])))]
    run_matrix(check, wp, behs, "E")
    check.cov["matrix_E_files"] = len(behs)
    # matrix F (name shapes): names that spell an import kind in front of another alias (Functionf next to "use function R\f",
    # constC next to "use const R\C"): the three import tables are separate whatever the names look like
    behs = behaviours(check, a_sites + ["param_type"], ["f", "C", "Functionf", "functionf", "ConstC", "constC"], ["unq", "qual"], 1, 1, 1, "matrix F: kind words inside names")
    run_matrix(check, wp, behs, "F")
    check.cov["matrix_F_files"] = len(behs)
    # matrix G (bytes >= 0x80 in names): PHP folds ASCII letters only; names that differ in a non-ASCII byte are different names,
    # whatever the source encoding (Latin-1: one byte, not valid UTF-8; UTF-8: two bytes)
    behs = behaviours(check, a_sites, ["U1c", "U1C", "u1c", "U2c"], ["unq", "qual"], 1, 1, 1, "matrix G: non-ASCII names")
    run_matrix(check, wp, behs, "G", encodings=("latin1", "utf8"))
    check.cov["matrix_G_files"] = 2 * len(behs)
    check.cov["traces_validated_against_impl"] = check.cov["evaluations"]
    check.assumptions += ["NsResolver.tla: my reading of PHP's name resolution rules; rendering templates per site in vf/c14.py",
                          "special names are compared case-insensitively (the property says 'left unqualified')"]
    return check.finish({"exhaustive": True, "rule": "TLC enumerates every file of the factorised matrices A (rules), B (sites), C (special names), "
                                                     "D (sections/declarations), E (imports between references), F (name shapes); distinct = distinct rendered files"})
