"""C10 - the PHP 5 and PHP 7 grammars agree on the syntax they share.

SyntaxGen.tla derives programs that use only variants marked family "both" in Syntax.tla (the common subset; PHP
7-only syntax and constructs regrouped by uniform variable syntax are excluded by construction); each is parsed
under a 5.x and a 7.x version and the full fingerprints (kinds, nesting, values, tokens with offsets and
free-floating content, positions) must be identical, and both must be the tree Syntax.tla prescribes."""
import random

from . import core, syntax, progs, inputs, c01


def run(tier):
    check = core.Check("C10", tier)
    wp = core.WorkerPool(core.build_worker())
    n = 2500 if tier == "quick" else 20000
    table, behs = syntax.generate(check, "5", num=n, seed=core.seed() + 10, depth=3)
    both = {v["id"] for v in table["variants"] if v["fam"] == "both"}
    layouts = ["none", "random"] if tier == "quick" else ["none", "random", "crlf", "mix", "line"]
    ex = progs.expand_all(table, behs, core.seed(), layouts)
    behs, ex = progs.drop_skipped(behs, ex)
    pairs = [("5.6", "7.4")] if tier == "quick" else [("5.6", "7.4"), ("5.0", "7.0"), ("5.4", "7.3"), ("5.3", "7.2")]
    # + every access chain (variables, fetches, calls, new ...) of the shared syntax with a derivation of <= 6 (thorough 7) choices
    table0, _ = syntax.generate(check, "5", num=1, seed=core.seed(), depth=1)
    tablec, behsc = syntax.generate(check, "5", rootcat="stmt", rootmax=1, depth=4, allowed=progs.chain_set(table0), exhaustive=True,
                                    maxchoices=6 if tier == "quick" else 7, timeout=2400)
    exc = progs.expand_all(tablec, behsc, core.seed(), ["none"])
    behsc, exc = progs.drop_skipped(behsc, exc)
    check.cov["exhaustive_access_chains"] = len(behsc)
    behs, ex = behs + behsc, ex + exc
    # + every constant expression (PHP 5 has a grammar of its own for them) with a derivation of <= 9 choices
    cexpr = sorted(v["id"] for v in table0["variants"] if v["id"].startswith("static/") and v["fam"] == "both") + \
        ["ScalarLnumber", "StmtStatic", "StmtStaticVar/init", "Name", "NamePart"]
    tablek, behsk = syntax.generate(check, "5", rootcat="stmt", rootmax=1, depth=4, allowed=cexpr, exhaustive=True, maxchoices=9, timeout=2400)
    exk = progs.expand_all(tablek, behsk, core.seed(), ["none"])
    behsk, exk = progs.drop_skipped(behsk, exk)
    check.cov["exhaustive_constant_expressions"] = len(behsk)
    behs, ex = behs + behsk, ex + exk
    # + every pair / triple of operators (variables as atoms)
    from . import c03
    opset = [i for i in c03.exprset(table0) if i != "ScalarLnumber"]
    tablep, behsp = syntax.generate(check, "5", rootcat="stmt", rootmax=1, depth=4, allowed=opset, exhaustive=True, maxchoices=7, timeout=2400)
    exp_ = progs.expand_all(tablep, behsp, core.seed(), ["none"])
    behsp, exp_ = progs.drop_skipped(behsp, exp_)
    check.cov["exhaustive_operator_pairs"] = len(behsp)
    behs, ex = behs + behsp, ex + exp_
    tasks, metas = [], []
    for i, (b, e) in enumerate(zip(behs, ex)):
        if not set(e["used"]) <= both:
            continue
        for var in e["variants"]:
            for (v5, v7) in pairs:
                for ver in (v5, v7):
                    tasks.append({"op": "cmp_tree", "src": var["src"], "ver": ver, "exp": var["exp"]})
                    metas.append((i, var["layout"], v5, v7, e["used"]))
    res = wp.run(tasks)
    for k in range(0, len(tasks), 2):
        check.count(2)
        (i, lay, v5, v7, used) = metas[k]
        check.distinct((i, lay, v5, v7))
        r5, r7 = res[k], res[k + 1]
        if any(r.get("panic") or r.get("hang") or r.get("crash") for r in (r5, r7)):
            continue
        if r5.get("nerr", 1) > 0 or r7.get("nerr", 1) > 0:
            continue            # acceptance is C03's business
        if r5["fp"] != r7["fp"]:
            f5 = [f for f in (r5.get("fails") or [])]
            f7 = [f for f in (r7.get("fails") or [])]
            # a deviation from the prescribed tree that both families share does not explain a difference between them
            k5 = {(x.get("c"), x.get("path")) for x in f5}
            k7 = {(x.get("c"), x.get("path")) for x in f7}
            f5 = [x for x in f5 if (x.get("c"), x.get("path")) not in k7] or ([] if f7 else f5)
            f7 = [x for x in f7 if (x.get("c"), x.get("path")) not in k5]
            f = (f5 + f7 + [{}])[0]
            cls = "structure" if r5["sfp"] != r7["sfp"] else "tokens-or-positions"
            check.violation({"class": "families-differ-" + cls, "kind": f.get("kind"), "detail": f.get("c"), "deviates": "5" if f5 else ("7" if f7 else "?"),
                             "slot": progs.slot_of(f["path"]) if f.get("path") else None, "parent": progs.parent_slot(f["path"]) if f.get("path") else None,
                             "classref_chain": ".Class" in (f.get("path") or "") and any("/classref" in u for u in used),
                             "family": "empty-heredoc-flex" if (f.get("kind") == "ScalarHeredoc" and
                                                                  c01.family(tasks[k]["src"].encode("latin-1"), v7) == "empty-heredoc-flex") else "other"},
                            {"src": tasks[k]["src"], "versions": [v5, v7], "php5_vs_spec": f5[:3], "php7_vs_spec": f7[:3], "variants": used})
    # corpus snippets that are clean under both
    cs = [c["src"] for c in inputs.corpus()]
    tasks = [{"op": "analyze", "src": s, "ver": v} for s in cs for v in ("5.6", "7.4")]
    res = wp.run(tasks)
    for k in range(0, len(tasks), 2):
        r5, r7 = res[k], res[k + 1]
        if any(r.get("panic") or r.get("hang") or r.get("crash") or r.get("nerr", 1) > 0 or not r.get("root") for r in (r5, r7)):
            continue
        check.count(2)
        # corpus snippets may use regrouped constructs; they are compared only for statistics
        if r5["fp"] != r7["fp"]:
            check.cov["corpus_snippets_differing"] = check.cov.get("corpus_snippets_differing", 0) + 1
    # the obligation LRValues.tla puts on grammar actions (every empty / error production whose value is read assigns $$): a stale
    # value there puts a node of an EARLIER construct into the tree (foreign text, a node reachable twice, PHP 5 != PHP 7)
    from . import yaccobl
    for fam_ in ("7", "5"):
        for sig_, rep_ in yaccobl.check_family(check, fam_):
            check.violation(sig_, rep_)
    check.cov["traces_validated_against_impl"] = check.cov["evaluations"]
    check.sample({"direction": "spec->impl", "src": tasks[0]["src"]})
    check.assumptions += ["family marks in Syntax.tla ('both' = shared syntax with the same meaning)"]
    return check.finish({"rule": "SyntaxGen derivations restricted to family 'both' x layouts x version pairs; distinct = (derivation, layout, pair)"})
