"""C11 - concurrent use on different inputs is safe and deterministic.

Interleave.tla states that the pipelines share no variable (Ownership) and TLC enumerates every interleaving of the
gate points of N workers; each schedule is replayed on the real code: workers run on their own goroutines and
block in the verif hook inside Parser.Lex (or in a gating io.Writer under the printer) until the schedule lets
them pass; every worker's outputs (tree fingerprint, errors, printed text, dump, resolved names) must equal its solo
outputs.  Then the same pipelines run un-gated on 16 goroutines, built with the race detector; any reported data
race, panic or deviation from the sequential result is a violation; parsing an input twice must give equal results."""
import json
import os
import random

from . import core, inputs, syntax, progs, c14, cli, clispec


def schedules(check, n, k):
    cfg = "SPECIFICATION ISpec\nCONSTANTS N = %d K = %d\nINVARIANTS Ownership Bounded\nCHECK_DEADLOCK FALSE\n" % (n, k)
    r = core.tlc("Interleave", cfg)
    check.add_tlc("Interleave(N=%d,K=%d)" % (n, k), r)
    out = sorted({tuple(o["sched"]) for o in r.out if isinstance(o, dict) and "sched" in o})
    return [list(s) for s in out]


def race_site(stderr):
    for line in (stderr or "").splitlines():
        line = line.strip()
        if line.startswith("github.com/z7zmey/php-parser/") and "verifshim" not in line:
            return line.split("(")[0].replace("github.com/z7zmey/php-parser/", "")
    return "unknown"


def run(tier):
    check = core.Check("C11", tier)
    rng = random.Random(core.seed())
    env = dict(os.environ)
    env["GORACE"] = "halt_on_error=1 exitcode=66"
    wp = core.WorkerPool(core.build_worker(race=True), n=4, env=env, chunk=8, idle_timeout=120)
    progs_ = inputs.clean_programs(tier)
    big = sorted(progs_, key=lambda p: -len(p["src"]))[:40]
    table, behs = syntax.generate(check, "7", num=300, seed=core.seed() + 11, depth=3)
    ex = progs.expand_all(table, behs, core.seed(), ["random"])
    behs, ex = progs.drop_skipped(behs, ex)
    gen = [{"src": e["variants"][0]["src"], "ver": "7.4"} for e in ex]
    pool_in = big + gen[:60] + [{"src": s, "ver": "7.4"} for s in c14.sample_sources(check, tier, 60)]
    pool_in += [p for p in inputs.long_token_programs() if len(p["src"]) < 40000]        # tokens longer than the usual line / buffer sizes
    # (1) gated interleavings
    confs = [(2, 3), (3, 2)] if tier == "quick" else [(2, 4), (3, 3), (2, 3), (3, 2)]
    tasks = []
    for n, k in confs:
        scheds = schedules(check, n, k)
        if tier == "quick" and len(scheds) > 60:
            scheds = rng.sample(scheds, 60)
        elif len(scheds) > 600:
            scheds = rng.sample(scheds, 600)
        for s in scheds:
            for kind in ("lex", "write"):
                ws = rng.sample(pool_in, n)
                tasks.append({"op": "interleave", "workers": ws, "sched": s, "k": k, "kind": kind, "limit_ms": 30000})
    res = wp.run(tasks)
    for t, r in zip(tasks, res):
        check.count()
        check.distinct((tuple(t["sched"]), t["kind"], len(t["workers"])))
        if r.get("crash") and (r.get("exit") == 66 or "DATA RACE" in (r.get("stderr") or "")):
            check.violation({"class": "data-race", "site": race_site(r.get("stderr"))}, {"task": t, "stderr": r.get("stderr")})
        elif r.get("panic") or r.get("hang") or r.get("crash"):
            check.violation({"class": "crash-under-interleaving", "site": r.get("site")}, {"task": t, "observed": r})
        elif r.get("bad"):
            check.violation({"class": "result-differs-from-solo", "what": r["bad"][0]["what"], "gate": t["kind"]},
                            {"sched": t["sched"], "kind": t["kind"], "workers": t["workers"], "observed": r["bad"]})
    check.cov["schedules_replayed"] = len(tasks)
    check.sample({"direction": "spec->impl", "schedule": tasks[0]["sched"], "gate": tasks[0]["kind"], "workers": [w["src"][:60] for w in tasks[0]["workers"]]})
    # (2) un-gated stress under the race detector
    rounds = 2 if tier == "quick" else 25
    st = [{"op": "stress", "inputs": rng.sample(pool_in, min(len(pool_in), 60)), "goroutines": 16, "rounds": rounds, "limit_ms": 600000}
          for _ in range(2 if tier == "quick" else 8)]
    wp1 = core.WorkerPool(core.build_worker(race=True), n=1, env=env, chunk=1, idle_timeout=900)
    for t, r in zip(st, wp1.run(st)):
        check.count(r.get("pipelines", 1))
        if r.get("crash") and (r.get("exit") == 66 or "DATA RACE" in (r.get("stderr") or "")):
            check.violation({"class": "data-race", "site": race_site(r.get("stderr"))}, {"stderr": r.get("stderr")})
        elif r.get("panic") or r.get("hang") or r.get("crash"):
            check.violation({"class": "crash-under-concurrency", "site": r.get("site")}, {"observed": r})
        elif r.get("bad"):
            check.violation({"class": "concurrent-result-differs", "what": r["bad"][0]["what"]}, {"observed": r["bad"]})
    # (2a) cold start: in a FRESH process the very first use of the library is concurrent (16 pipelines released at once; resolver-heavy
    # files with reserved words, special names, imports); only afterwards the sequential results are computed and compared.  Tables
    # built lazily on first use without synchronisation show here and nowhere else.
    cold_in = [{"src": s, "ver": "7.4"} for s in c14.sample_sources(check, tier, 200)] + \
              [{"src": "<?php namespace App%d; function f%d(int $a, ?string $b, self $c): void { return null; } class C%d { public function m(object $o, iterable $i): bool { return true || false; } }" % (k, k, k),
                "ver": "7.4"} for k in range(40)] + gen[:40]
    ct = [{"op": "cold_start", "inputs": rng.sample(cold_in, 16), "limit_ms": 60000} for _ in range(24 if tier == "quick" else 200)]
    wpf = core.WorkerPool(core.build_worker(race=True), n=4, env=env, chunk=1, idle_timeout=120, fresh=True)
    for t, r in zip(ct, wpf.run(ct)):
        check.count(r.get("pipelines", 1))
        if r.get("crash") and (r.get("exit") == 66 or "DATA RACE" in (r.get("stderr") or "")):
            check.violation({"class": "data-race", "site": race_site(r.get("stderr"))}, {"stderr": r.get("stderr"), "phase": "cold start"})
        elif r.get("panic") or r.get("hang") or r.get("crash"):
            check.violation({"class": "crash-under-concurrency", "site": r.get("site")}, {"observed": r, "phase": "cold start"})
        elif r.get("bad"):
            check.violation({"class": "concurrent-result-differs", "what": r["bad"][0]["what"]}, {"observed": r["bad"], "phase": "cold start"})
    check.cov["cold_start_processes"] = len(ct)
    # (2b) sequential histories: parsing the same input again, after other inputs, gives the identical tree, and the first tree is untouched
    wps = core.WorkerPool(core.build_worker())
    for t, r in progs.retain_results(check, wps, inputs.programs(check, tier), core.seed() + 11, 150 if tier == "quick" else 2000):
        if r.get("changed"):
            check.violation({"class": "result-depends-on-earlier-parses", "what": r.get("changed"), "part": r.get("part")},
                            {"task": {"src": t["src"], "ver": t["ver"], "others": len(t["others"])}, "observed": r})
    # (3) the pipelines in their real packaging: cmd/php-parser (GOMAXPROCS parser workers, one printer goroutine, channels), built
    # with the race detector; every file's dump, errors and printed text must be those of the library run on that file alone
    files = [p["src"] for p in pool_in if p["ver"] == "7.4"]
    files += ["<?php $a = ; $b = %d;\n" % i for i in range(20)] + ["<?php function f%d( { }\n" % i for i in range(20)] + ["<?php if (%d" % i for i in range(5)]
    files += cli.big_sources([g["src"] for g in gen])
    rng.shuffle(files)
    wpc = core.WorkerPool(core.build_worker())
    for rnd in range(1 if tier == "quick" else 5):
        for sig, rep in cli.check_cli(check, wpc, files, "7.4", [["-d", "-p", "-e"], ["-pb"]], procs_list=(2, 16), race=True):
            check.violation(sig, rep)
    # (4) the tool as a concurrent system: Cli.tla model-checked (invariants, termination, anti-vacuity deviations); its behaviours
    # forced on the real binary through the gates of the hook file (spec -> impl); free-running traced runs linearised by
    # CliTrace.tla with the addresses of the per-file objects as arguments (impl -> spec)
    clispec.model_check(check, tier)
    for sig, rep in clispec.check_pipeline(check, wpc, files, "7.4", tier, rng):
        check.violation(sig, rep)
    check.cov["traces_validated_against_impl"] += len(tasks)
    check.assumptions += ["Go race detector (worker built with -race, GORACE=halt_on_error=1)", "gate points: verif hook in Parser.Lex, gating writer under the printer",
                          "schedules are sampled when there are more than the tier's cap"]
    return check.finish({"exhaustive": tier == "thorough" and False,
                         "rule": "all interleavings of Interleave.tla for the (N,K) configurations (sampled above the cap) x {lex, write} gates; "
                                 "un-gated stress on 16 goroutines under -race; distinct = (schedule, gate kind, N)"})
