"""Runs Lexer.tla (transition cover: one behaviour per transition of the abstract scanner machine, with a shortest
path to its source state) and concretises the behaviours with the lexicon."""
import json
import random

from . import core, lexicon

CFG = ("SPECIFICATION Spec\nCONSTANTS MaxAtoms = %d MaxStack = %d Flex = %s Small = %s LocalMax = %d\n%s"
       "INVARIANTS TypeOK StackDiscipline\nPROPERTIES Progress TriviaTransparent Consistent\nCHECK_DEADLOCK FALSE\n")


def behaviours(check, flex, small, maxatoms=8, maxstack=2, cover=True, timeout=1500, localmax=0):
    cfg = CFG % (maxatoms, maxstack, "TRUE" if flex else "FALSE", "TRUE" if small else "FALSE", localmax, "VIEW view\n" if cover else "")
    r = core.tlc("Lexer", cfg, timeout=timeout, heap="8g", workers=1 if cover else None)
    check.add_tlc("Lexer(flex=%s,small=%s,maxatoms=%d,maxstack=%d,%s)" % (flex, small, maxatoms, maxstack, ("transition-cover" if cover else "all-paths") + (", local paths <= %d" % localmax if localmax else "")), r)
    out = [o for o in r.out if isinstance(o, dict) and "path" in o]
    out.sort(key=lambda o: json.dumps(o["path"]))      # TLC's worker threads print in any order
    return out


def cases(check, tier, rng, flex_values=(True, False)):
    out = []
    dropped = 0
    for flex in flex_values:
        behs = behaviours(check, flex, small=(tier == "quick"))
        for b in behs:
            for rep in range(1 if tier == "quick" else 2):
                c = lexicon.concretise(b, rng)
                if c is None:
                    dropped += 1
                    continue
                src, exp, nerr = c
                out.append({"path": b["path"], "src": src, "exp": exp, "nerr": nerr, "exact": b["exact"],
                            "mode": b["mode"], "stack": b["stack"], "flex": flex})
    # inline HTML in front of the first open tag is a behaviour of Lexer.tla (HTML_TEXT, then OPEN_*); the cover reaches most states
    # without it, so every eighth case also gets the shortest such text there is in practice: a UTF-8 byte order mark
    bom = b"\xef\xbb\xbf"
    extra = []
    for k, c in enumerate(out):
        if k % 8 == 0 and c["path"] and c["path"][0].startswith("OPEN_"):
            extra.append(dict(c, path=["HTML_TEXT"] + c["path"], src=bom + c["src"],
                              exp=[("T_INLINE_HTML", 0, 3, False)] + [(t[0], t[1] + 3, t[2] + 3, t[3]) for t in c["exp"]]))
    out += extra
    # every sequence of three atoms inside the index of "$a[...]" (Lexer.tla with LocalMax = 2: the index sub-mode's states are
    # split by the atoms consumed there), left open and closed
    loc = [b for b in behaviours(check, True, True, localmax=2 if tier == "quick" else 3)
           if sum(1 for a in b["path"] if a.startswith("IDX")) >= 2]
    nloc = 0
    for b in loc:
        c = lexicon.concretise(b, rng)
        if c is None:
            dropped += 1
            continue
        src, exp, nerr = c
        nloc += 1
        out.append({"path": b["path"], "src": src, "exp": exp, "nerr": nerr, "exact": False, "mode": b["mode"], "stack": b["stack"], "flex": True})
        if b["mode"] == "string_var_index":
            closer = {"BACKTICK": b"`", "DQUOTE": b'"'}.get(next((a for a in b["path"] if a in ("BACKTICK", "DQUOTE")), None), b"\nA\n")
            out.append({"path": b["path"] + ["IDX_RBRACKET", "..."], "src": src + b"]" + closer + b";", "exp": exp, "nerr": nerr, "exact": False,
                        "mode": "php", "stack": [], "flex": True})
    check.cov["lexer_index_paths"] = nloc
    check.cov["lexer_behaviours_dropped_by_fuses_filter"] = dropped
    return out


def flatten(evs):
    flat = []
    for ev in evs:
        for f in ev.get("ff") or []:
            flat.append((f["id"], f["s"], f["e"], True))
        if ev["id"] != "ID(0)":
            flat.append((ev["id"], ev["s"], ev["e"], False))
    return flat
