"""C05 - node positions span exactly the node's own tokens and nest properly.

Syntax.tla gives every node of a generated program its first and last token (its yield) with the documented
conventions (root without trailing trivia, trait adaptation without ';', position-less empty slots, -1 at an empty
statement-list boundary); the expectation is compared with the real tree (spec -> impl).  Every tree parsed without
errors is additionally checked structurally by the worker (span = extent of the subtree's tokens, children within
parents, siblings ordered, lines = lines of the offsets)."""
import random

from . import core, syntax, progs, lexgen, inputs, posbuild


def run(tier):
    check = core.Check("C05", tier)
    rng = random.Random(core.seed())
    wp = core.WorkerPool(core.build_worker())
    n = 1500 if tier == "quick" else 12000
    for family in ("7", "5"):
        table, behs = syntax.generate(check, family, num=n, seed=core.seed() + 5, depth=3)
        res = progs.run_programs(check, wp, family, behs, table, core.seed(), ["none", "crlf", "random"], progs.VERS[family][:2])
        res += progs.halt_programs(check, wp, family, core.seed(), ["none", "crlf", "lf"], progs.VERS[family][:2], num=40 if tier == "quick" else 300)
        res += progs.chain_programs(check, wp, family, core.seed(), ["none"], progs.VERS[family][:1], 6,
                                    fams=("both", "7", "7g") if family == "7" else ("both", "5"))
        for m, t, r in res:
            check.count()
            check.distinct((family, m["i"], m["layout"], m["ver"]))
            if r.get("panic") or r.get("hang") or r.get("crash") or r.get("nerr", 1) > 0:
                continue
            for f in r.get("fails") or []:
                if f["c"] in progs.SPAN:
                    check.violation({"class": f["c"], "kind": f.get("kind"), "slot": progs.slot_of(f["path"]), "family": family,
                                     "classref_chain": ".Class" in f["path"] and any("/classref" in u for u in m["used"])},
                                    {"src": t["src"], "ver": m["ver"], "fail": f, "variants": m["used"]})
        if family == "7":
            s = res[len(res) // 2]
            check.sample({"direction": "spec->impl", "src": s[1]["src"], "expected_root_span": [s[1]["exp"]["s"], s[1]["exp"]["e"]]})
    # structural check on every error-free tree
    srcs = [p["src"] for p in inputs.clean_programs(tier)] + [c["src"].decode("latin-1") for c in lexgen.cases(check, tier, rng)]
    srcs += [s.replace("\n", "\r\n") for s in srcs[:400]] + [s.replace("\n", "\r") for s in srcs[:200]]
    # every (type, &, ..., default) shape of a parameter in every kind of signature; long lists, constructs nested in themselves
    sigs = inputs.signature_programs()
    srcs = list(dict.fromkeys(srcs))
    # sources with tens of thousands of nodes: their positions come out of 1024-entry pool blocks
    scaled = progs.scaled_sources(check, "5", core.seed(), 700 if tier == "quick" else 4000, (300,))
    check.cov["scaled_sources_bytes"] = [len(x) for x in scaled]
    tasks = [{"op": "analyze", "src": s, "ver": v, "limit_ms": 2000 + len(s) // 10} for s in srcs + scaled for v in ("7.4", "5.6")]
    tasks += [{"op": "analyze", "src": p["src"], "ver": p["ver"], "limit_ms": 4000} for p in sigs]
    tasks += [{"op": "analyze", "src": p["src"], "ver": p["ver"], "limit_ms": 6000 + len(p["src"]) // 10} for p in inputs.long_token_programs()]
    tasks += [{"op": "analyze", "src": p["src"], "ver": p["ver"], "limit_ms": 4000 + len(p["src"]) // 10} for p in inputs.programs(check, tier) if "used" in p]
    ntrees = 0
    for t, r in zip(tasks, wp.run(tasks)):
        check.count()
        if r.get("panic") or r.get("hang") or r.get("crash") or r.get("nerr", 1) > 0 or not r.get("root"):
            continue
        ntrees += 1
        check.distinct(("tree", t["src"], t["ver"]))
        for f in r.get("fails") or []:
            if f["c"].startswith("C05."):
                check.violation({"class": f["c"], "kind": f.get("kind"), "side": f.get("side"), "observed": f.get("observed"),
                                 "parent": f.get("parent"), "family": t["ver"][0]},
                                {"src": t["src"], "ver": t["ver"], "fail": f})
    # positions of an earlier tree survive later parses
    for t, r in progs.retain_results(check, wp, inputs.programs(check, tier), core.seed() + 5, 150 if tier == "quick" else 2000):
        if r.get("changed") == "tree-of-an-earlier-parse-changed" and r.get("part") == "positions":
            check.violation({"class": "positions-of-an-earlier-tree-changed", "kind": None, "family": t["ver"][0]},
                            {"task": {"src": t["src"], "ver": t["ver"], "others": len(t["others"])}, "observed": r})
    # the span combinators themselves: Position.tla's case analysis (every combinator x argument shape) on the real Builder
    for sig, rep in posbuild.run(check, wp, tier):
        check.violation(sig, rep)
    check.cov["error_free_trees_checked"] = ntrees
    check.cov["traces_validated_against_impl"] = check.cov["evaluations"]
    check.assumptions += ["Position.tla: the combinators are read off their names (first argument's start .. last argument's end)", "span rule with the four documented conventions (vf/syntax.py _span, analyze.go checkSpans)",
                          "the -1 convention is also applied to the empty catch list of a catch-less try (not a valid program)"]
    return check.finish({"rule": "SyntaxGen derivations x 3 layouts x 2 versions per family (expected spans); structural span check on "
                                 "corpus, Lexer.tla cases and their CRLF/CR renderings"})
