"""C04 - tokens carry exact source text, offsets and lines, and tile the source.

(1) spec -> impl: every behaviour of Lexer.tla's transition cover whose token stream is fully prescribed is
    concretised and lexed by the real scanner; token extents, free-floating classification and attachment order
    must be exactly the prescribed ones.
(2) impl -> spec: scanner traces of generated, corpus and random inputs are validated by TLC against
    LexerTrace.tla (Tiling: contiguous tokens, a byte skipped only under a reported warning; Progress: no empty
    token; mode/stack relation LexTok).  Only Tiling/Progress rejections re-derived from the raw events are verdicts.
(3) every tree returned for these inputs is checked token by token by the worker (value = source slice, lines by the
    LF/CRLF/CR rule, order, disjointness; with zero errors: full tiling, free-floating classes, leaf values).
(4) NewLines.tla (line table fed by the new_line action, head set-backs, GetLine): TLC checks Sorted / Exact /
    LinesRight / CrLfOnce; every behaviour is replayed on the real scanner.NewLines, and every string over
    {LF, CR, other} up to the bound is lexed in 17 lexical contexts: recorded line starts and token lines must be
    those of the bytes."""
import json
import random

from . import core, inputs, lexgen, lextrace, c01, newlines, progs


def rederive(events, at_index):
    """Independent check of the tiling/progress facts around a rejected event."""
    prev = 0
    skipped = 0
    for i, e in enumerate(events):
        if e["k"] == "reset":
            prev, skipped = 0, 0
            continue
        if e["k"] == "eof":
            continue
        if e["e"] <= e["s"]:
            if i == at_index:
                return "empty-token"
        if e["s"] < prev and i == at_index:
            return "overlap"
        skipped += max(0, e["s"] - prev)
        if skipped > e["nerr"] and i == at_index:
            return "gap-without-warning"
        prev = max(prev, e["e"])
    return None


def run(tier):
    check = core.Check("C04", tier)
    rng = random.Random(core.seed())
    wp = core.WorkerPool(core.build_worker())
    lc = lexgen.cases(check, tier, rng)
    # (1) + (2) on the generated cases
    res = wp.run([{"op": "lex", "src": c["src"].decode("latin-1"), "ver": "7.4" if c["flex"] else "7.2"} for c in lc])
    traces = []
    nexact = 0
    for c, r in zip(lc, res):
        check.count()
        if r.get("panic") or r.get("hang") or r.get("crash") or r.get("no_progress"):
            continue          # C01's business
        check.distinct(c["src"])
        traces.append(({"src": c["src"], "flex": c["flex"], "path": c["path"]}, lextrace.flatten(c["src"], r["evs"], c["flex"])))
        if not c["exact"]:
            continue
        nexact += 1
        got = lexgen.flatten(r["evs"])
        exp = [tuple(t) for t in c["exp"]]
        if got != exp:
            ge = [(s, e, ff) for (_, s, e, ff) in got]
            ee = [(s, e, ff) for (_, s, e, ff) in exp]
            if ge != ee:
                # first differing token
                k = 0
                while k < len(ge) and k < len(ee) and ge[k] == ee[k]:
                    k += 1
                atom = c["path"][min(len(c["path"]) - 1, max(0, k - 1))]
                wanted = exp[k] if k < len(exp) else None
                observed = got[k] if k < len(got) else None
                cls = "extent"
                if wanted and observed and wanted[1:3] == observed[1:3]:
                    cls = "free-floating-attachment"
                fam = c01.family(c["src"], "7.4" if c["flex"] else "7.2")
                check.violation({"class": "stream-" + cls, "token": (wanted or observed)[0], "family": fam},
                                {"path": c["path"], "src": c["src"].decode("latin-1"), "flex": c["flex"],
                                 "expected": exp, "observed": got})
    check.cov["exact_streams_compared"] = nexact
    # more traces: corpus programs and random inputs
    extra = [c["src"].encode("latin-1") for c in inputs.corpus()] + c01.random_inputs(rng, 2000 if tier == "quick" else 30000, 14)
    for ver, flex in (("7.4", True), ("5.6", False)):
        res = wp.run([{"op": "lex", "src": s.decode("latin-1"), "ver": ver} for s in extra])
        for s, r in zip(extra, res):
            check.count()
            if r.get("panic") or r.get("hang") or r.get("crash") or r.get("no_progress"):
                continue
            traces.append(({"src": s, "flex": flex}, lextrace.flatten(s, r["evs"], flex)))
    rej = lextrace.validate_all(traces, check, "scanner traces")
    check.cov["traces_validated_against_impl"] = len(traces)
    check.cov["trace_events"] = sum(len(t[1]) for t in traces)
    for meta, ev, ctx in rej:
        evs = [t[1] for t in traces if t[0] is meta][0]
        cls = rederive(evs, evs.index(ev))
        fam = c01.family(meta["src"], "7.4" if meta["flex"] else "7.2")
        if cls is None:
            check.note("scanner trace leaves the mode relation LexTok at %s for input %r (not a tiling problem; reported only)"
                       % (json.dumps(ev), meta["src"][:80]))
            continue
        check.violation({"class": "trace-" + cls, "family": fam},
                        {"src": meta["src"].decode("latin-1"), "flex": meta["flex"], "rejected_event": ev, "context": ctx})
    # binding self-test: a corrupted trace must be rejected
    if traces:
        good = [t for t in traces if len([e for e in t[1] if e["k"] == "tok"]) > 3 and all(e["nerr"] == 0 for e in t[1])
                and any(e["id"] in ("T_STRING", "T_VARIABLE", "T_LNUMBER", "CH:,", "CH:=") for e in t[1])][:1]
        for what in ("shift", "drop", "mode"):
            evs = [dict(e) for e in good[0][1]]
            toks = [i for i, e in enumerate(evs) if e["k"] == "tok"]
            if what == "shift":
                evs[toks[1]]["s"] += 1
            elif what == "drop":
                del evs[toks[1]]
            else:
                plain = [i for i in toks if evs[i]["id"] in ("T_STRING", "T_VARIABLE", "T_LNUMBER", "CH:,", "CH:=")]
                if not plain:
                    continue
                evs[plain[0]]["m1"] = "html"
            ok, at = lextrace.validate(evs, check, "selftest-" + what)
            if ok:
                raise core.InfraError("binding self-test failed: corrupted scanner trace (%s) accepted" % what)
        check.cov["binding_selftest"] = "3 corrupted traces rejected"
    # (3) token facts on returned trees
    srcs = list(dict.fromkeys([c["src"] for c in lc] + extra))
    for p in inputs.programs(check, tier):
        srcs.append(p["src"].encode("latin-1"))
    # CR / CRLF renderings of the corpus (line rule)
    for c in inputs.corpus()[:: (4 if tier == "quick" else 1)]:
        b = c["src"].encode("latin-1")
        srcs.append(b.replace(b"\n", b"\r\n"))
    for fam_ in ("7", "5"):
        srcs += progs.token_mutations(check, fam_, core.seed(), 150 if tier == "quick" else 2000)
    srcs = list(dict.fromkeys(srcs))
    # sources of tens of thousands of tokens: every token and position lives in 1024-entry pool blocks
    scaled = progs.scaled_sources(check, "5", core.seed(), 700 if tier == "quick" else 4000, (300,))
    check.cov["scaled_sources_bytes"] = [len(x) for x in scaled]
    srcs += [x.encode("latin-1") for x in scaled]
    tasks = []
    for i, s in enumerate(srcs):
        for ver in (("7.4", "5.6") if i % 3 == 0 or tier == "thorough" else (("7.4",) if i % 3 == 1 else ("5.6",))):
            tasks.append({"op": "analyze", "src": s.decode("latin-1"), "ver": ver, "limit_ms": 2000 + len(s) // 10})
    for x in scaled:
        tasks.append({"op": "analyze", "src": x, "ver": "7.4", "limit_ms": 60000})
        tasks.append({"op": "analyze", "src": x, "ver": "5.6", "limit_ms": 60000})
    res = wp.run(tasks)
    ntrees = 0
    for t, r in zip(tasks, res):
        check.count()
        if r.get("panic") or r.get("hang") or r.get("crash") or not r.get("root"):
            continue
        ntrees += 1
        if len(t["src"]) > 50000:
            check.cov.setdefault("scaled_token_counts", []).append(r.get("ntok"))
        src = t["src"].encode("latin-1")
        for f in r.get("fails") or []:
            if f["c"].startswith("C04."):
                check.violation({"class": f["c"], "owner": f.get("owner") or f.get("kind"), "field": f.get("field"),
                                 "family": c01.family(src, t["ver"])},
                                {"src": t["src"], "ver": t["ver"], "fail": f})
    check.cov["trees_checked"] = ntrees
    # tokens of an earlier tree survive later parses
    for t, r in progs.retain_results(check, wp, inputs.programs(check, tier), core.seed() + 4, 150 if tier == "quick" else 2000):
        if r.get("changed") == "tree-of-an-earlier-parse-changed" and r.get("part") in ("tokens", "structure-or-values"):
            check.violation({"class": "tokens-of-an-earlier-tree-changed", "part": r.get("part")},
                            {"task": {"src": t["src"], "ver": t["ver"], "others": len(t["others"])}, "observed": r})
        elif r.get("changed") == "source-buffer-changed":
            check.violation({"class": "source-buffer-changed"}, {"task": {"src": t["src"], "ver": t["ver"]}, "observed": r})
    # (4) the line table (NewLines.tla): Append/GetLine behaviours replayed, and every LF/CR/other string in every
    # lexical context of the real scanner
    mn, mb = (5, 2) if tier == "quick" else (7, 2)
    behs = newlines.behaviours(check, mn, mb)
    check.count(len(behs))
    check.cov["line_table_behaviours"] = len(behs)
    for sig, rep in newlines.replay(check, wp, behs) + newlines.contexts(check, wp, mn if tier == "quick" else 6):
        check.violation(sig, rep)
    check.sample({"direction": "spec->impl", "path": lc[len(lc) // 2]["path"], "src": lc[len(lc) // 2]["src"].decode("latin-1"),
                  "expected_tokens": lc[len(lc) // 2]["exp"][:8]})
    check.sample({"direction": "impl->spec", "trace_head": traces[0][1][:6]})
    check.assumptions += ["lexicon spellings and the conservative Fuses filter (vf/lexicon.py)",
                          "line rule implemented independently in the worker (LF, CRLF, lone CR end a line)"]
    return check.finish({"rule": "Lexer.tla transition cover (both flex settings) concretised; traces of generated + corpus + random "
                                 "inputs; trees of all these inputs + CRLF renderings; distinct = distinct byte strings"})
