"""Interpreter of Syntax.tla's exported table: expands a derivation (the behaviour payload of SyntaxGen.tla) into
tokens, the expected tree and the gap list; renders it under a trivia layout; produces the expectation the worker
compares the real parser's tree with.  The grammar knowledge lives in Syntax.tla; this file only interprets it."""
import json
import os
import re

from . import core

WORD = re.compile(rb"[A-Za-z0-9_\x80-\xff]")
SAFE = set(b";,()[]{}")
SYMBOLIC = {"VAR", "IDENT", "LNUM", "DNUM", "SQSTR", "DQSTR", "MAGIC", "EXIT", "STRPART", "HTML", "NUMSTR", "HEREDOC_START", "HEREDOC_START_DQ", "NOWDOC_START", "HEREDOC_END", "HDTEXT", "HDTEXT_INDENT"}
CASTS = {"array": ["(array)", "( array )", "(ARRAY)"], "bool": ["(bool)", "(boolean)", "(Bool)"], "double": ["(double)", "(float)", "(real)", "( FLOAT )"],
         "int": ["(int)", "(integer)", "(\tint )"], "object": ["(object)", "(OBJECT)"], "string": ["(string)", "(binary)", "(String)"], "unset": ["(unset)"]}
MAGICS = ["__LINE__", "__FILE__", "__DIR__", "__CLASS__", "__FUNCTION__", "__METHOD__", "__NAMESPACE__", "__TRAIT__", "__line__"]

_schema = None


def schema():
    global _schema
    if _schema is None:
        _schema = json.load(open(os.path.join(core.SPEC, "nodeschema.json")))
        _schema["SEQ"] = [["A", "node"], ["B", "node"]]
    return _schema


class Tok:
    __slots__ = ("lex", "text", "glue", "idx", "s", "e", "ff")

    def __init__(self, lex, text, glue, idx):
        self.lex, self.text, self.glue, self.idx = lex, text, glue, idx
        self.s = self.e = -1
        self.ff = []


class Skip(Exception):
    """the derivation runs into a scanner-level fusion that the table cannot express (it is dropped, not judged)"""


class Program:
    def __init__(self, table, beh, rng, keyword_case=True):
        self.variants = table["variants"]
        self.rootfill = table["root"]
        self.family = beh.get("family", "7")
        self.rng = rng
        self.kwcase = keyword_case
        self.toks = []
        self.labels = []
        self.counter = 0
        self.nlsalt = rng.randrange(3)
        self.used = []           # variant ids used
        ch = iter(beh["choices"])
        first = next(ch)
        self.root = self._build("Root", self.rootfill, iter(first[1]), ch)
        self.eof = Tok("EOF", b"", "", len(self.toks))
        # the scanner reads  ';' white-space* '?>'  as ONE token: a close tag right after a ';' cannot be a statement of its own
        for i, t in enumerate(self.toks):
            if t.lex in ("?>", "?>NL") and i > 0 and self.toks[i - 1].text == b";":
                raise Skip()
            # "{" opens an interpolated expression only when a "$" follows it at once ("{$a->b}", not "{A::$b}")
            if t.lex == "{" and t.glue == "LR" and i + 1 < len(self.toks) and not self.toks[i + 1].text.startswith(b"$"):
                raise Skip()

    # ---- spelling
    def _spell(self, lex):
        self.counter += 1
        k = self.counter
        r = self.rng
        if lex == "VAR":
            return "$v%d" % k
        if lex == "IDENT":
            return r.choice(["id%d", "Id%d", "x_%d", "Foo%d"]) % k
        if lex == "LNUM":
            return r.choice([str(k), str(k), "0x%X" % k, "0%o" % k, "0b" + bin(k)[2:], "1_%03d" % k if self.family == "7" else str(k)])
        if lex == "DNUM":
            return r.choice(["%d.5", "%d.0e1", ".%d"]) % k
        if lex == "SQSTR":
            return "'s%d'" % k
        if lex == "DQSTR":
            return '"d%d"' % k
        if lex == "MAGIC":
            return r.choice(MAGICS)
        if lex == "EXIT":
            return r.choice(["exit", "die", "EXIT"])
        if lex == "STRPART":
            return " t%d " % k
        if lex == "HTML":
            return "<b>h%d</b>\n" % k
        if lex == "NUMSTR":
            return str(k)
        if lex == "NUMSTR_HEX":
            return r.choice(["0x%X", "0x%x"]) % (k + 10)      # "0X.." is valid PHP but rejected by the scanner: see C03's literal table
        if lex == "NUMSTR_BIN":
            return "0b" + bin(k)[2:]
        if lex == "?>NL":
            return "?>\n"
        if lex == "IDENT_RES":
            return r.choice(RESERVED_NAMES)
        if lex == "IDENT_RES_NM":          # reserved words that are no member modifiers ("x as final" changes the visibility instead)
            return r.choice([w for w in RESERVED_NAMES if w.lower() not in ("public", "protected", "private", "static", "abstract", "final", "var")])
        if lex == "IDXKEY":
            return r.choice(["key%d", "K_%d", "x%d"]) % k
        if lex in ("HEREDOC_START", "HEREDOC_START_DQ", "NOWDOC_START"):
            lbl = r.choice(["EOT", "A", "Lbl_"]) + str(k)
            self.labels.append(lbl)
            q = {"HEREDOC_START": "", "HEREDOC_START_DQ": '"', "NOWDOC_START": "'"}[lex]
            return r.choice(["<<<", "<<< ", "b<<<"] if lex != "HEREDOC_START_DQ" else ["<<<"]) + q + lbl + q + r.choice(["\n", "\r\n"])
        if lex == "HEREDOC_END":
            return self.labels.pop()
        if lex == "HDLABEL_NAME":          # a name spelled like the label of the heredoc it stands in
            return self.labels[-1] if self.labels else "EOT"
        if lex == "HDTEXT":
            lbl = self.labels[-1] if self.labels else "EOT"
            # (a line that starts with the label followed by a name byte does not end the body, in any version)
            return r.choice([" text %d\n", " a {b} $ %d\r\n", "\n l%d\n", " t%d\n" + lbl + "9 x\n", " u%d\n" + lbl + "_a;\n"]) % k
        if lex == "NDTEXT":
            lbl = self.labels[-1] if self.labels else "EOT"
            # a nowdoc body is raw text: nothing in it is interpolated
            return r.choice([" raw $v%d {$w} ${x}\n", " $a[%d] $b->c \\n\n", "\n q%d\n" + lbl + "2;\n"]) % k
        if lex == "HDTEXT_LABELLINE":
            lbl = self.labels[-1] if self.labels else "EOT"
            return r.choice([" w%d\n" + lbl + " is the marker\n", " w%d\n" + lbl + ", more\n z\n", "\n" + lbl + ") %d\n"]) % k
        if lex == "HDTEXT_INDENT":
            return "    indented %d\n    " % k
        if lex.startswith("CAST:"):
            return r.choice(CASTS[lex[5:]])
        if self.kwcase and lex[:1].isalpha() and r.random() < 0.15:
            return r.choice([lex.upper(), lex.capitalize()])
        return lex

    def _tok(self, x):
        t = Tok(x["lex"], self._spell(x["lex"]).encode("latin-1"), x.get("glue", ""), len(self.toks))
        self.toks.append(t)
        return t

    # ---- expansion (mirrors SyntaxGen.Items / Kids: slots in schema order, inline nodes share the variant's lens)
    def _choice(self, c, ch):
        v = self.variants[c[0] - 1]
        self.used.append(v["id"])
        n = self._build(v["kind"], v["fill"], iter(c[1]), ch)
        n["vid"] = v["id"]
        return n

    def _build(self, kind, fill, lens, ch):
        node = {"k": kind, "f": {}, "vid": None}
        for slot, typ in schema()[kind]:
            if slot not in fill:
                continue
            x = fill[slot]
            f = x["f"]
            if f == "tk":
                node["f"][slot] = ("tok", self._tok(x))
            elif f == "vl":
                node["f"][slot] = ("val", x["of"])
            elif f == "nd":
                node["f"][slot] = ("node", self._build(x["kind"], x["fill"], lens, ch))
            elif f == "ch":
                node["f"][slot] = ("node", self._choice(next(ch), ch))
            elif f == "sq":
                items, seps = [], []
                for k, it in enumerate(x["items"]):
                    if it["f"] == "nd":
                        items.append(self._build(it["kind"], it["fill"], lens, ch))
                    else:
                        items.append(self._choice(next(ch), ch))
                    if x.get("seps") and k < len(x["items"]) - 1:
                        seps.append(self._tok({"lex": x["sep"], "glue": ""}))
                node["f"][slot] = ("list", items)
                if x.get("seps"):
                    node["f"][x["seps"]] = ("toklist", seps)
            elif f == "ls":
                n, trail = next(lens)
                items, seps = [], []
                for i in range(n):
                    it = self._choice(next(ch), ch)
                    if it["k"] == "SEQ":
                        items.append(it["f"]["A"][1])
                        items.append(it["f"]["B"][1])
                    else:
                        items.append(it)
                    if x["seps"] and (i < n - 1 or trail):
                        seps.append(self._tok({"lex": x["sep"], "glue": "LR" if x["sep"] == "\\" else ""}))
                node["f"][slot] = ("list", items)
                if x["seps"]:
                    node["f"][x["seps"]] = ("toklist", seps)
        return node

    # ---- layout
    def gaps(self):
        """gap i lies before token i (gap 0 = file start ... first token; gap len(toks) = before EOF)"""
        out = []
        for i in range(len(self.toks) + 1):
            prev = self.toks[i - 1] if i > 0 else None
            nxt = self.toks[i] if i < len(self.toks) else None
            if prev is None:
                out.append("first")
            elif nxt is None:
                out.append("none" if (prev.lex == "HTML" or "O" in prev.glue) else ("payload" if "P" in prev.glue else "last"))
            elif prev.lex == "HTML" or ("O" in prev.glue and prev.lex != "HTML"):
                out.append("open")                     # back to PHP: an open tag comes first
            elif "R" in prev.glue or "L" in nxt.glue:
                out.append("none")
            elif fuses(prev.text, nxt.text):
                out.append("sep")
            else:
                out.append("free")
        return out

    def render(self, recipes):
        """recipes: function(i, gapkind) -> list of (class, text) trivia pieces for gap i.  Returns the source bytes;
        sets token offsets and expected free-floating tokens."""
        src = bytearray()
        gk = self.gaps()
        for i in range(len(self.toks) + 1):
            pieces = []
            if gk[i] == "first":
                pieces.append(("T_OPEN_TAG", b"<?php"))
                pieces.append(("T_WHITESPACE", b" "))
            if gk[i] == "open":
                pieces.append(("T_OPEN_TAG", b"<?php"))
                pieces.append(("T_WHITESPACE", b"\n"))
            rp = recipes(i, "free" if gk[i] == "open" else gk[i]) if gk[i] not in ("none", "payload") else []
            if gk[i] == "payload":
                # raw data after __halt_compiler();  - not trivia: the same bytes under every layout; they would parse as PHP
                pieces.append(("T_HALT_COMPILER", HALT_PAYLOAD))
            if i > 0 and "W" in self.toks[i - 1].glue:
                # only white space may follow (the scanner's property state knows no comments: see the C08 finding)
                rp = [x for x in rp if x[0] == "T_WHITESPACE"]
            if i > 0 and "N" in self.toks[i - 1].glue and gk[i] != "none":
                # PHP < 7.3: the ';' after a closing heredoc label must be followed by a line break (LF or CRLF); a
                # recipe that starts with one provides it, otherwise one is put in front
                if not (rp and rp[0][0] == "T_WHITESPACE" and (rp[0][1].startswith(b"\n") or rp[0][1].startswith(b"\r\n"))):
                    pieces.append(("T_WHITESPACE", b"\r\n" if (self.nlsalt + i) % 3 == 0 else b"\n"))
            pieces += rp
            if gk[i] == "sep" and not pieces:
                pieces = [("T_WHITESPACE", b" ")]
            # a comment directly after a "/" would fuse with it ("/" + "/* c */" is a line comment)
            if pieces and i > 0 and self.toks[i - 1].text.endswith(b"/") and pieces[0][1].startswith(b"/"):
                pieces.insert(0, ("T_WHITESPACE", b" "))
            # merge adjacent white space into one free-floating token
            ff = []
            for cls, text in pieces:
                if not text:
                    continue
                if ff and cls == "T_WHITESPACE" and ff[-1][0] == "T_WHITESPACE":
                    ff[-1][1] += text
                else:
                    ff.append([cls, bytearray(text)])
            t = self.toks[i] if i < len(self.toks) else self.eof
            t.ff = []
            for cls, text in ff:
                t.ff.append((cls, len(src), len(src) + len(text)))
                src += text
            t.s = len(src)
            src += t.text
            t.e = len(src)
        return bytes(src)

    # ---- expectation
    def expected(self):
        return self._exp(self.root)

    def _tokexp(self, t):
        return {"t": [t.s, t.e], "ff": [[c, s, e] for c, s, e in t.ff]}

    def _exp(self, node):
        out = {"k": node["k"], "f": {}}
        for slot, (typ, v) in node["f"].items():
            if typ == "tok":
                out["f"][slot] = self._tokexp(v)
            elif typ == "toklist":
                if v:
                    out["f"][slot] = {"tl": [self._tokexp(t) for t in v]}
            elif typ == "node":
                out["f"][slot] = self._exp(v)
            elif typ == "list":
                if v:
                    out["f"][slot] = {"l": [self._exp(c) for c in v]}
            elif typ == "val":
                # "A+B": the value is the text of the tokens in slots A and B, concatenated
                out["f"][slot] = {"v": "".join(node["f"][x][1].text.decode("latin-1") for x in v.split("+"))}
        if node["k"] == "Root":
            out["f"]["EndTkn"] = {"t": [-1, -1], "ff": [[c, s, e] for c, s, e in self.eof.ff]}
        out["s"], out["e"] = self._span(node)
        return out

    def _span(self, node):
        """first/last element of the node with the documented conventions (mirror of analyze.go's rule)"""
        first = last = None
        sch = schema()[node["k"]]
        skip = None
        for idx, (slot, typ) in enumerate(sch):
            if slot not in node["f"]:
                # an absent statement list at the boundary stands for -1
                continue
            typ2, v = node["f"][slot]
            elems = []
            if typ2 == "tok":
                if slot == "SemiColonTkn" and node["k"] in ("StmtTraitUseAlias", "StmtTraitUsePrecedence"):
                    continue
                elems = [(v.s, v.e)]
            elif typ2 == "node":
                s, e = self._span(v)
                if s is not None:
                    elems = [(s, e)]
            elif typ2 == "list":
                seps = []
                sepslot = sch[idx + 1][0] if idx + 1 < len(sch) and sch[idx + 1][1] == "tknlist" else None
                if sepslot and sepslot in node["f"]:
                    seps = node["f"][sepslot][1]
                if not v and not seps:
                    if slot == "Stmts" or (node["k"] == "StmtTry" and slot == "Catches"):
                        elems = [(-1, -1)]
                for k2 in range(max(len(v), len(seps))):
                    if k2 < len(v):
                        s, e = self._span(v[k2])
                        if s is not None:
                            elems.append((s, e))
                    if k2 < len(seps):
                        elems.append((seps[k2].s, seps[k2].e))
            for el in elems:
                if first is None:
                    first = el
                last = el
        if first is None:
            return (-1, -1)
        return (first[0], last[1])


def fuses(x, y):
    """could the bytes of two adjacent tokens combine into another lexeme (conservative)?"""
    cx, cy = x[-1:], y[:1]
    wx, wy = bool(WORD.match(cx)), bool(WORD.match(cy))
    if wx and wy:
        # a decimal number directly followed by a word operator is two lexemes ("1and 2")
        if re.fullmatch(rb"[1-9][0-9]*", x) and y.lower() in (b"and", b"or", b"xor", b"instanceof", b"as"):
            return False
        return True
    if wx and not wy:
        return (cx in b"bB" and cy in b"'\"<") or (cx.isdigit() and cy == b".")
    if not wx and wy:
        return cx == b"$" or (cx == b"." and cy.isdigit()) or (cx == b"\\") and False
    if cx[0] in SAFE or cy[0] in SAFE:
        return x == b";" and y.startswith(b"?>")
    if cx in b"'\"`" or cy in b"'\"`":
        return False
    return True


# semi-reserved words: usable as member names (after "->" in every version; after "::" and in declarations from PHP 7 on)
RESERVED_NAMES = ["list", "array", "function", "for", "foreach", "if", "else", "while", "echo", "print", "new", "static", "abstract", "final", "public",
                  "private", "use", "namespace", "return", "switch", "case", "default", "try", "catch", "throw", "global", "var", "const", "isset", "unset",
                  "empty", "include", "require", "clone", "instanceof", "as", "and", "or", "xor", "do", "break", "continue", "goto", "callable", "trait",
                  "interface", "extends", "implements", "yield", "finally", "declare", "exit", "die", "List", "FOR"]

HALT_PAYLOAD = b" raw\x00data <?php $zz = 1; ?>\n/* not a comment */ 'bin\r\n"

# ---------------------------------------------------------------------------- trivia recipes

RECIPES = {
    "none": [],
    "space": [("T_WHITESPACE", b" ")],
    "tab": [("T_WHITESPACE", b"\t")],
    "lf": [("T_WHITESPACE", b"\n")],
    "crlf": [("T_WHITESPACE", b"\r\n\t")],
    "blank": [("T_WHITESPACE", b"\n\n  ")],
    "block": [("T_COMMENT", b"/* c */")],
    "block_nl": [("T_WHITESPACE", b" "), ("T_COMMENT", b"/* a\n b */"), ("T_WHITESPACE", b"\n")],
    "doc": [("T_DOC_COMMENT", b"/** d */")],
    "line": [("T_WHITESPACE", b" "), ("T_COMMENT", b"// c\n")],
    "hash_crlf": [("T_COMMENT", b"# c\r\n"), ("T_WHITESPACE", b"\t")],
    "empty_block": [("T_COMMENT", b"/**/")],
    "hash_empty": [("T_COMMENT", b"#\n")],
    "many": [("T_WHITESPACE", b" "), ("T_COMMENT", b"// 1\n"), ("T_WHITESPACE", b"\t"), ("T_COMMENT", b"/* 2 */"), ("T_WHITESPACE", b"\n"), ("T_COMMENT", b"# 3\n"),
             ("T_WHITESPACE", b"  "), ("T_DOC_COMMENT", b"/** 4 */"), ("T_WHITESPACE", b" ")],
    "long_ws": [("T_WHITESPACE", b"                    \n                    ")],
    "line_empty": [("T_WHITESPACE", b"\t"), ("T_COMMENT", b"//\r\n")],
    "hash_cr_text": [("T_COMMENT", b"#x\n"), ("T_COMMENT", b"#\n"), ("T_WHITESPACE", b" ")],
    # comments are opaque: what they contain (statement ends, brackets, quotes, comment openers, tags) never matters
    "line_code": [("T_WHITESPACE", b" "), ("T_COMMENT", b"// $a = f(1);\n")],
    "hash_code": [("T_COMMENT", b"# if ($a) { b(); }\n"), ("T_WHITESPACE", b" ")],
    "block_code": [("T_COMMENT", b"/* a; /* b */"), ("T_WHITESPACE", b" ")],
    "block_quotes": [("T_WHITESPACE", b" "), ("T_COMMENT", b"/* it's \"q\" ?> <?php { */")],
    # ... nor how they begin
    "hash_bracket": [("T_COMMENT", b"#[1] see f(); g();\n"), ("T_WHITESPACE", b" ")],
    "line_star": [("T_WHITESPACE", b" "), ("T_COMMENT", b"//* x */ $y = 1;\n")],
    "block_slash": [("T_COMMENT", b"/*/ x */"), ("T_WHITESPACE", b" ")],
    "cr": [("T_WHITESPACE", b"\r")],
    "mix": [("T_WHITESPACE", b"\n"), ("T_COMMENT", b"// x\n"), ("T_DOC_COMMENT", b"/** y */"), ("T_WHITESPACE", b" ")],
}
RECIPE_NAMES = list(RECIPES)


def layout_uniform(name):
    r = RECIPES[name]
    return lambda i, kind: list(r) if kind in ("free", "sep") or (kind in ("last",) and name != "none") else []


def layout_random(rng, names=None):
    names = names or [n for n in RECIPE_NAMES if n != "cr"]
    memo = {}

    def f(i, kind):
        if kind not in ("free", "sep", "last"):
            return []
        if i not in memo:
            memo[i] = rng.choice(names)
        return list(RECIPES[memo[i]])
    return f


def layout_one_gap(gap, name):
    r = RECIPES[name]
    return lambda i, kind: list(r) if i == gap and kind in ("free", "sep", "last") else []


# ---------------------------------------------------------------------------- TLC drivers

def generate(check, family, rootcat="top", rootmax=2, depth=3, num=2000, seed=1, allowed=None, exhaustive=False, timeout=1800, maxchoices=0,
             listlens=None, glue=None, wrappers=None, focusfamily=None):
    """Runs SyntaxGen.tla; returns (table, behaviours).  listlens: lengths for every repeatable list (long-list mode);
    glue: variant ids of the self-nesting mode (one other variant per derivation)."""
    al = "{" + ", ".join('"%s"' % a for a in (allowed or [])) + "}"
    gl = "{" + ", ".join('"%s"' % a for a in (glue or [])) + "}"
    ll = "{" + ", ".join(str(n) for n in (listlens or [])) + "}"
    wr = "{" + ", ".join('"%s"' % a for a in (wrappers or [])) + "}"
    ff = "{" + ", ".join('"%s"' % a for a in (focusfamily or [])) + "}"
    mc = ("---- MODULE MCSyntaxGen ----\nEXTENDS SyntaxGen\nASSUME ExportTable\nMCAllowed == %s\nMCGlue == %s\nMCWrappers == %s\nMCListLens == %s\nMCFocusFamily == %s\n====\n"
          % (al, gl, wr, ll, ff))
    cfg = ("SPECIFICATION GSpec\nCONSTANTS RootCat = \"%s\" RootMax = %d Depth = %d Family = \"%s\" Random = %s MaxChoices = %d\n"
           "CONSTANT Allowed <- MCAllowed\nCONSTANT Glue <- MCGlue\nCONSTANT Wrappers <- MCWrappers\nCONSTANT FocusFamily <- MCFocusFamily\nCONSTANT ListLens <- MCListLens\nINVARIANTS Terminates%s\nCHECK_DEADLOCK FALSE\n"
           % (rootcat, rootmax, depth, family, "FALSE" if exhaustive else "TRUE", maxchoices, "" if glue else " NoDeadEnd"))
    pick = None
    if exhaustive:
        r = core.tlc("MCSyntaxGen", cfg, files={"MCSyntaxGen.tla": mc}, timeout=timeout, heap="12g")
    else:
        # the checks that sample whole programs share one simulation per family (and TLC's cached answer): each check takes
        # its own seeded selection of it
        pool = 3000
        if rootcat == "top" and rootmax == 2 and depth == 3 and not allowed and num <= pool and not listlens and not glue:
            pick, num_run, seed_run = (num, seed), pool, core.seed()
        else:
            num_run, seed_run = num, seed
        r = core.tlc("MCSyntaxGen", cfg, files={"MCSyntaxGen.tla": mc}, simulate={"num": num_run, "depth": 400}, seed_=seed_run, timeout=timeout)
    check.add_tlc("SyntaxGen(family=%s,root=%s,depth=%d,%s)" % (family, rootcat, depth, "exhaustive" if exhaustive else "simulate %d" % num), r)
    table = None
    behs = []
    for o in r.out:
        if isinstance(o, dict) and "variants" in o:
            table = o
        elif isinstance(o, dict) and "choices" in o:
            behs.append(o)
    if table is None:
        raise core.InfraError("Syntax.tla did not export its table")
    behs.sort(key=lambda b: json.dumps(b["choices"]))
    if pick:
        import random as _r
        _r.Random(pick[1]).shuffle(behs)
        # the selection, plus one derivation from the rest of the pool for every variant the selection does not use
        sel, rest = behs[:pick[0]], behs[pick[0]:]
        have = {c[0] for b in sel for c in b["choices"]}
        for b in rest:
            new = {c[0] for c in b["choices"]} - have
            if new:
                sel.append(b)
                have |= new
        behs = sorted(sel, key=lambda b: json.dumps(b["choices"]))
    return table, behs
