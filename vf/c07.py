"""C07 - a syntax error costs only the statement it is in.

Statement sequences derived from Syntax.tla (top level, function body, block) get a malformed statement inserted at
every statement boundary.  Whenever a tree is returned: every well-formed statement preceding the insertion point
in the same list is present and identical (full fingerprint incl. tokens and positions) to what parsing the
unbroken program gives, and at least one following statement is present.  For every tree returned together with
errors: tokens in print order have strictly increasing, disjoint offsets, hold source slices, and the printed text
is their concatenation (recovery never invents, duplicates or reorders text)."""
import random

from . import core, syntax, progs, lexgen, c01, semerr, yaccobl

# token runs that are never a (prefix of a) valid statement; the second group is not bracket-balanced: a stray ')' or ']'
# is itself the malformed statement (a stray '}' would legitimately close the enclosing block, so it is not used)
MENU = ["$a = ;", "1 2 ;", "$x = = 3;", "foo( , );", "$y->;", "+ ;", "if ();",
        ")", "]", "$q = 2 3;", "echo 1 2;", "g(1 2);", "=> 1;", "$r = 1 + -$s ** 2 3;", "new;", "$t[1 2];", ") ]",
        "$q = 2 /* note */ 3;", "echo 1 // c\n 2;", "g(1 /** d */ $z);", "$u = 1 # h\n $w;", "/* lead */ ) ;"]


def wrap(kind, stmts):
    """returns (source, path to the list, offset where the list's first statement starts)"""
    body = "".join(stmts)
    if kind == "top":
        return "<?php " + body, ["Stmts"]
    if kind == "function":
        return "<?php function w0($p) {" + body + "}", ["Stmts", 0, "Stmts"]
    return "<?php {" + body + "}", ["Stmts", 0, "Stmts"]


def run(tier):
    check = core.Check("C07", tier)
    rng = random.Random(core.seed())
    wp = core.WorkerPool(core.build_worker())
    n = 300 if tier == "quick" else 2500
    cases = []
    for family in ("7", "5"):
        # single statements (inner statements, so that they are valid in all three list contexts)
        table, behs = syntax.generate(check, family, rootcat="inner", rootmax=1, num=n * 3, seed=core.seed() + 70, depth=2)
        stmts = []
        for i, b in enumerate(behs):
            try:
                P = syntax.Program(table, b, random.Random(core.seed() * 31 + i))
            except syntax.Skip:
                continue
            s = P.render(syntax.layout_uniform("none"))[len("<?php "):].decode("latin-1")
            if "?>" in s:
                continue          # a statement that leaves PHP mode cannot be concatenated with the next one
            stmts.append(s + "\n")
        for i in range(n):
            seq = [stmts[(3 * i + k) % len(stmts)] for k in range(4)]
            kind = ["top", "function", "block"][i % 3]
            for k in range(0, 4):
                bad = MENU[(i + k) % len(MENU)] + " "
                cases.append((family, kind, seq, k, bad))
            if kind == "top":
                # at the top level a stray '}' closes nothing: it is a malformed statement too (the scanner's call stack is
                # empty there - Lexer.tla's RetUnderflow - whatever was pushed and popped before)
                for k in range(1, 4):
                    cases.append((family, kind, seq, k, ["} ", "} } ", "}; "][(i + k) % 3]))
    # errors the parser cannot recover from before the end of the input (a block left open): whenever a tree is returned all
    # the same, the complete top-level statements in front of the open construct must be in it
    giveups = []
    for family in ("7", "5"):
        mine = [c for c in cases if c[0] == family][:: max(1, len([c for c in cases if c[0] == family]) // (40 if tier == "quick" else 400))]
        for (_, _, seq, _, _) in mine:
            for tail in ("function g9() { $a = ", "if ($c9) { f9(", "class C9 { function m() { return [1, ", "$z9 = array(1, "):
                giveups.append((family, "top", seq[:2], "".join(seq[:2]) + tail))
                giveups.append((family, "namespaces", ["namespace A9 { " + seq[0] + "}\n", "namespace B9 { " + seq[1] + "}\n"],
                                "namespace A9 { " + seq[0] + "}\nnamespace B9 { " + seq[1] + tail))
    tasks = []
    for family, kind, pre, broken in giveups:
        ver = progs.VERS[family][0]
        tasks.append({"op": "stmt_fps", "src": "<?php " + "".join(pre), "ver": ver, "path": ["Stmts"]})
        tasks.append({"op": "stmt_fps", "src": "<?php " + broken, "ver": ver, "path": ["Stmts"]})
    gres = wp.run(tasks)
    ngive = 0
    for j, (family, kind, pre, broken) in enumerate(giveups):
        ro, rb = gres[2 * j], gres[2 * j + 1]
        check.count(2)
        if any(x.get("panic") or x.get("hang") or x.get("crash") for x in (ro, rb)) or ro.get("nerr", 1) > 0 or not ro.get("path_ok"):
            continue
        if rb.get("nerr", 0) == 0:
            check.violation({"class": "malformed-statement-accepted", "bad": "open-construct-at-end"}, {"src": tasks[2 * j + 1]["src"]})
            continue
        if not rb.get("root") or not rb.get("path_ok"):
            continue          # no tree: nothing is claimed
        ngive += 1
        need = len(pre) - (1 if kind == "namespaces" else 0)      # the second namespace is the open construct itself
        want = [x[0] for x in ro["fps"][:need]]
        got = [x[0] for x in (rb["fps"] or [])[:need]]
        if want != got:
            check.violation({"class": "preceding-statement-lost-or-changed", "context": "give-up-" + kind, "bad": "open-construct-at-end", "kind": ro["fps"][0][2]},
                            {"src": tasks[2 * j + 1]["src"], "complete_prefix": tasks[2 * j]["src"], "expected_kinds": [x[2] for x in ro["fps"]],
                             "observed_kinds": [x[2] for x in (rb["fps"] or [])]})
    check.cov["give_up_cases_with_a_tree"] = ngive
    tasks = []
    for family, kind, seq, k, bad in cases:
        orig, path = wrap(kind, seq)
        broken, _ = wrap(kind, seq[:k] + [bad] + seq[k:])
        ver = progs.VERS[family][0]
        tasks.append({"op": "stmt_fps", "src": orig, "ver": ver, "path": path})
        tasks.append({"op": "stmt_fps", "src": broken, "ver": ver, "path": path})
    res = wp.run(tasks)
    usable = 0
    for j, (family, kind, seq, k, bad) in enumerate(cases):
        ro, rb = res[2 * j], res[2 * j + 1]
        check.count(2)
        if any(x.get("panic") or x.get("hang") or x.get("crash") for x in (ro, rb)):
            continue
        if ro.get("nerr", 1) > 0 or not ro.get("path_ok"):
            continue      # the sequence itself is not accepted: C03's business
        if rb.get("nerr", 0) == 0:
            check.violation({"class": "malformed-statement-accepted", "bad": bad.strip()}, {"src": tasks[2 * j + 1]["src"]})
            continue
        if not rb.get("root") or not rb.get("path_ok"):
            continue      # no recovery: the property speaks about the case where the parser recovers
        usable += 1
        check.distinct((family, kind, k, bad, tuple(seq)))
        fo, fb = ro["fps"], rb["fps"] or []
        pre = [x[0] for x in fo[:k]]
        got = [x[0] for x in fb[:k]]
        if pre != got:
            lost = [i for i in range(k) if i >= len(got) or got[i] != pre[i]]
            check.violation({"class": "preceding-statement-lost-or-changed", "context": kind, "bad": bad.strip(), "kind": fo[lost[0]][2]},
                            {"src": tasks[2 * j + 1]["src"], "original": tasks[2 * j]["src"], "insert_at": k, "first_affected_statement": lost[0],
                             "expected_kinds": [x[2] for x in fo], "observed_kinds": [x[2] for x in fb]})
            continue
        later = {x[1] for x in fo[k:]}
        if later and not any(x[1] in later for x in fb[k:]):
            check.violation({"class": "parsing-did-not-continue", "context": kind, "bad": bad.strip()},
                            {"src": tasks[2 * j + 1]["src"], "insert_at": k, "expected_kinds": [x[2] for x in fo], "observed_kinds": [x[2] for x in fb]})
    check.cov["recovered_cases"] = usable
    # many errors in one file (a dozen and more malformed statements among well-formed ones): parsing goes on to the end - the
    # well-formed statements after the LAST malformed one are in the tree, and so is the first one of the file
    many = []
    simple = [m for m in MENU if not any(c in m for c in ")]") or "(" in m]
    for family in ("7", "5"):
        mine = [c for c in cases if c[0] == family and c[1] == "top"]
        for i in range(0, 30 if tier == "quick" else 300):
            goods = []
            for c in mine[i * 5:i * 5 + 5]:
                goods += c[2]
            goods = goods[:18]
            if len(goods) < 18:
                break
            parts = []
            for k, g in enumerate(goods):
                parts.append(g)
                if 0 < k < 16:
                    parts.append(simple[(i + k) % len(simple)] + "\n")
            many.append((family, goods, "".join(parts)))
    mt = []
    for family, goods, broken in many:
        ver = progs.VERS[family][0]
        mt.append({"op": "stmt_fps", "src": "<?php " + "".join(goods), "ver": ver, "path": ["Stmts"]})
        mt.append({"op": "stmt_fps", "src": "<?php " + broken, "ver": ver, "path": ["Stmts"]})
    mres = wp.run(mt)
    nmany = 0
    for j, (family, goods, broken) in enumerate(many):
        ro, rb = mres[2 * j], mres[2 * j + 1]
        check.count(2)
        if any(x.get("panic") or x.get("hang") or x.get("crash") for x in (ro, rb)) or ro.get("nerr", 1) > 0 or not ro.get("path_ok") or len(ro["fps"]) != len(goods):
            continue
        if not rb.get("root") or not rb.get("path_ok"):
            continue
        nmany += 1
        fo, fb = ro["fps"], rb["fps"] or []
        have = [x[1] for x in fb]
        if fo[0][1] not in have or fo[-1][1] not in have or fo[-2][1] not in have:
            check.violation({"class": "parsing-did-not-continue", "context": "many-errors", "bad": "15 malformed statements"},
                            {"src": mt[2 * j + 1]["src"], "errors_reported": rb.get("nerr"), "expected_last_kinds": [x[2] for x in fo[-2:]],
                             "observed_kinds": [x[2] for x in fb]})
    check.cov["many_error_files"] = nmany
    check.sample({"context": cases[1][1], "broken": tasks[3]["src"]})
    # no invention: every tree returned with errors
    srcs = [t["src"].encode("latin-1") for t in tasks[1::2]][:: (3 if tier == "quick" else 1)]
    srcs += [c["src"] for c in lexgen.cases(check, tier, rng)][:: (3 if tier == "quick" else 1)] + c01.random_inputs(rng, 1500 if tier == "quick" else 20000, 14)
    for fam_ in ("7", "5"):
        srcs += progs.token_mutations(check, fam_, core.seed(), 200 if tier == "quick" else 3000)
    srcs = list(dict.fromkeys(srcs))
    t2 = [{"op": "analyze", "src": s.decode("latin-1"), "ver": ["7.4", "5.6"][i % 2]} for i, s in enumerate(srcs)]
    # trees returned together with an error that a grammar action reported itself (PHP 5) and with give-ups
    t2 += [{"op": "analyze", "src": p["src"], "ver": v} for p in semerr.programs()[:: (2 if tier == "quick" else 1)] for v in ("5.6", "5.3")]
    t2 += [{"op": "analyze", "src": "<?php " + broken, "ver": progs.VERS[family][0]} for family, _, _, broken in giveups]
    ntrees = 0
    for t, r in zip(t2, wp.run(t2)):
        check.count()
        if r.get("panic") or r.get("hang") or r.get("crash") or not r.get("root") or r.get("nerr", 0) == 0:
            continue
        ntrees += 1
        fam = c01.family(t["src"].encode("latin-1"), t["ver"])
        for f in r.get("fails") or []:
            if f["c"] in ("C04.order", "C04.token-shared", "C04.value", "C04.range", "C12.shared-node"):
                check.violation({"class": "recovered-tree-" + f["c"], "owner": f.get("owner") or f.get("kind"), "family": fam},
                                {"src": t["src"], "ver": t["ver"], "fail": f})
        if r.get("print_eq_tokens") is False:
            check.violation({"class": "printed-text-is-not-the-tree's-tokens", "family": fam},
                            {"src": t["src"], "ver": t["ver"], "printed": r.get("printed"), "tokens": r.get("tokcat")})
    check.cov["trees_returned_with_errors"] = ntrees
    # what recovery does to the TREE, at design level: LRValues.tla runs goyacc's loop with its value stack on concrete tables of the
    # grammars' recovery shape over every token string up to the bound (NoInvention, PrefixKept, Reported, CleanIsWhole,
    # Terminates), and shows that they fail when an empty / error production leaves $$ unassigned; that obligation is then
    # checked on the action code of both real parsers (generated .go and the .y source)
    yaccobl.model_check(check, tier)
    for fam in ("7", "5"):
        for sig, rep in yaccobl.check_family(check, fam):
            check.violation(sig, rep)
    check.cov["traces_validated_against_impl"] = check.cov["evaluations"]
    check.assumptions += ["malformed-statement menu: token runs that are never a valid statement and are bracket-balanced",
                          "statement identity = full reflection fingerprint (offsets before the insertion point are unchanged)"]
    return check.finish({"rule": "4-statement sequences from SyntaxGen (3 list contexts) x every boundary x malformed menu; all trees returned with "
                                 "errors from these, Lexer.tla cover and random bytes; distinct = (family, context, boundary, malformed, sequence)"})
