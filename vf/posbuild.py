"""Position.tla bound to internal/position.Builder: TLC enumerates every combinator x argument shape, checks the span
properties on the definitions, and prints each case; every case runs on the real Builder (worker op posbuild)."""
from . import core


def behaviours(check, maxoff):
    cfg = "SPECIFICATION PSpec\nCONSTANT MaxOff = %d\nINVARIANTS Covers LinesOfOffsets MinusOneRule TokensAlwaysSupply\nCHECK_DEADLOCK FALSE\n" % maxoff
    r = core.tlc("Position", cfg, timeout=900)
    check.add_tlc("Position(MaxOff=%d): every combinator x argument shape" % maxoff, r)
    out = [o for o in r.out if isinstance(o, dict) and "comb" in o]
    out.sort(key=lambda o: (o["comb"], str(o["args"])))
    return out


def run(check, wp, tier):
    """returns list of (signature, replay)"""
    cases = behaviours(check, 2 if tier == "quick" else 3)
    if len({c["comb"] for c in cases}) != 12:
        raise core.InfraError("Position.tla did not yield all twelve combinators")
    chunks = [cases[i:i + 500] for i in range(0, len(cases), 500)]
    res = wp.run([{"op": "posbuild", "cases": [{"comb": c["comb"], "args": c["args"]} for c in ch]} for ch in chunks])
    bad = []
    n = 0
    for ch, r in zip(chunks, res):
        if r.get("panic") or r.get("hang") or r.get("crash"):
            bad.append(({"class": "position-builder-crash", "site": r.get("site")}, {"observed": r, "first_case": ch[0]}))
            continue
        for c, o in zip(ch, r["outs"]):
            n += 1
            check.count()
            ow = c["owed"]
            want = [ow["sl"], ow["el"], ow["sp"], ow["ep"]]
            if o.get("error"):
                raise core.InfraError("posbuild: " + o["error"])
            if o.get("nil") or o.get("span") != want:
                k = [i for i in range(4) if (o.get("span") or [None] * 4)[i] != want[i]]
                bad.append(({"class": "position-combinator-span", "comb": c["comb"], "field": ["StartLine", "EndLine", "StartPos", "EndPos"][k[0]] if k else "nil"},
                            {"case": c, "expected": want, "observed": o}))
            for flag in ("aliases_argument", "handed_out_before", "argument_changed"):
                if o.get(flag):
                    bad.append(({"class": "position-combinator-" + flag.replace("_", "-"), "comb": c["comb"]}, {"case": c, "observed": o}))
    check.cov["position_combinator_cases"] = n
    check.cov["traces_validated_against_impl"] += n
    return bad
