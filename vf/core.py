"""Core plumbing of the verification framework.

* build_worker(): rebuilds the Go worker (tag verif) from /repo's current tree
* tlc(): runs TLC on a specification inside a private scratch directory
* WorkerPool: runs tasks on killable worker processes
* Check: collects evidence, violations, known findings; decides the exit code

Exit codes of every check: 0 held, 1 VIOLATION (reproduced on the real code,
not listed in known_findings.json), 2 infrastructure trouble (never a verdict).
"""
import hashlib
import json
import os
import queue
import re
import shutil
import subprocess
import sys
import tempfile
import threading
import time

VERIF = os.path.dirname(os.path.dirname(os.path.abspath(__file__)))
REPO = os.environ.get("VERIF_REPO", "/repo")
SPEC = os.path.join(VERIF, "spec")
BUILD = os.path.join(VERIF, "build")
TLAJAR = "/opt/veriftools/tla/tla2tools.jar:/opt/veriftools/tla/CommunityModules-deps.jar"
NCPU = os.cpu_count() or 4


class InfraError(Exception):
    """Infrastructure trouble: exit 2, never a verdict about the property."""


def seed():
    try:
        return int(os.environ.get("VERIF_SEED", "1"))
    except ValueError:
        return 1


def goenv():
    e = dict(os.environ)
    e.update(GOFLAGS="-mod=mod", GOPROXY="off", GOSUMDB="off", GOTOOLCHAIN="local")
    return e


_built = {}


def build_worker(race=False):
    """Build the worker against /repo's current working tree (hooks on)."""
    key = "race" if race else "plain"
    if key in _built:
        return _built[key]
    os.makedirs(BUILD, exist_ok=True)
    outp = os.path.join(BUILD, "worker-race" if race else "worker")
    hdir = os.path.join(VERIF, "harness")
    gosum = os.path.join(REPO, "go.sum")
    if os.path.exists(gosum):
        shutil.copyfile(gosum, os.path.join(hdir, "go.sum"))
    cmd = ["go", "build", "-tags", "verif"]
    if race:
        cmd.append("-race")
    cmd += ["-o", outp, "./cmd/worker"]
    p = subprocess.run(cmd, cwd=hdir, env=goenv(), stdout=subprocess.PIPE, stderr=subprocess.STDOUT, text=True)
    if p.returncode != 0:
        raise InfraError("worker build failed (the tree under test does not compile with -tags verif):\n" + p.stdout[-4000:])
    _built[key] = outp
    return outp


# --------------------------------------------------------------------------- TLC

class TLCResult:
    def __init__(self):
        self.generated = 0
        self.distinct = 0
        self.depth = 0
        self.out = []          # decoded PrintT payloads (JSON values)
        self.raw = ""
        self.violated = None   # name of violated invariant/property, if any
        self.post_failed = False
        self.wall = 0.0
        self.coverage_zero = []


_STAT = re.compile(r"(\d+) states generated, (\d+) distinct states found")
_DEPTH = re.compile(r"The depth of the complete state graph search is (\d+)")
_SIMSTAT = re.compile(r"The number of states generated: (\d+)")


def tlc(module, cfg_text, *, workers=None, simulate=None, seed_=None, timeout=600,
        files=None, coverage=False, dfs=False, heap="4g", depth=None, allow_violation=False,
        marker=None):
    """Run TLC on spec/<module>.tla with the given configuration text.

    simulate: None for exhaustive BFS, or dict(num=N, depth=D).
    files: extra files (name -> str/bytes) placed next to the spec (traces, generated modules).
    Output lines that are JSON (PrintT of ToJson) are decoded into result.out.
    """
    tmp = tempfile.mkdtemp(prefix="vftlc-")
    t0 = time.time()
    try:
        for f in os.listdir(SPEC):
            if f.endswith(".tla"):
                shutil.copyfile(os.path.join(SPEC, f), os.path.join(tmp, f))
        for name, content in (files or {}).items():
            mode = "wb" if isinstance(content, bytes) else "w"
            with open(os.path.join(tmp, name), mode) as fh:
                fh.write(content)
        with open(os.path.join(tmp, module + ".cfg"), "w") as fh:
            fh.write(cfg_text)
        java = ["java", "-XX:+UseParallelGC", "-Xmx" + heap, "-Xss64m"]
        if dfs:
            java.append("-Dtlc2.tool.queue.IStateQueue=StateDeque")
        cmd = java + ["-cp", TLAJAR, "tlc2.TLC", "-metadir", os.path.join(tmp, "meta"),
                      "-config", module + ".cfg", "-noGenerateSpecTE"]
        if workers is None:
            workers = "auto" if simulate is None else 1
        cmd += ["-workers", str(workers)]
        if simulate is not None:
            cmd += ["-simulate", "num=%d" % simulate["num"], "-depth", str(simulate.get("depth", 100))]
        if seed_ is not None:
            cmd += ["-seed", str(seed_)]
        if coverage:
            cmd += ["-coverage", "1"]
        cmd.append(module + ".tla")
        try:
            p = subprocess.run(cmd, cwd=tmp, stdout=subprocess.PIPE, stderr=subprocess.STDOUT,
                               text=True, timeout=timeout, errors="replace")
        except subprocess.TimeoutExpired:
            raise InfraError("TLC timed out after %ds on %s" % (timeout, module))
        r = TLCResult()
        r.raw = p.stdout
        r.wall = time.time() - t0
        for line in p.stdout.splitlines():
            s = line.strip()
            if not s:
                continue
            if s[0] in '"{[':
                try:
                    v = json.loads(s)
                    if isinstance(v, str):
                        v = json.loads(v)
                    r.out.append(v)
                    continue
                except ValueError:
                    pass
            m = _STAT.search(s)
            if m:
                r.generated, r.distinct = int(m.group(1)), int(m.group(2))
            m = _DEPTH.search(s)
            if m:
                r.depth = int(m.group(1))
            m = _SIMSTAT.search(s)
            if m:
                r.generated = int(m.group(1))
                r.distinct = max(r.distinct, r.generated)
            m = re.search(r"Invariant (\S+) is violated", s)
            if m:
                r.violated = m.group(1)
            m = re.search(r"Action property (\S+) is violated|Temporal properties were violated|property (\S+) is violated", s)
            if m:
                r.violated = m.group(1) or m.group(2) or "temporal"
            if "Deadlock reached" in s:
                r.violated = "Deadlock"
            if "ostcondition" in s and ("violated" in s or "is false" in s):
                r.post_failed = True
            if coverage and s.endswith(": 0") and s.startswith("<"):
                r.coverage_zero.append(s)
        if r.post_failed and not r.violated:
            r.violated = "Postcondition"
        bad = p.returncode != 0 and not r.violated
        # TLC exit codes: 0 ok, 12 safety violation, 13 liveness, 11 deadlock, others = errors
        if bad or ("Error:" in p.stdout and not r.violated) or "Parsing or semantic analysis failed" in p.stdout:
            raise InfraError("TLC failed on %s (exit %d):\n%s" % (module, p.returncode, p.stdout[-3000:]))
        if r.violated and not allow_violation:
            raise InfraError("specification %s is itself violated (%s) - design-level problem, not a verdict:\n%s"
                             % (module, r.violated, p.stdout[-3000:]))
        return r
    finally:
        shutil.rmtree(tmp, ignore_errors=True)


# --------------------------------------------------------------------------- workers

class WorkerPool:
    """Runs tasks on N worker processes; a hang/oom/crash costs only one task."""

    def __init__(self, binary, n=None, env=None, chunk=64, idle_timeout=60):
        self.binary = binary
        self.n = n or NCPU
        self.env = env
        self.chunk = chunk
        self.idle_timeout = idle_timeout
        self.restarts = 0

    def run(self, tasks):
        tasks = list(tasks)
        for i, t in enumerate(tasks):
            t["id"] = i
        results = [None] * len(tasks)
        q = queue.Queue()
        for i in range(0, len(tasks), self.chunk):
            q.put(list(range(i, min(i + self.chunk, len(tasks)))))
        errs = []

        def work():
            proc = None
            try:
                while True:
                    try:
                        pending = q.get_nowait()
                    except queue.Empty:
                        break
                    while pending:
                        if proc is None or proc.poll() is not None:
                            proc = subprocess.Popen([self.binary], stdin=subprocess.PIPE, stdout=subprocess.PIPE,
                                                    stderr=subprocess.PIPE, env=self.env)
                        payload = b"".join(json.dumps(tasks[i], separators=(",", ":")).encode() + b"\n" for i in pending)

                        def feed(pr=proc, data=payload):
                            try:
                                pr.stdin.write(data)
                                pr.stdin.flush()
                            except (BrokenPipeError, OSError, ValueError):
                                pass
                        th = threading.Thread(target=feed, daemon=True)
                        th.start()
                        want = set(pending)
                        timer = threading.Timer(self.idle_timeout + 0.002 * len(payload) / 1000, proc.kill)
                        timer.start()
                        try:
                            while want:
                                line = proc.stdout.readline()
                                if not line:
                                    break
                                try:
                                    r = json.loads(line)
                                except ValueError:
                                    continue
                                i = r.get("id")
                                if i in want:
                                    want.discard(i)
                                    results[i] = r
                        finally:
                            timer.cancel()
                        if want:
                            # process died (hang/oom exit 3, runtime fatal error, or killed by timer)
                            proc.wait()
                            err = proc.stderr.read().decode(errors="replace")[-1500:]
                            self.restarts += 1
                            first = min(want)
                            done_hang = [i for i in pending if i not in want and results[i] and results[i].get("hang")]
                            if not done_hang:
                                results[first] = {"id": first, "crash": True, "exit": proc.returncode, "stderr": err}
                                want.discard(first)
                            proc = None
                        pending = sorted(want)
            except Exception as e:  # pragma: no cover
                errs.append(e)
            finally:
                if proc is not None and proc.poll() is None:
                    try:
                        proc.stdin.close()
                    except OSError:
                        pass
                    try:
                        proc.wait(timeout=5)
                    except subprocess.TimeoutExpired:
                        proc.kill()

        threads = [threading.Thread(target=work) for _ in range(min(self.n, max(1, q.qsize())))]
        for t in threads:
            t.start()
        for t in threads:
            t.join()
        if errs:
            raise InfraError("worker pool failure: %r" % errs[0])
        missing = [i for i, r in enumerate(results) if r is None]
        if missing:
            raise InfraError("worker pool lost %d results" % len(missing))
        for r in results:
            if "error" in r:
                raise InfraError("worker error: %s" % r["error"])
        return results


# --------------------------------------------------------------------------- findings / evidence / verdict

def load_findings():
    p = os.path.join(VERIF, "known_findings.json")
    if not os.path.exists(p):
        return []
    with open(p) as fh:
        return json.load(fh).get("findings", [])


def _match(pattern, sig):
    """A known finding matches when every key of its 'match' object equals (or, for lists,
    contains) the corresponding signature value."""
    for k, want in pattern.items():
        got = sig.get(k)
        if isinstance(want, list):
            if got not in want:
                return False
        elif got != want:
            return False
    return True


class Check:
    def __init__(self, prop, tier):
        self.prop = prop
        self.tier = tier
        self.t0 = time.time()
        self.cov = {"states": 0, "transitions": 0, "traces_validated_against_impl": 0, "samples": [],
                    "evaluations": 0, "distinct_nontrivial": 0, "tlc_runs": []}
        self.assumptions = []
        self.violations = []      # (signature, replay dict)
        self.known_hit = {}
        self.notes = []
        self._distinct = set()
        self.findings = [f for f in load_findings() if f.get("property") == prop and f.get("status") == "known"]

    # -- evidence accumulation
    def add_tlc(self, name, r, kind="model_checking"):
        self.cov["states"] += r.distinct
        self.cov["transitions"] += r.generated
        self.cov["tlc_runs"].append({"spec": name, "kind": kind, "distinct_states": r.distinct,
                                     "states_generated": r.generated, "depth": r.depth, "wall_s": round(r.wall, 2)})

    def count(self, n=1, key="evaluations"):
        self.cov[key] = self.cov.get(key, 0) + n

    def distinct(self, key):
        self._distinct.add(key if isinstance(key, (str, int, tuple)) else json.dumps(key, sort_keys=True))

    def sample(self, s, limit=6):
        if len(self.cov["samples"]) < limit:
            self.cov["samples"].append(s)

    def note(self, s):
        self.notes.append(s)

    # -- verdicts
    def violation(self, sig, replay):
        """sig: dict signature used for known-finding matching; replay: dict written to the replay file."""
        for f in self.findings:
            if _match(f.get("match", {}), sig):
                self.known_hit.setdefault(f["id"], [f, 0])[1] += 1
                return False
        self.violations.append((sig, replay))
        return True

    def finish(self, extra=None):
        self.cov["distinct_nontrivial"] = len(self._distinct) if self._distinct else self.cov.get("distinct_nontrivial", 0)
        if extra:
            self.cov.update(extra)
        if self.notes:
            self.cov["notes"] = self.notes[:50]
        self.cov["known_findings_hit"] = {k: v[1] for k, v in self.known_hit.items()}
        for fid, (f, n) in sorted(self.known_hit.items()):
            print("KNOWN-FINDING: property=%s %s (%d cases) %s" % (self.prop, fid, n, f.get("what", "")))
        rdir = os.path.join(VERIF, "replays", self.prop)
        seen = set()
        nviol = 0
        for sig, replay in self.violations:
            key = json.dumps(sig, sort_keys=True)
            if key in seen:
                continue
            seen.add(key)
            nviol += 1
            if nviol > 20:
                continue
            os.makedirs(rdir, exist_ok=True)
            h = hashlib.sha1(key.encode()).hexdigest()[:12]
            path = os.path.join(rdir, h + ".json")
            with open(path, "w") as fh:
                json.dump({"property": self.prop, "signature": sig, "replay": replay}, fh, indent=1, default=str)
            print("VIOLATION property=%s replay=%s" % (self.prop, path))
            print("  signature: " + key[:600])
        ev = {"property_id": self.prop, "tier": self.tier, "seed": seed(), "level": "model_checking",
              "coverage": self.cov, "assumptions": self.assumptions,
              "wall_s": round(time.time() - self.t0, 2), "violations": nviol}
        os.makedirs(os.path.join(VERIF, "evidence"), exist_ok=True)
        with open(os.path.join(VERIF, "evidence", self.prop + ".json"), "w") as fh:
            json.dump(ev, fh, indent=1, default=str)
        print("%s tier=%s seed=%d: %d evaluations, %d TLC states, %d impl traces validated, %d violations, %d known findings hit, %.1fs"
              % (self.prop, self.tier, seed(), self.cov.get("evaluations", 0), self.cov["states"],
                 self.cov["traces_validated_against_impl"], nviol, len(self.known_hit), time.time() - self.t0))
        return 1 if nviol else 0
