"""C12 - traversal presents every node exactly once, parents first, in source order.

Walk.tla (mode traverse) enumerates, for every node kind of NodeSchema, the instances (which child slots are
filled, list lengths) and prescribes the visit sequence; TLC checks TraverseOK on the specification; every
instance is built by reflection from the real pkg/ast types and traversed by the real Traverser with a
recording visitor; the recorded sequence must be the prescribed one.  On parsed trees the recorded sequence
must equal the schema-order pre-order of the tree and no node may be reachable twice."""
import json
import os

from . import core, walk, inputs, progs as progmod


def run(tier):
    check = core.Check("C12", tier)
    wp = core.WorkerPool(core.build_worker())
    walk.check_schema(wp)
    budget, maxlen = (1, 2) if tier == "quick" else (99, 2)
    inst = walk.instances("traverse", budget, maxlen, check)
    tasks = [{"op": "synth", "kind": o["kind"], "slots": o["slots"], "run": "traverse"} for o in inst]
    res = wp.run(tasks)
    kinds = set()
    for o, r in zip(inst, res):
        check.count()
        kinds.add(o["kind"])
        check.distinct((o["kind"], tuple(o["slots"])))
        if r.get("panic") or r.get("hang") or r.get("crash"):
            check.violation({"class": "crash", "kind": o["kind"], "site": r.get("site")}, {"instance": o, "observed": r})
            continue
        if r["seq"] != o["expect"] or r.get("mutated"):
            exp, got = o["expect"], r["seq"]
            missing = [x for x in exp if x not in got]
            extra = [x for x in got if got.count(x) > exp.count(x)]
            cls = "missing-child" if missing else ("duplicate-or-foreign" if extra else "order")
            if r.get("mutated"):
                cls = "mutated"
            slot = None
            for x in (missing or extra or [a for a, b in zip(exp, got) if a != b]):
                if x.startswith("N"):
                    i = int(x[1:].split(".")[0])
                    slot = walk_schema()[o["kind"]][i - 1][0]
                    break
            check.violation({"class": cls, "kind": o["kind"], "slot": slot},
                            {"instance": o, "expected": exp, "observed": got})
    # Walk.tla's derived prescriptions: the same traverser object used again; one node object in every child slot
    base = [o for o in inst if all(x in (0, 1, maxlen) for x in o["slots"])]
    t2 = [{"op": "synth", "kind": o["kind"], "slots": o["slots"], "run": "traverse", "again": True} for o in base] + \
         [{"op": "synth", "kind": o["kind"], "slots": o["slots"], "run": "traverse", "shared": True} for o in base]
    for o, t, r in zip(base + base, t2, wp.run(t2)):
        check.count()
        if r.get("panic") or r.get("hang") or r.get("crash"):
            check.violation({"class": "crash", "kind": o["kind"], "site": r.get("site")}, {"task": t, "observed": r})
            continue
        if t.get("again") and r.get("seq2") != o["expect"]:
            check.violation({"class": "traverser-object-not-reusable", "kind": o["kind"], "slot": None}, {"instance": o, "first": r.get("seq"), "second": r.get("seq2")})
        if t.get("shared"):
            exp = ["N0.0" if x.startswith("N") else x for x in o["expect"]]
            if r.get("seq") != exp:
                check.violation({"class": "shared-child-not-visited-per-slot", "kind": o["kind"], "slot": None}, {"instance": o, "expected": exp, "observed": r.get("seq")})
    check.cov["again_and_shared_instances"] = len(t2)
    check.sample({"direction": "spec->impl", "instance": inst[len(inst) // 3]})
    check.cov["kinds_covered"] = len(kinds)
    check.cov["traces_validated_against_impl"] += len(inst)

    # parsed trees: the analyze op compares the real traverser with the reflection pre-order
    progs = inputs.programs(check, tier)
    res = wp.run([{"op": "analyze", "src": p["src"], "ver": p["ver"], "kinds": True} for p in progs])
    pk = set()
    nparsed = 0
    for p, r in zip(progs, res):
        check.count()
        if str(r.get("panic") or "").startswith("verif: node of unknown kind"):
            check.violation({"class": "C12.foreign-node-kind", "kind": str(r["panic"]).split(" ")[-1], "parent": None, "role": None},
                            {"src": p["src"], "ver": p["ver"], "observed": r["panic"]})
            continue
        if r.get("panic") or r.get("hang") or r.get("crash") or not r.get("root"):
            continue      # crashes on these inputs are C01's business
        nparsed += 1
        pk.update(r.get("kinds") or [])
        check.distinct(("parsed", r.get("fp")))
        for f in r.get("fails") or []:
            if f["c"].startswith("C12."):
                check.violation({"class": f["c"], "kind": f.get("kind") or f.get("want"), "parent": f.get("parent"), "role": f.get("role")},
                                {"src": p["src"], "ver": p["ver"], "fail": f})
    # trees as the formatter leaves them (it inserts and rewrites nodes): the traverser still presents every node once, in order, and no
    # node object stands in two slots
    fsrc = [p for p in progs if "used" in p or len(p["src"]) < 3000][:: (2 if tier == "quick" else 1)]
    fsrc += [{"src": s_, "ver": "7.4"} for s_ in ["<?php echo $a ?><b>x</b>", "<?php $a; $b; ?>\n<p>t</p>\n<?php $c;", "<?php f(); g(); h(); ?>html<?php i(); j(); k(); l();",
                                                   "<html><?php foreach ($a as $b): ?><li><?= $b ?></li><?php endforeach; ?></html>", "<?php if ($a) { ?>x<?php } else { ?>y<?php } ?>z"]]
    nfmt = 0
    for p, r in zip(fsrc, wp.run([{"op": "analyze", "src": p["src"], "ver": p["ver"], "format": True, "limit_ms": 4000 + len(p["src"]) // 10} for p in fsrc])):
        check.count()
        if r.get("skip") or r.get("panic") or r.get("hang") or r.get("crash"):
            continue            # formatter crashes are C17's business
        nfmt += 1
        for f in r.get("fails") or []:
            if f["c"].startswith("C12."):
                check.violation({"class": f["c"] + "-after-format", "kind": f.get("kind") or f.get("want"), "parent": f.get("parent"), "role": f.get("role")},
                                {"src": p["src"], "ver": p["ver"], "fail": f})
    check.cov["formatted_trees_traversed"] = nfmt
    # every operator nested in itself in every operand position (SyntaxGen self-nesting mode, exhaustive): a traverser method that
    # keeps state across its own recursion shows here
    for family in ("7", "5"):
        tab, bs, ops = progmod.nesting_operator_programs(check, family, core.seed(), 4 if tier == "quick" else 5)
        ex = progmod.expand_all(tab, bs, core.seed(), ["none"])
        srcs = [e["variants"][0]["src"] for e in ex if not e.get("skip")]
        ver = progmod.VERS[family][0]
        for src, r in zip(srcs, wp.run([{"op": "analyze", "src": s_, "ver": ver} for s_ in srcs])):
            check.count()
            if r.get("panic") or r.get("hang") or r.get("crash") or not r.get("root"):
                continue
            nparsed += 1
            for f in r.get("fails") or []:
                if f["c"].startswith("C12."):
                    check.violation({"class": f["c"], "kind": f.get("kind") or f.get("want"), "parent": f.get("parent"), "role": f.get("role")},
                                    {"src": src, "ver": ver, "fail": f})
        check.cov["operator_nestings_%s" % family] = len(srcs)
    # pairs of statements: the tree of "A B" consists of the trees of A and of B, and shares no node (parser actions that leave
    # something behind for a later production)
    for family in ("7", "5"):
        for a, b, ver, what, detail in progmod.statement_pairs(check, wp, family, core.seed(), 20000 if tier == "quick" else 300000):
            if what == "shared-node":
                check.violation({"class": "C12.shared-node", "kind": str(detail).split(" ")[0], "parent": str(detail).split(" of ")[-1], "role": "pair"},
                                {"src": "<?php " + a + "\n" + b, "ver": ver, "detail": detail})
    # the obligation LRValues.tla puts on grammar actions (every empty / error production whose value is read assigns $$): a stale
    # value there puts a node of an EARLIER construct into the tree (foreign text, a node reachable twice, PHP 5 != PHP 7)
    from . import yaccobl
    for fam_ in ("7", "5"):
        for sig_, rep_ in yaccobl.check_family(check, fam_):
            check.violation(sig_, rep_)
    check.cov["parsed_trees"] = nparsed
    check.cov["kinds_in_parsed_trees"] = len(pk)
    check.assumptions += ["NodeSchema.tla (frozen, compared with pkg/ast at run time): field order is source order",
                          "synthetic children are *ast.Identifier markers; instances bounded to list length <= %d" % maxlen]
    return check.finish({"exhaustive": True,
                         "rule": "every kind x (baseline all-present/all-absent with <=%s deviating slots) x list lengths 0..%d; "
                                 "distinct = distinct (kind, slot contents) instances and distinct parsed trees" % (budget if budget < 99 else "all", maxlen)})


_schema = None


def walk_schema():
    global _schema
    if _schema is None:
        _schema = json.load(open(os.path.join(core.SPEC, "nodeschema.json")))
    return _schema
