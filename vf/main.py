"""Entry point: python3 -m vf.main check <ID> [--tier quick|thorough]  |  replay <path>"""
import importlib
import json
import os
import sys
import traceback

from . import core


def main(argv):
    if len(argv) < 2:
        print("usage: check <ID> [--tier quick|thorough] | replay <path>")
        return 2
    cmd = argv[0]
    tier = os.environ.get("VERIF_TIER", "quick")
    if "--tier" in argv:
        tier = argv[argv.index("--tier") + 1]
    if tier not in ("quick", "thorough"):
        tier = "quick"
    try:
        if cmd == "check":
            mod = importlib.import_module("vf." + argv[1].lower())
            return mod.run(tier)
        if cmd == "replay":
            with open(argv[1]) as fh:
                rep = json.load(fh)
            mod = importlib.import_module("vf." + rep["property"].lower())
            if hasattr(mod, "replay"):
                return mod.replay(rep)
            print(json.dumps(rep, indent=1))
            return 0
    except core.InfraError as e:
        print("INFRASTRUCTURE PROBLEM (exit 2, not a verdict): %s" % e)
        return 2
    except Exception:
        traceback.print_exc()
        print("INFRASTRUCTURE PROBLEM (exit 2, not a verdict): unexpected exception")
        return 2
    return 2


if __name__ == "__main__":
    sys.exit(main(sys.argv[1:]))
