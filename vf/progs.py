"""Generated programs: SyntaxGen.tla derivations -> rendered sources + expectations -> worker results.
Shared by C02, C03, C05, C08, C10, C17 (each check filters the facts that belong to its property)."""
import json
import multiprocessing
import random
import re

from . import core, syntax

VERS = {"7": ["7.4", "7.0", "7.3", "7.2", "7.1"], "5": ["5.6", "5.0", "5.4", "5.3"]}

STRUCT = {"kind", "missing-child", "extra-child", "list-length", "value", "extra-value", "missing-token", "extra-token",
          "separator-count", "missing-node"}
TOKEN = {"token-offset", "ff-count", "ff-class", "ff-offset"}
SPAN = {"span-start", "span-end", "span-line", "span-missing"}

_G = {}


def _init(table):
    _G["table"] = table


def _expand(args):
    """(behaviour, seed, layout names) -> list of rendered variants of one derivation"""
    beh, seed, layouts = args
    rng = random.Random(seed)
    try:
        P = syntax.Program(_G["table"], beh, rng)
    except syntax.Skip:
        return {"skip": True}
    except Exception as e:      # pragma: no cover - expander bug
        return {"error": repr(e), "beh": beh}
    out = []
    for name in layouts:
        if name == "random":
            lay = syntax.layout_random(random.Random(seed + 1))
        elif name.startswith("gap:"):
            _, g, rec = name.split(":")
            lay = syntax.layout_one_gap(int(g), rec)
        else:
            lay = syntax.layout_uniform(name)
        src = P.render(lay)
        out.append({"layout": name, "src": src.decode("latin-1"), "exp": P.expected()})
    return {"used": sorted(set(P.used)), "ntok": len(P.toks), "variants": out, "gaps": P.gaps()}


def expand_all(table, behs, seed, layouts):
    args = [(b, seed * 1000003 + i, layouts) for i, b in enumerate(behs)]
    with multiprocessing.Pool(min(core.NCPU, 16), initializer=_init, initargs=(table,)) as pool:
        res = pool.map(_expand, args, chunksize=64)
    for r in res:
        if "error" in r:
            raise core.InfraError("expander failed on a derivation: %s" % r["error"])
    return res


def drop_skipped(behs, ex):
    keep = [(b, e) for b, e in zip(behs, ex) if not e.get("skip")]
    return [b for b, _ in keep], [e for _, e in keep]


def slot_of(path):
    last = path.split(".")[-1]
    return re.sub(r"\[\d+\]$", "", last)


def parent_slot(path):
    parts = path.split(".")
    return re.sub(r"\[\d+\]$", "", parts[-2]) if len(parts) > 1 else ""


def run_programs(check, wp, family, behs, table, seed, layouts, vers=None):
    """Expands, renders and parses every derivation; yields (meta, result) pairs."""
    ex = expand_all(table, behs, seed, layouts)
    behs, ex = drop_skipped(behs, ex)
    vers = vers or VERS[family][:1]
    tasks, metas = [], []
    for i, (b, e) in enumerate(zip(behs, ex)):
        for k, var in enumerate(e["variants"]):
            for ver in (vers if k == 0 else vers[:1]):
                tasks.append({"op": "cmp_tree", "src": var["src"], "ver": ver, "exp": var["exp"]})
                metas.append({"i": i, "layout": var["layout"], "ver": ver, "used": e["used"], "family": family, "ntok": e["ntok"]})
    res = wp.run(tasks)
    return [(m, t, r) for m, t, r in zip(metas, tasks, res)]


def halt_programs(check, wp, family, seed, layouts, vers=None, num=40):
    """programs with the other two root forms of Syntax.tla:  <statement> __halt_compiler ( ) ; <raw data>  (root category
    "toplast")  and files made of bracketed namespaces only (root category "nsonly")"""
    out = []
    for k, (rootcat, rootmax, depth) in enumerate((("toplast", 1, 2), ("nsonly", 2, 3))):
        table, behs = syntax.generate(check, family, rootcat=rootcat, rootmax=rootmax, num=num, seed=seed + 9, depth=depth)
        res = run_programs(check, wp, family, behs, table, seed, layouts, vers)
        for m, t, r in res:
            m["i"] += 1000000 * (k + 1)
        out += res
    return out


def _needed_cats(fill):
    out = set()
    for x in fill.values():
        if not isinstance(x, dict):
            continue
        f = x.get("f")
        if f in ("ch", "ls"):
            out.add(x["cat"])
        elif f == "nd":
            out |= _needed_cats(x["fill"])
        elif f == "sq":
            for it in x["items"]:
                out |= _needed_cats({"_": it})
    return out


def chain_set(table, fams=("both",)):
    """the access-chain fragment of Syntax.tla: every atom-level expression variant (variables, fetches, calls, new,
    strings ...) of the given families, closed under 'every category a variant mentions is inhabited'"""
    byid = {v["id"]: v for v in table["variants"]}
    ids = {v["id"] for v in table["variants"]
           if v["fam"] in fams and ((v["lvl"] == 30 and "expr" in v["cats"]) or set(v["cats"]) & {"deref", "var", "callee", "classref", "propchain", "litderef"})}
    ids |= {"StmtExpression", "Name", "NamePart", "Argument", "ScalarLnumber"}
    changed = True
    while changed:
        changed = False
        cats = set()
        for i in ids:
            cats |= set(byid[i]["cats"])
        for i in sorted(ids):
            if not _needed_cats(byid[i]["fill"]) <= cats:
                ids.discard(i)
                changed = True
    return sorted(ids)


def chain_programs(check, wp, family, seed, layouts, vers, maxchoices, fams=("both",)):
    """all expression statements built from the access-chain fragment with a derivation of <= maxchoices choices (TLC, exhaustive)"""
    table, _ = syntax.generate(check, family, num=1, seed=seed, depth=1)
    table, behs = syntax.generate(check, family, rootcat="stmt", rootmax=1, depth=4, allowed=chain_set(table, fams),
                                  exhaustive=True, maxchoices=maxchoices, timeout=2400)
    res = run_programs(check, wp, family, behs, table, seed, layouts, vers)
    for m, t, r in res:
        m["i"] += 4000000
    return res


def statement_pairs(check, wp, family, seed, npairs, maxchoices=6):
    """Sequences of two statements are parsed as the two statements: every short statement of the access-chain fragment (TLC,
    exhaustive) is rendered alone, pairs of them are rendered one after the other, and the pair's tree must consist of the two
    single trees (structure and values; no node shared).  A parser action that leaves something behind on the value stack
    for a later, unrelated production shows here.  Returns list of (A, B, ver, what, detail)."""
    import random as _r
    rng = _r.Random(seed * 977 + (5 if family == "5" else 7))
    table, _ = syntax.generate(check, family, num=1, seed=seed, depth=1)
    fams = ("both", "7", "7g") if family == "7" else ("both", "5")
    table, behs = syntax.generate(check, family, rootcat="stmt", rootmax=1, depth=4, allowed=chain_set(table, fams), exhaustive=True,
                                  maxchoices=maxchoices, timeout=2400)
    ex = expand_all(table, behs, seed, ["none"])
    singles = sorted({e["variants"][0]["src"][len("<?php "):] for e in ex if not e.get("skip") and "?>" not in e["variants"][0]["src"]})
    ver = VERS[family][0]
    sres = wp.run([{"op": "stmt_fps", "src": "<?php " + s, "ver": ver, "path": ["Stmts"]} for s in singles])
    fp = {s: r["fps"][0][1] for s, r in zip(singles, sres)
          if not (r.get("panic") or r.get("hang") or r.get("crash")) and r.get("nerr", 1) == 0 and r.get("path_ok") and len(r.get("fps") or []) == 1}
    good = sorted(fp)
    # first statements that leave much behind on the parser's stacks (long chains, lists, arguments, strings): each of them in
    # front of a sample of all statements; plus random pairs
    polluters = sorted(good, key=lambda x: (-x.count("->") - x.count("[") - x.count("(") - x.count(",") - x.count("$"), x))[:25] + rng.sample(good, min(15, len(good)))
    seconds = rng.sample(good, min(len(good), max(1, npairs // 2 // len(polluters))))
    pairs = [(a, b) for a in polluters for b in seconds] + [(rng.choice(good), rng.choice(good)) for _ in range(npairs // 2)]
    pres = wp.run([{"op": "stmt_fps", "src": "<?php " + a + "\n" + b, "ver": ver, "path": ["Stmts"]} for a, b in pairs])
    bad = []
    for (a, b), r in zip(pairs, pres):
        check.count()
        if r.get("panic") or r.get("hang") or r.get("crash"):
            continue
        if r.get("nerr", 1) > 0 or not r.get("path_ok"):
            bad.append((a, b, ver, "sequence-of-valid-statements-rejected", r.get("nerr")))
        else:
            if [x[1] for x in r["fps"]] != [fp[a], fp[b]]:
                bad.append((a, b, ver, "sequence-not-the-two-statements", [x[2] for x in r["fps"]]))
            if r.get("shared"):
                bad.append((a, b, ver, "shared-node", r["shared"]))
    check.cov["statement_pairs_%s" % family] = len(pairs)
    check.cov["single_statements_%s" % family] = len(good)
    return bad


DEEP_SET = ["StmtStmtList", "StmtIf/else", "StmtElse", "StmtIf", "StmtWhile", "StmtWhile/alt", "StmtDo", "StmtFor/alt", "StmtForeach/alt", "StmtSwitch",
            "StmtCase", "StmtDefault", "StmtTry", "StmtCatch", "StmtTry/finally", "StmtFinally", "StmtFunction", "StmtClass", "StmtClassMethod",
            "StmtDeclare/block", "ExprClosure", "StmtExpression", "StmtEcho", "StmtReturn/expr", "ExprVariable", "ScalarLnumber", "Name", "NamePart",
            "Parameter", "ExprAssign", "ExprArray/short", "ExprArrayItem"]


def deep_programs(check, wp, family, seed, num, depth=14, layouts=("none",), vers=None):
    """the same derivations as deep_sources, run like every other generated program (expected tree, spans, printing)"""
    table, behs = _deep_derivations(check, family, seed, num, depth)
    res = run_programs(check, wp, family, behs, table, seed, list(layouts), vers or VERS[family][:1])
    for m, t, r in res:
        m["i"] += 7000000
    return res


def _deep_derivations(check, family, seed, num, depth):
    table, _ = syntax.generate(check, family, num=1, seed=seed, depth=1)
    byid = {v["id"]: v for v in table["variants"]}
    ids = {i for i in DEEP_SET if i in byid and byid[i]["fam"] in ("both", family)}
    for _ in range(30):                      # close under "every category mentioned is inhabited" by adding leaf variants
        cats = set()
        for i in ids:
            cats |= set(byid[i]["cats"])
        if "stmt" in cats:
            cats |= {"inner"}
        missing = set()
        for i in ids:
            missing |= _needed_cats(byid[i]["fill"]) - cats
        if not missing:
            break
        for c in sorted(missing):
            cand = [v["id"] for v in table["variants"] if c in v["cats"] and v["leaf"] and v["fam"] in ("both", family)] or \
                   [v["id"] for v in table["variants"] if c in v["cats"] and v["fam"] in ("both", family)]
            if cand:
                ids.add(cand[0])
    return syntax.generate(check, family, rootcat="stmt", rootmax=1, depth=depth, num=num, seed=seed + 41, allowed=sorted(ids), maxchoices=250)


def deep_sources(check, family, seed, num, depth=14):
    """programs nested many blocks deep (SyntaxGen with a large depth budget over the block-forming variants only)"""
    table, behs = _deep_derivations(check, family, seed, num, depth)
    ex = expand_all(table, behs, seed, ["none"])
    out = [e["variants"][0]["src"] for e in ex if not e.get("skip")]
    return sorted(set(out), key=lambda x: -len(x))


def token_mutations(check, family, seed, nprogs, per=6):
    """near-valid programs: token-level edits (delete, duplicate, swap neighbours, replace by another token of the same program,
    truncate after a token) of SyntaxGen derivations rendered with single blanks.  They reach the error paths of grammar actions
    and of the recovery that byte-level noise rarely reaches.  Returns list of bytes."""
    import random as _r
    rng = _r.Random(seed * 131 + (5 if family == "5" else 7))
    table, behs = syntax.generate(check, family, num=nprogs, seed=seed + 51, depth=3)
    out = []
    for i, b in enumerate(behs):
        try:
            P = syntax.Program(table, b, _r.Random(seed * 17 + i))
        except syntax.Skip:
            continue
        P.render(syntax.layout_uniform("none"))
        toks = [t.text for t in P.toks]
        if len(toks) < 2:
            continue
        for _ in range(per):
            k = rng.randrange(len(toks))
            t2 = list(toks)
            op = rng.randrange(5)
            if op == 0:
                del t2[k]
            elif op == 1:
                t2.insert(k, t2[k])
            elif op == 2 and k + 1 < len(t2):
                t2[k], t2[k + 1] = t2[k + 1], t2[k]
            elif op == 3:
                t2[k] = toks[rng.randrange(len(toks))]
            else:
                t2 = t2[:k + 1]
            out.append(b"<?php " + b" ".join(t2))
    return list(dict.fromkeys(out))


def retain_results(check, wp, programs, seed, n, k=12):
    """a tree stays what it was while other inputs are parsed afterwards (incl. garbage collections): n tasks, each one program
    followed by k others of both families.  Returns list of (task, result) for the tasks that ran."""
    import random as _r
    rng = _r.Random(seed * 271 + 9)
    progs_ = [p for p in programs if len(p["src"]) < 4000]
    tasks = []
    for _ in range(n):
        first = rng.choice(progs_)
        others = [rng.choice(progs_) for _ in range(k)]
        tasks.append({"op": "retain_check", "src": first["src"], "ver": first["ver"], "limit_ms": 20000,
                      "others": [{"src": o["src"], "ver": o["ver"]} for o in others]})
    out = []
    for t, r in zip(tasks, wp.run(tasks)):
        if r.get("panic") or r.get("hang") or r.get("crash") or r.get("skip"):
            continue
        check.count()
        out.append((t, r))
    return out


NOT_SCALABLE = {"heredoc/empty", "nowdoc/empty", "stmt+halt"}     # D6 (known finding) / must be last


_ENDS_HTML = re.compile(r"(</b>\n|\?>(\r\n|\n|\r)?)\Z")


def join_programs(srcs):
    """one source from many rendered programs ("<?php " + body each); a program that ends in inline HTML or in a close tag
    leaves the scanner in HTML mode, so the next one keeps its open tag"""
    acc = []
    for s in srcs:
        acc.append(s if not acc or _ENDS_HTML.search(acc[-1]) else "\n" + s[len("<?php "):])
    return "".join(acc)


def scaled_sources(check, family, seed, num, sizes):
    """sources of many thousand tokens (several 1024-entry pool blocks) built from SyntaxGen derivations under the random layout"""
    table, behs = syntax.generate(check, family, num=num, seed=seed + 21, depth=3)
    ex = expand_all(table, behs, seed, ["random"])
    behs, ex = drop_skipped(behs, ex)
    big = [e["variants"][0]["src"] for e in ex if not (NOT_SCALABLE & set(e["used"]))]
    return [join_programs(big[:k]) for k in sizes if k <= len(big)] + [join_programs(big)]


def coverage(table, family, results):
    ids = [v["id"] for v in table["variants"] if v["fam"] in ("both", family, family + "g")]
    used = set()
    for m, t, r in results:
        used.update(m["used"])
    return len(ids), sorted(set(ids) - used)


# ---------------------------------------------------------------------------- long lists, self-nesting

def _incat(v, c):
    cats = set(v["cats"])
    return (c in cats or (c == "inner" and "stmt" in cats) or (c == "nsitem" and cats & {"stmt", "inner"})
            or (c == "top" and cats & {"stmt", "inner", "toponly"}) or (c == "top1" and cats & {"stmt", "inner", "toponly", "toponly_first"}))


def _requests(fill):
    """child requests of a variant's fill: list of (cat, minlevel, lo) in any order"""
    out = []
    for x in fill.values():
        if not isinstance(x, dict):
            continue
        f = x.get("f")
        if f == "ch":
            out.append((x["cat"], x.get("min", 0), 1))
        elif f == "ls":
            out.append((x["cat"], x.get("min", 0), x.get("lo", 0)))
        elif f == "nd":
            out += _requests(x["fill"])
        elif f == "sq":
            for it in x["items"]:
                out += _requests({"_": it})
    return out


WRAPPERS = ("StmtExpression", "ExprBrackets", "ExprFunctionCall", "Argument", "StmtStmtList", "ExprArray/short", "ExprArrayItem", "ExprClosure")


def glue_set(table, family, wrappers=WRAPPERS):
    """the glue of SyntaxGen's self-nesting mode: for every category the cheapest variant that can close a derivation
    (fixpoint of 1 + the cost of the mandatory children), plus a few wrappers through which a construct can contain itself"""
    fams = ("both", "7", "7g") if family == "7" else ("both", family)
    vs = [v for v in table["variants"] if v["fam"] in fams]
    cats = set()
    for v in vs:
        cats |= set(v["cats"])
        for c, _, _ in _requests(v["fill"]):
            cats.add(c)
    cats |= {"inner", "nsitem", "top", "top1"}
    INF = 10 ** 6
    cost = {v["id"]: INF for v in vs}
    best = {}

    def catcost(c, m):
        k = [(cost[v["id"]], v["id"]) for v in vs if _incat(v, c) and v["lvl"] >= m]
        return min(k) if k else (INF, None)
    for _ in range(40):
        changed = False
        for v in vs:
            t = 1
            for c, m, lo in _requests(v["fill"]):
                if lo > 0:
                    t += lo * catcost(c, m)[0]
            t = min(t, INF)
            if t < cost[v["id"]]:
                cost[v["id"]] = t
                changed = True
        if not changed:
            break
    glue = set()
    todo = [(c, 0) for c in cats] + [(c, m) for v in vs for c, m, lo in _requests(v["fill"])]
    for c, m in todo:
        k, vid = catcost(c, m)
        if vid is not None and k < INF:
            glue.add(vid)
    byid = {v["id"]: v for v in vs}
    glue |= {w for w in wrappers if w in byid}
    # close: the mandatory children of a glue variant need their closers too (already in by construction of todo)
    return sorted(glue)


def self_nesting_programs(check, family, seed, num, weight=5, depth=4):
    """SyntaxGen's self-nesting mode (simulation): derivations that use ONE variant V (any number of times, at most `weight` nodes
    that are not closers) and glue only - V inside V through brackets, call arguments, array items, blocks, closures, or directly.
    Only derivations in which V occurs at least twice are kept."""
    table, _ = syntax.generate(check, family, num=1, seed=seed, depth=1)
    g = glue_set(table, family)
    table, behs = syntax.generate(check, family, rootcat="stmt", rootmax=1, depth=depth, num=num, seed=seed + 41, maxchoices=weight, glue=g,
                                  wrappers=[w for w in WRAPPERS if w in g], timeout=900)
    gs = set(g)
    vs = table["variants"]
    keep = [b for b in behs if len([1 for c in b["choices"][1:] if vs[c[0] - 1]["id"] not in gs]) >= 2]
    return table, keep, g


def long_list_programs(check, family, seed, num, lens=(4, 5, 6, 7, 8, 9)):
    """SyntaxGen's long-list mode (simulation): every repeatable list has 4 .. 9 items"""
    return syntax.generate(check, family, rootcat="top", rootmax=1, depth=2, num=num, seed=seed + 31, listlens=list(lens))


def nesting_operator_programs(check, family, seed, weight):
    """SyntaxGen's self-nesting mode, EXHAUSTIVE over the operator fragment: for every operator variant V (binary, assignment, unary,
    cast, ternary ...) all derivations with at most `weight` nodes that are V, brackets or a call - V in every operand position of V,
    directly, in brackets and in a call argument"""
    table, _ = syntax.generate(check, family, num=1, seed=seed, depth=1)
    fams = ("both", "7", "7g") if family == "7" else ("both", family)
    ops = [v["id"] for v in table["variants"] if v["fam"] in fams and "expr" in v["cats"] and v["lvl"] < 30 and not v["leaf"]
           and all(c == "expr" for c, _, _ in _requests(v["fill"]))]
    glue = ["StmtExpression", "ExprBrackets", "ExprFunctionCall", "Argument", "ExprVariable", "Name", "NamePart"]
    table, behs = syntax.generate(check, family, rootcat="stmt", rootmax=1, depth=weight + 3, exhaustive=True, maxchoices=weight, allowed=ops + glue,
                                  glue=glue, wrappers=["ExprBrackets", "ExprFunctionCall"], timeout=2400)
    return table, behs, ops


FAMILIES = {
    "if": ("StmtIf", "StmtElse", "StmtElseIf"),
    "loop": ("StmtWhile", "StmtFor", "StmtForeach", "StmtDo"),
    "try": ("StmtTry", "StmtCatch", "StmtFinally"),
    "switch": ("StmtSwitch", "StmtCase", "StmtDefault"),
}


def _cheapest_closers(table, family, ids):
    """one closing variant per category that the variants `ids` (and the closers themselves) ask for: the cheapest one"""
    fams = ("both", "7", "7g") if family == "7" else ("both", family)
    vs = [v for v in table["variants"] if v["fam"] in fams]
    INF = 10 ** 6
    cost = {v["id"]: INF for v in vs}

    def catcost(c, m):
        k = [(cost[v["id"]], not v["leaf"], len(_requests(v["fill"])), v["id"]) for v in vs if _incat(v, c) and v["lvl"] >= m]
        if not k:
            return (INF, None)
        best = min(k)
        return (best[0], best[3])
    for _ in range(40):
        changed = False
        for v in vs:
            t = 1
            for c, m, lo in _requests(v["fill"]):
                if lo > 0:
                    t += lo * catcost(c, m)[0]
            t = min(t, INF)
            if t < cost[v["id"]]:
                cost[v["id"]] = t
                changed = True
        if not changed:
            break
    byid = {v["id"]: v for v in vs}
    closers, todo, seen = set(), [r for i in ids for r in _requests(byid[i]["fill"])], set()
    while todo:
        c, m, lo = todo.pop()
        if (c, m) in seen:
            continue
        seen.add((c, m))
        k, vid = catcost(c, m)
        if vid is None or k >= INF:
            continue
        if vid not in ids:
            closers.add(vid)
            todo += _requests(byid[vid]["fill"])
    return sorted(closers)


def family_nesting(check, family, fam_name, weight, seed=1):
    """SyntaxGen's self-nesting mode with a FAMILY as the focus, exhaustive: every mix of the family's variants (e.g. all forms of
    if / elseif / else, plain and alternative syntax) nested in each other, up to `weight` family nodes; conditions and bodies are
    closed by ONE cheapest variant per category (a variable, `break;` ...)"""
    table, _ = syntax.generate(check, family, num=1, seed=seed, depth=1)
    fams = ("both", "7", "7g") if family == "7" else ("both", family)
    ids = [v["id"] for v in table["variants"] if v["fam"] in fams and v["id"].split("/")[0] in FAMILIES[fam_name]]
    g = _cheapest_closers(table, family, ids)
    return syntax.generate(check, family, rootcat="stmt", rootmax=1, depth=weight + 2, exhaustive=True, maxchoices=weight, allowed=ids + g, glue=g, wrappers=[],
                           focusfamily=ids, timeout=600)
