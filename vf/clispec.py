"""cmd/php-parser as a concurrent system: Cli.tla / CliTrace.tla bound to the real binary (built with the verif hooks).

  model_check     TLC on Cli.tla: invariants + termination under fairness; the two named deviations must violate them (anti-vacuity)
  schedules       complete behaviours of Cli.tla (simulation), as lists of action labels
  replay          spec -> impl: the binary is forced through a schedule by the gates of the hook file; the recorded actions must be
                  the schedule, and every file's outputs must be what the library yields for that file alone
  validate        impl -> spec: free-running traced runs; CliTrace.tla decides whether some linearisation of the recorded
                  per-goroutine action sequences (respecting the recorded real-time order) is a behaviour of Cli.tla, with
                  the addresses of the per-file objects (source buffer, root node, error slice) as arguments
"""
import json
import os
import shutil
import subprocess
import tempfile

from . import core, cli

_built = {}

INVS = "TypeOK WgCounts Conservation OnceEach PrintsOwn Ownership ExitComplete NoSendOnClosed"


def build(race=False):
    key = "race" if race else "plain"
    if key not in _built:
        os.makedirs(core.BUILD, exist_ok=True)
        out = os.path.join(core.BUILD, "php-parser-verif" + ("-race" if race else ""))
        cmd = ["go", "build", "-tags", "verif"] + (["-race"] if race else []) + ["-o", out, "./cmd/php-parser"]
        p = subprocess.run(cmd, cwd=core.REPO, env=core.goenv(), stdout=subprocess.PIPE, stderr=subprocess.STDOUT, text=True)
        if p.returncode != 0:
            raise core.InfraError("cmd/php-parser (tag verif) does not build:\n" + p.stdout[-3000:])
        _built[key] = out
    return _built[key]


def cfg(f, nw, cap, nobj=None, dev="none", pick=False, spec="Spec", invs=INVS, extra=""):
    nobj = nobj or 3 * (2 * cap + nw + 2)
    return ("SPECIFICATION %s\nCONSTANTS F = %d NW = %d Cap = %d NObj = %d Deviation = \"%s\" PickAny = %s\nINVARIANTS %s\n"
            "VIEW view\nCHECK_DEADLOCK FALSE\n%s" % (spec, f, nw, cap, nobj, dev, "TRUE" if pick else "FALSE", invs, extra))


def model_check(check, tier):
    confs = [(2, 2, 2), (3, 2, 1)] if tier == "quick" else [(2, 2, 2), (3, 2, 1), (3, 2, 2), (3, 3, 1), (4, 2, 2)]
    for f, nw, cap in confs:
        r = core.tlc("Cli", cfg(f, nw, cap, spec="FairSpec", extra="PROPERTY Terminates\n"), timeout=1500)
        check.add_tlc("Cli(F=%d,NW=%d,Cap=%d) invariants + Terminates" % (f, nw, cap), r)
    # the invariants are not vacuous: each named deviation (which the code does not have) violates them
    for dev in ("recycle", "workererrs"):
        for inv in ("Ownership", "PrintsOwn"):
            r = core.tlc("Cli", cfg(3, 2, 2, dev=dev, invs=inv), allow_violation=True, timeout=600)
            if r.violated != inv:
                raise core.InfraError("Cli.tla: deviation %s does not violate %s (%s) - the invariant is vacuous" % (dev, inv, r.violated))
            check.add_tlc("Cli deviation %s violates %s (expected)" % (dev, inv), r, kind="anti-vacuity")


def schedules(check, f, nw, cap, num, seed):
    """complete behaviours (label lists) of Cli.tla by simulation; de-duplicated"""
    c = cfg(f, nw, cap, invs="TypeOK Emit")
    r = core.tlc("Cli", c.replace("VIEW view\n", ""), simulate={"num": num, "depth": 12 * f + 8}, seed_=seed, timeout=600)
    check.add_tlc("Cli(F=%d,NW=%d,Cap=%d) simulated behaviours" % (f, nw, cap), r, kind="simulation")
    out = set()
    for o in r.out:
        if isinstance(o, dict) and "sched" in o:
            out.add(tuple(lab(x) for x in o["sched"]))
    return [list(s) for s in sorted(out)]


def counterexample_schedules(check):
    """TLC's counterexamples for the two named deviations (behaviours that end in an output showing another file's data), as
    schedules: if the code had the deviation, forcing the real binary through them would show it in the outputs"""
    import re
    out = []
    for dev in ("recycle", "workererrs"):
        r = core.tlc("Cli", cfg(3, 2, 2, dev=dev, invs="PrintsOwnCex").replace("VIEW view\n", ""), workers=1, allow_violation=True, timeout=600)
        if r.violated != "PrintsOwnCex":
            raise core.InfraError("Cli.tla: no counterexample for deviation %s" % dev)
        check.add_tlc("Cli deviation %s: counterexample to PrintsOwn (schedule for replay)" % dev, r, kind="counterexample")
        cex = [o["cex"] for o in r.out if isinstance(o, dict) and "cex" in o]
        if not cex:
            raise core.InfraError("Cli.tla: counterexample without a schedule")
        sched = [lab(x) for x in cex[0]]
        if len(sched) < 8:
            raise core.InfraError("Cli.tla: counterexample schedule not understood: %r" % cex[0])
        out.append((dev, sched))
    return out


def lab(x):
    if x[0] == "w":
        return "w%d:%s" % (x[1], x[2])
    return "%s:%s" % (x[0], x[1])


def parse_log(text, names):
    """-> dict(events=[...completed actions...], stall=cursor or None).  event: actor key, act, f, objs, b, e"""
    idx = {n: i + 1 for i, n in enumerate(sorted(names))}
    open_ = {}
    evs = []
    stall = None
    last = 0
    for line in text.splitlines():
        if not line.strip():
            continue
        try:
            d = json.loads(line)
        except ValueError:
            continue      # a torn last line (the process exits while a goroutine is writing)
        if "stall" in d:
            stall = d["stall"]
            continue
        actor = d["actor"]
        key = "m" if actor in ("walker", "main") else ("p" if actor == "printer" else "w%d" % d["id"])
        if d.get("begin"):
            open_[key] = (d["seq"], d["act"])
            continue
        b = open_.pop(key, (d["seq"], d["act"]))[0]
        evs.append({"key": key, "act": d["act"], "f": idx.get(os.path.basename(d.get("path") or ""), 0), "objs": d.get("objs") or [], "b": b, "e": d["seq"],
                    "label": ("w%d" % d["id"] if actor == "w" else actor) + ":" + d["act"]})
        last = d["seq"]
    # The process ends when main returns.  A worker whose send on the result channel had been accepted (the printer took the
    # result: otherwise main could not have returned) may not have run again to log the end of that action: it is an action
    # that began, took effect, and whose end is unknown (later than everything recorded).  A begun take / ptake without an
    # end took nothing (its file would never have been printed).
    for key, (bseq, act) in sorted(open_.items()):
        if act == "rsend" and key.startswith("w"):
            mine = [e for e in evs if e["key"] == key]
            if mine and mine[-1]["act"] == "parse":
                last += 1
                evs.append({"key": key, "act": "rsend", "f": mine[-1]["f"], "objs": [], "b": bseq, "e": last, "label": key + ":rsend", "end_unknown": True})
    return {"events": evs, "stall": stall}


def to_trace(evs, nw):
    """per-goroutine sequences with need vectors and renamed objects; returns (trace, nobj)"""
    keys = ["m", "p"] + ["w%d" % i for i in range(1, nw + 1)]
    per = {k: [] for k in keys}
    for e in evs:
        if e["key"] in per:
            per[e["key"]].append(e)
    ren = {}

    def oid(a):
        if a == 0:
            return 0
        if a not in ren:
            ren[a] = len(ren) + 1
        return ren[a]
    ends = {k: [e["e"] for e in per[k]] for k in keys}
    import bisect

    def conv(e):
        need = [bisect.bisect_left(ends[k], e["b"]) for k in keys]       # events of k that ended before this one began
        objs = [oid(a) for a in e["objs"]]
        if e["act"] in ("add", "take") and not objs:
            objs = [0]
        if e["act"] == "parse":
            objs = (objs + [0, 0, 0])[:3]
        return {"act": e["act"], "f": e["f"], "objs": objs, "need": need}
    tr = {"m": [conv(e) for e in per["m"]], "p": [conv(e) for e in per["p"]], "w": [[conv(e) for e in per["w%d" % i]] for i in range(1, nw + 1)]}
    return tr, len(ren)


def run_traced(binary, files, flags, ver, procs, sched=None, timeout=120, stall_ms=4000, env_extra=None):
    d = tempfile.mkdtemp(prefix="vfclit-")
    try:
        src = os.path.join(d, "src")
        os.mkdir(src)
        for name, data in files:
            with open(os.path.join(src, name), "wb") as fh:
                fh.write(data)
        env = dict(os.environ, GOMAXPROCS=str(procs), VERIF_CLI_TRACE=os.path.join(d, "trace.ndjson"), VERIF_CLI_STALL_MS=str(stall_ms))
        if sched is not None:
            with open(os.path.join(d, "sched.json"), "w") as fh:
                json.dump(sched, fh)
            env["VERIF_CLI_SCHED"] = os.path.join(d, "sched.json")
        env.update(env_extra or {})
        try:
            p = subprocess.run([binary] + flags + ["-phpver", ver, src], stdout=subprocess.PIPE, stderr=subprocess.PIPE, env=env, timeout=timeout)
        except subprocess.TimeoutExpired:
            raise core.InfraError("traced cmd/php-parser did not finish within %ds (flags %s, %d files)" % (timeout, flags, len(files)))
        after = {}
        for name, _ in files:
            with open(os.path.join(src, name), "rb") as fh:
                after[name] = fh.read()
        with open(os.path.join(d, "trace.ndjson"), errors="replace") as fh:
            log = fh.read()
        return p.returncode, p.stdout, p.stderr.decode("latin-1"), after, log
    finally:
        shutil.rmtree(d, ignore_errors=True)


def validate_batch(check, traces, f, nw, cap, nobj, label, expect_accept=True):
    """traces: list of trace dicts with the same (F, NW).  Returns (accepted_all, report)"""
    c = ("SPECIFICATION TSpec\nCONSTANTS F = %d NW = %d Cap = %d NObj = %d Deviation = \"none\" PickAny = TRUE\n"
         "INVARIANTS %s\nCONSTRAINT HighWater\nPOSTCONDITION Accepted\nVIEW tview\nCHECK_DEADLOCK FALSE\n" % (f, nw, cap, max(nobj, 1), INVS))
    r = core.tlc("CliTrace", c, workers=1, files={"clitraces.json": json.dumps(traces)}, allow_violation=True, timeout=900, heap="6g")
    rep = [o for o in r.out if isinstance(o, dict) and "reached" in o]
    rep = rep[-1] if rep else {}
    if expect_accept:
        check.add_tlc("CliTrace %s: %d runs (F=%d, NW=%d)" % (label, len(traces), f, nw), r, kind="trace_validation")
    if r.violated and r.violated != "Postcondition":
        return False, dict(rep, violated=r.violated)
    return (not r.violated) and rep.get("reached") == len(traces) + 1, rep


def stuck_events(trace, rep):
    """the next event of every goroutine at the farthest point TLC reached (for the rejection message)"""
    cur = rep.get("cursors") or []
    if len(cur) != 3:
        return {}
    cm, cp, cw = cur
    out = {}
    if cm <= len(trace["m"]):
        out["main"] = trace["m"][cm - 1]
    if cp <= len(trace["p"]):
        out["printer"] = trace["p"][cp - 1]
    for i, c in enumerate(cw):
        if c <= len(trace["w"][i]):
            out["worker%d" % (i + 1)] = trace["w"][i][c - 1]
    return out


def corrupt(trace, how):
    """a copy of a recorded run with one defect the specification must reject"""
    t = json.loads(json.dumps(trace))
    if how == "swap-results":          # two results exchange their root nodes between parse and ptake
        ps = [e for e in t["p"] if e["act"] == "ptake"]
        if len(ps) < 2:
            return None
        ps[0]["objs"], ps[1]["objs"] = ps[1]["objs"], ps[0]["objs"]
    elif how == "reuse-live-buffer":   # a later file is read into the buffer of a file whose print had not yet ended when the read began
        adds = [e for e in t["m"] if e["act"] == "add"]
        prints = [e for e in t["p"] if e["act"] == "print"]
        for k, a in enumerate(adds[1:], 1):
            for prev in adds[:k]:
                pk = [i for i, e in enumerate(prints) if e["f"] == prev["f"]]
                if pk and a["need"][1] <= [i for i, e in enumerate(t["p"]) if e is prints[pk[0]]][0]:
                    old = a["objs"][0]
                    new = prev["objs"][0]
                    for seq in [t["m"], t["p"]] + t["w"]:
                        for e in seq:
                            if e["f"] == a["f"]:
                                e["objs"] = [new if o == old else o for o in e["objs"]]
                    return t
        return None
    elif how == "print-twice":
        pr = [i for i, e in enumerate(t["p"]) if e["act"] == "print"]
        if not pr:
            return None
        t["p"].insert(pr[0] + 1, dict(t["p"][pr[0] - 1]))
        t["p"].insert(pr[0] + 2, dict(t["p"][pr[0]]))
    elif how == "wait-early":          # main's wait returns before the last print began
        last = [e for e in t["p"] if e["act"] == "print"][-1]
        last["need"][0] = len(t["m"]) - 1
        for e in t["m"]:
            if e["act"] in ("wait", "close"):
                e["need"][1] = 0
    return t


def check_pipeline(check, wp, sources, ver, tier, rng, label="cli-spec"):
    """returns list of (signature, replay).  sources: programs (latin-1 str) whose parse returns a root."""
    bad = []
    exps = cli.expectations(wp, sources, ver)
    keep = [(s, e) for s, e in zip(sources, exps) if not (e.get("panic") or e.get("hang") or e.get("crash") or e.get("noroot"))]
    binary = build()
    # files far above any plausible size threshold of the tool (buffers, pools, pipes): 70 KiB .. 300 KiB
    bigs = [(s, e) for s, e in keep if len(s) >= 60000]
    small = [(s, e) for s, e in keep if len(s) < 60000]
    if len(small) < 8:
        raise core.InfraError("clispec: fewer than 8 usable small sources")
    # ---- spec -> impl: schedules forced on the real binary
    nsched = 0
    confs = [(3, 2, 40), (4, 3, 30)] if tier == "quick" else [(3, 2, 300), (4, 3, 300), (5, 4, 200), (6, 2, 200)]
    for f, procs, num in confs:
        scheds = schedules(check, f, procs, procs, num, core.seed())
        for si, s in enumerate(scheds):
            pick = rng.sample(small, f - 1) + (rng.sample(bigs, 1) if bigs else rng.sample(small, 1))
            rng.shuffle(pick)
            files = [("f%04d.php" % i, src.encode("latin-1")) for i, (src, _) in enumerate(pick)]
            ex = [e for _, e in pick]
            flags = [["-pb"], ["-d", "-p", "-e"], ["-pb", "-d", "-p", "-e"]][si % 3]
            rc, out, err, after, log = run_traced(binary, files, flags, ver, procs, sched=s)
            pl = parse_log(log, [n for n, _ in files])
            if pl["stall"] is not None:
                # a stall may be the machine (the gates give up after 4 s without progress): once more, with 30 s
                rc, out, err, after, log = run_traced(binary, files, flags, ver, procs, sched=s, stall_ms=30000, timeout=300)
                pl = parse_log(log, [n for n, _ in files])
            nsched += 1
            check.count(f)
            got = [e["label"] for e in sorted(pl["events"], key=lambda e: e["e"])][:len(s)]
            if pl["stall"] is not None or got != s:
                k = 0
                while k < len(got) and k < len(s) and got[k] == s[k]:
                    k += 1
                bad.append(({"class": "cli-schedule-not-followed", "at": (s[k] if k < len(s) else "end")},
                            {"schedule": s, "recorded": got, "diverges_at": k, "stall": pl["stall"], "gomaxprocs": procs, "flags": flags,
                             "note": "Cli.tla says this action is enabled here; the binary did something else or blocked"}))
                continue
            for sig, rep in cli.judge(files, ex, rc, out, err, after, flags):
                bad.append((dict(sig, flags=" ".join(flags), under="forced-schedule"), dict(rep, schedule=s, gomaxprocs=procs)))
    # the counterexamples of the named deviations, replayed with big files only (whatever threshold a buffer scheme might have)
    for dev, s in counterexample_schedules(check):
        pool_ = bigs if len(bigs) >= 3 else small
        for flags in (["-pb"], ["-d", "-p", "-e"]):
            pick = rng.sample(pool_, 3)
            files = [("f%04d.php" % i, src.encode("latin-1")) for i, (src, _) in enumerate(pick)]
            rc, out, err, after, log = run_traced(binary, files, flags, ver, 2, sched=s, stall_ms=30000, timeout=300)
            pl = parse_log(log, [n for n, _ in files])
            nsched += 1
            check.count(3)
            got = [e["label"] for e in sorted(pl["events"], key=lambda e: e["e"])][:len(s)]
            if pl["stall"] is not None or got != s:
                bad.append(({"class": "cli-schedule-not-followed", "at": "counterexample-" + dev}, {"schedule": s, "recorded": got, "stall": pl["stall"], "flags": flags}))
                continue
            for sig, rep in cli.judge(files, [e for _, e in pick], rc, out, err, after, flags):
                bad.append((dict(sig, flags=" ".join(flags), under="counterexample-schedule-" + dev), dict(rep, schedule=s)))
    check.cov["cli_schedules_replayed"] = check.cov.get("cli_schedules_replayed", 0) + nsched
    # ---- impl -> spec: free-running traced runs validated by CliTrace.tla
    runs = [(8, 1, 2), (12, 2, 3), (12, 3, 2), (16, 4, 2)] if tier == "quick" else [(8, 1, 6), (12, 2, 10), (16, 3, 10), (24, 4, 10), (40, 2, 4), (40, 4, 4)]
    nval = 0
    first = None
    for f, procs, reps in runs:
        batch, metas, nobj = [], [], 1
        for k in range(reps):
            nb = min(len(bigs), 3)
            pick = rng.sample(small, min(f - nb, len(small))) + rng.sample(bigs, nb)
            rng.shuffle(pick)
            f_ = len(pick)
            files = [("f%04d.php" % i, src.encode("latin-1")) for i, (src, _) in enumerate(pick)]
            flags = [["-pb"], ["-d", "-p", "-e"], ["-r", "-p"]][k % 3]
            rc, out, err, after, log = run_traced(binary, files, flags, ver, procs)
            check.count(len(files))
            for sig, rep in cli.judge(files, [e for _, e in pick], rc, out, err, after, flags):
                bad.append((dict(sig, flags=" ".join(flags), under="traced-run"), dict(rep, gomaxprocs=procs)))
            pl = parse_log(log, [n for n, _ in files])
            tr, no = to_trace(pl["events"], procs)
            batch.append(tr)
            metas.append({"flags": flags, "files": len(files), "gomaxprocs": procs})
            nobj = max(nobj, no)
        ok, rep = validate_batch(check, batch, f, procs, procs, nobj, "free runs")
        nval += len(batch)
        if first is None:
            first = (batch[0], f, procs, nobj)
        if not ok:
            k = (rep.get("reached") or 1) - 1
            k = min(max(k, 0), len(batch) - 1)
            bad.append(({"class": "cli-trace-rejected", "violated": rep.get("violated") or "no-linearisation"},
                        {"run": metas[k], "tlc": rep, "next_events_when_stuck": stuck_events(batch[k], rep),
                         "note": "no interleaving of the recorded per-goroutine actions that respects the recorded real-time order is a behaviour of Cli.tla "
                                 "(FIFO channels, WaitGroup, every per-file object owned by one file from its creation to the file's print)"}))
    check.cov["cli_runs_validated"] = check.cov.get("cli_runs_validated", 0) + nval
    check.cov["traces_validated_against_impl"] += nval
    # ---- the binding is not vacuous: corrupted copies of a recorded run must be rejected
    if first is not None:
        tr, f, procs, nobj = first
        rejected = []
        for how in ("swap-results", "reuse-live-buffer", "print-twice", "wait-early"):
            c = corrupt(tr, how)
            if c is None:
                continue
            ok, _ = validate_batch(check, [c], f, procs, procs, nobj + 1, "corrupted:" + how, expect_accept=False)
            if ok:
                raise core.InfraError("CliTrace.tla accepted a corrupted run (%s): the binding is vacuous" % how)
            rejected.append(how)
        if len(rejected) < 2:
            raise core.InfraError("CliTrace binding self-test could build only %s" % rejected)
        check.cov["cli_corrupted_runs_rejected"] = rejected
    return bad
