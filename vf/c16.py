"""C16 - the Go-syntax dump is a complete and faithful rendering of the tree.

Walk.tla (mode dump) prescribes for every instance of every node kind x option combination the labelled
entries the dump owes (each non-empty slot exactly once under its own field name, Val for byte values,
tokens iff WithTokens, Position iff WithPositions, nothing else).  The real dumper's output is parsed with
go/parser (so it must be valid Go composite-literal syntax) and compared with the prescription.  On parsed
trees the parsed dump is compared with a reflection walk of the tree."""
import json

from . import core, walk, inputs, cli


ZERO_IDS = False        # set while instances built from id-less tokens are compared


def content(v):
    """Reduce a parsed literal value to the marker(s) it carries; returns (markers, problems)."""
    if isinstance(v, dict) and "list" in v:
        out, probs = [], []
        for x in v["list"]:
            m, p = content(x)
            out += m
            probs += p
        return out, probs
    if isinstance(v, dict) and "bytes" in v:
        return [v["bytes"].strip("{#}")], []
    if isinstance(v, dict) and v.get("type") == "ast.Identifier":
        f = dict((a, b) for a, b in v["fields"])
        if set(f) == {"Val"}:
            return [f["Val"]["bytes"].strip("{#}")], []
        return ["?"], ["marker node with unexpected fields %s" % sorted(f)]
    if isinstance(v, dict) and v.get("type") in ("token.Token", ""):
        f = dict((a, b) for a, b in v["fields"])
        probs = []
        m = f.get("Val", {}).get("bytes", "?").strip("{#}")
        ff = f.get("FreeFloating")
        ffm = content(ff)[0] if ff else []
        if ffm != ["F" + m[1:]]:
            probs.append("token %s: free-floating content %s" % (m, ffm))
        if f.get("ID") != (None if ZERO_IDS else "token.T_STRING"):
            probs.append("token %s: ID %s" % (m, f.get("ID")))
        if len(v["fields"]) != len(f):
            probs.append("token %s: duplicate label" % m)
        return [m], probs
    if isinstance(v, dict) and v.get("type") == "position.Position":
        f = dict((a, b) for a, b in v["fields"])
        i = f.get("StartLine", 0) - 100
        probs = []
        if (f.get("EndLine"), f.get("StartPos"), f.get("EndPos")) != (200 + i, 300 + i, 400 + i) or len(v["fields"]) != 4:
            probs.append("position content %s" % f)
        return ["P%d.1" % i], probs
    return ["?"], ["unrecognised value %s" % json.dumps(v)[:100]]


def compare(o, lit):
    if lit.get("type") != "ast." + o["kind"]:
        return "wrong-type", None, "literal typed %s" % lit.get("type")
    exp = [(a, list(b)) for a, b in o["expect"]]
    got = []
    for label, v in lit["fields"]:
        m, probs = content(v)
        if probs:
            return "content", label, probs[0]
        if isinstance(v, dict) and "list" in v and not v["list"]:
            continue  # an empty list may be shown or omitted
        got.append((label, m))
    for e in exp:
        if got.count(e) > 1:
            return "duplicate", e[0], "entry %s appears %d times" % (e, got.count(e))
        if e not in got:
            others = [g for g in got if g[1] == e[1]]
            if others:
                return "mislabelled", e[0], "content %s expected under %s, found under %s" % (e[1], e[0], others[0][0])
            return "missing", e[0], "entry %s missing" % (e,)
    for g in got:
        if g not in exp:
            return "extra", g[0], "entry %s not owed" % (g,)
    return None


def run(tier):
    check = core.Check("C16", tier)
    wp = core.WorkerPool(core.build_worker())
    walk.check_schema(wp)
    budget, maxlen = (1, 2) if tier == "quick" else (3, 2)
    inst = walk.instances("dump", budget, maxlen, check, timeout=3000)
    res = wp.run([{"op": "synth", "kind": o["kind"], "slots": o["slots"], "run": "dump",
                   "tokens": "tokens" in o["opts"], "positions": "positions" in o["opts"]} for o in inst])
    kinds = set()
    for o, r in zip(inst, res):
        check.count()
        kinds.add(o["kind"])
        check.distinct((o["kind"], tuple(o["slots"]), tuple(sorted(o["opts"]))))
        if r.get("panic") or r.get("hang") or r.get("crash"):
            check.violation({"class": "crash", "kind": o["kind"], "site": r.get("site")}, {"instance": o, "observed": r})
            continue
        if "dump_err" in r:
            check.violation({"class": "not-go-syntax", "kind": o["kind"]}, {"instance": o, "error": r["dump_err"], "output": r.get("out")})
            continue
        bad = compare(o, r["lit"])
        if r.get("mutated"):
            bad = ("mutated", None, "")
        if bad:
            check.violation({"class": bad[0], "kind": o["kind"], "label": bad[1]},
                            {"instance": o, "detail": bad[2], "parsed_dump": r["lit"]})
    # Walk.tla's derived prescriptions: the same Dumper object used again yields the same dump; one node object in every child slot
    # is dumped once per slot
    base = [o for o in inst if all(x in (0, 1, maxlen) for x in o["slots"])]
    t2 = [{"op": "synth", "kind": o["kind"], "slots": o["slots"], "run": "dump", "tokens": "tokens" in o["opts"], "positions": "positions" in o["opts"], "again": True}
          for o in base] + \
         [{"op": "synth", "kind": o["kind"], "slots": o["slots"], "run": "dump", "tokens": "tokens" in o["opts"], "positions": "positions" in o["opts"], "shared": True}
          for o in base]
    for o, t, r in zip(base + base, t2, wp.run(t2)):
        check.count()
        if r.get("panic") or r.get("hang") or r.get("crash"):
            check.violation({"class": "crash", "kind": o["kind"], "site": r.get("site")}, {"task": t, "observed": r})
            continue
        if "dump_err" in r:
            continue        # reported above for the plain instance
        if t.get("again") and r.get("same_again") is False:
            check.violation({"class": "dumper-object-not-reusable", "kind": o["kind"], "label": None}, {"instance": o, "second_dump": r.get("out2")})
        if t.get("shared"):
            os_ = dict(o, expect=[(a_, ["N0.0" if x.startswith("N") else x for x in b_]) for a_, b_ in o["expect"]])
            bad = compare(os_, r["lit"])
            if bad:
                check.violation({"class": "shared-child-" + bad[0], "kind": o["kind"], "label": bad[1]}, {"instance": o, "detail": bad[2], "parsed_dump": r["lit"]})
    check.cov["again_and_shared_instances"] = len(t2)
    # tokens without an id (the formatter's and hand-written ones): everything else about them is owed all the same
    global ZERO_IDS
    tz = [o for o in base if "tokens" in o["opts"]]
    t3 = [{"op": "synth", "kind": o["kind"], "slots": o["slots"], "run": "dump", "tokens": True, "positions": "positions" in o["opts"], "zero_ids": True} for o in tz]
    ZERO_IDS = True
    try:
        for o, t, r in zip(tz, t3, wp.run(t3)):
            check.count()
            if r.get("panic") or r.get("hang") or r.get("crash") or "dump_err" in r:
                continue
            bad = compare(o, r["lit"])
            if bad:
                check.violation({"class": "idless-token-" + bad[0], "kind": o["kind"], "label": bad[1]}, {"instance": o, "detail": bad[2], "parsed_dump": r["lit"]})
    finally:
        ZERO_IDS = False
    check.cov["idless_token_instances"] = len(t3)
    check.sample({"direction": "spec->impl", "instance": inst[len(inst) // 3]})
    check.cov["kinds_covered"] = len(kinds)
    check.cov["traces_validated_against_impl"] += len(inst)

    # parsed trees: dump (4 option combinations) parsed and compared with a reflection walk of the tree
    progs = inputs.programs(check, tier) + inputs.byte_programs()
    res = wp.run([{"op": "dump_check", "src": p["src"], "ver": p["ver"]} for p in progs])
    n = 0
    for p, r in zip(progs, res):
        check.count()
        if r.get("panic") or r.get("hang") or r.get("crash") or r.get("skip"):
            continue
        n += 1
        check.distinct(("parsed", r.get("fp")))
        for f in r.get("fails") or []:
            check.violation({"class": f["c"], "kind": f.get("kind"), "label": f.get("label")},
                            {"src": p["src"], "ver": p["ver"], "fail": f})
    check.cov["parsed_trees"] = n
    # the command line tool's -d: stdout must be the library's dump of each file, in the order of the path lines
    import random
    rng = random.Random(core.seed() + 16)
    pool = [p["src"] for p in progs if p["ver"] == "7.4"]
    files = rng.sample(pool, min(len(pool), 200 if tier == "quick" else 2000)) + cli.big_sources(pool, sizes=(80000,))
    for sig, rep in cli.check_cli(check, wp, files, "7.4", [["-d", "-p"]], procs_list=(1, 16) if tier == "quick" else (1, 2, 4, 16)):
        check.violation(sig, rep)
    check.assumptions += ["NodeSchema.tla (frozen); go/parser as the judge of Go syntax; the dumper terminates each literal "
                          "with a comma, so the dump is parsed as an element of a list"]
    return check.finish({"exhaustive": True,
                         "rule": "every kind x 4 option combinations x (baseline all-present/all-absent with <=%d deviating slots) x list lengths "
                                 "0..%d; distinct = distinct (kind, slot contents, options)" % (budget, maxlen)})
