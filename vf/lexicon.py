"""Concretisation of the lexeme atoms of Lexer.tla: byte spellings per atom, with the byte length of each token
the atom yields, and the conservative Fuses filter (adjacent atoms whose bytes could combine into another lexeme
are not generated, so that every generated input has exactly the token stream the specification prescribes)."""
import random
import re

WORD = re.compile(rb"[A-Za-z0-9_\x80-\xff]")
SAFE = set(b";,()[]{}")


def _case_variants(w):
    out = [w, w.upper()]
    mixed = "".join(c.upper() if i % 2 else c.lower() for i, c in enumerate(w))
    if mixed not in out:
        out.append(mixed)
    if w.lower() != w:
        out.append(w.lower())
    return out


SPECIAL = {
    "SHEBANG": [("#!/usr/bin/env php\n", None), ("#!/bin/php -q\r\n", None)],
    "HTML_TEXT": [("<html>\n<b>x</b> ", None), ("plain text ? > ", None), ("a", None), ("x < y\r\nz", None), ("\xef\xbb\xbf", None)],
    "OPEN_PHP:sp": [("<?php ", [5, 1]), ("<?PHP\t", [5, 1]), ("<?pHp ", [5, 1])],
    "OPEN_PHP:lf": [("<?php\n", [5, 1])],
    "OPEN_PHP:crlf": [("<?php\r\n", [5, 2])],
    "OPEN_SHORT": [("<?", None)],
    "OPEN_ECHO": [("<?=", None)],
    "WS:sp": [(" ", None), ("\t", None), ("  \t ", None), ("\x0b\x0c", None)],
    "WS:lf": [("\n", None), ("\n\n", None)],
    "WS:crlf": [("\r\n", None), ("\r\n\r\n", None)],
    "WS:cr": [("\r", None)],
    "COMMENT:line_lf": [("// c\n", None), ("# c\n", None), ("//\n", None), ("// a ? > b\n", None)],
    "COMMENT:hash_crlf": [("# c\r\n", None), ("// c\r\n", None)],
    "COMMENT:block": [("/* c */", None), ("/* a\n * b\r\n */", None), ("/*c*/", None), ("/* // */", None)],
    "COMMENT:doc": [("/** d */", None), ("/**\n * @var int\n */", None)],
    "COMMENT:empty": [("/**/", None)],
    "COMMENT_THEN_CLOSE_TAG": [("// c ?>", [5, 2]), ("# c?>\n", [3, 3]), ("//?>", [2, 2])],
    "IDENT": [("foo", None), ("Bar_9", None), ("_x", None), ("ifx", None), ("classy", None)],
    "IDENT_HIGH": [("caf\xe9", None), ("\xfc\x80z", None)],
    "PROP_NAME": [("prop", None), ("class", None), ("list", None), ("Array", None), ("x1", None)],
    "VAR": [("$a", None), ("$_b9", None), ("$this", None), ("$\xe9", None)],
    "LNUM_DEC": [("1", None), ("42", None), ("0", None), ("9223372036854775807", None)],
    "LNUM_OCT": [("0777", None), ("00", None)],
    "LNUM_HEX": [("0x1F", None), ("0xab", None), ("0x7FFFFFFFFFFFFFFF", None)],
    "LNUM_BIN": [("0b101", None), ("0b0", None)],
    "LNUM_SEP": [("1_000", None), ("0x1_F", None), ("0b1_0", None), ("1_2_3", None)],
    "LNUM_OVERFLOW": [("9223372036854775808", None), ("99999999999999999999", None), ("0777777777777777777777777", None)],
    "HEX_OVERFLOW": [("0xFFFFFFFFFFFFFFFF", None), ("0b1111111111111111111111111111111111111111111111111111111111111111", None)],
    "DNUM": [("1.5", None), ("0.0", None), ("12.345", None), ("1_0.2_5", None)],
    "DNUM_LEADDOT": [(".5", None), (".0_1", None)],
    "DNUM_TRAILDOT": [("1.", None), ("10.", None)],
    "DNUM_EXP": [("1e3", None), ("1.5E-3", None), ("2e+10", None), (".5e1", None), ("1_0e1_0", None)],
    "SQ_STR": [("'a'", None), ("''", None), ("'it\\'s $x {$y}'", None), ("'\\\\'", None)],
    "SQ_STR_NL": [("'a\nb'", None), ("'a\r\nb\rc'", None)],
    "DQ_CONST_STR": [('"a"', None), ('""', None), ('"a\\"b \\$x \\\\"', None), ('"a\nb"', None), ('"{ x }"', None)],
    "DQ_CONST_DOLLAR": [('"cost: $ 5"', None), ('"$"', None), ('"a$"', None), ('"$$ 1"', None)],
    "B_SQ_STR": [("b'a'", [1, 3]), ("B'a'", [1, 3])],
    "B_DQ_STR": [('b"a"', None), ('B"x y"', None)],
    "YIELD_FROM": [("yield from", None), ("YIELD\n\tFROM", None), ("yield  from", None)],
    "ARROW": [("->", None)],
    "LBRACE": [("{", None)],
    "RBRACE": [("}", None)],
    "DQUOTE": [('"', None)],
    "DQUOTE_CLOSE": [('"', None)],
    "BACKTICK": [("`", None)],
    "BACKTICK_CLOSE": [("`", None)],
    "HEREDOC_START:plain": [("<<<A\n", None), ("<<<A\r\n", None), ("<<< \tA\n", None), ("b<<<A\n", None)],
    "HEREDOC_START:dq": [('<<<"A"\n', None), ('<<< "A"\r\n', None)],
    "HEREDOC_START:sq": [("<<<'A'\n", None), ("<<<'A'\r\n", None)],
    "HD_TEXT_LINE": [(" text\n", None), ("\n", None), (" a b\r\n", None), (" A1 AA\n", None)],
    "HD_END": [("A", None)],
    "HD_END:indented": None,      # handled specially: the indentation belongs to the preceding text token
    "NOWDOC_BODY": [(" raw $x {$y} ${z}\n", None), (" l1\n l2\r\n", None)],
    "CLOSE_TAG": [("?>", None)],
    "CLOSE_TAG:lf": [("?>\n", None), ("?>\r\n", None)],
    "SEMI_CLOSE_TAG": [("; ?>", None), (";\n\t?>\n", None), (";?>", None)],
    "KW:__halt_compiler": [("__halt_compiler", None), ("__HALT_COMPILER", None)],
    "HALT_PAYLOAD": [(" raw \x00\x01 <?php echo 1; ?>\nbin", None), ("x", None), ("\r", None)],
    "BADCHAR": [("\x01", []), ("\x7f", []), ("\x00", [])],
    "STR_TEXT": [(" text ", None), (" a\nb ", None), (" x-y. ", None), (" 1 ", None)],
    "STR_ESC": [(" \\$a ", None), (" \\{$a ", None), (" \\\\ ", None), (" \\n\\t ", None)],
    "SV_VAR": [("$v", None), ("$_v9", None)],
    "CURLY_OPEN_VAR": [("{$o", [1, 2])],
    "DOLLAR_CURLY": [("${", None)],
    "SV_LBRACKET": [("[", None)],
    "SV_ARROW_NAME": [("->p", [2, 1]), ("->prop_1", [2, 6])],
    "IDX_NUM": [("0", None), ("12", None)],
    "IDX_HEX": [("0x1A", None), ("0Xff", None)],
    "IDX_BIN": [("0b101", None), ("0B11", None)],
    "IDX_SEP": [("1_0", None), ("0x1_F", None), ("0b1_1", None)],
    "IDX_BADCHAR": [("{", []), ("}", []), ("\x01", [])],
    "IDX_VAR": [("$i", None)],
    "IDX_IDENT": [("key", None), ("k_1", None)],
    "IDX_MINUS": [("-", None)],
    "IDX_RBRACKET": [("]", None)],
    "IDX_WS": [(" ", None), ("'", None), ("#", None), ("\\", None), ("\n", None)],
    "SVNAME_RBRACE": [("n}", [1, 1]), ("name_1}", [6, 1])],
    "SVNAME_LBRACKET": [("n[", [1, 1])],
}

CAST_SPELL = {"array": ["(array)", "( array )", "(ARRAY)"], "bool": ["(bool)", "(\tBool)"], "boolean": ["(boolean)"],
              "real": ["(real)"], "double": ["(double)", "( Double )"], "float": ["(float)", "(FLOAT)"],
              "int": ["(int)", "( int)", "(INT )"], "integer": ["(integer)"], "object": ["(object)", "( object )"],
              "string": ["(string)", "(String)"], "binary": ["(binary)"], "unset": ["(unset)", "( UNSET )"]}


def spellings(atom):
    if atom in SPECIAL:
        return SPECIAL[atom]
    if atom.startswith("KW:"):
        return [(v, None) for v in _case_variants(atom[3:])]
    if atom.startswith("OP:"):
        return [(atom[3:], None)]
    if atom.startswith("CH:"):
        return [(atom[3:], None)]
    if atom.startswith("IDX_OP:"):
        return [(atom[7:], None)]
    if atom.startswith("CAST:"):
        return [(v, None) for v in CAST_SPELL[atom[5:]]]
    raise KeyError(atom)


def tokid(i):
    return "ID(%d)" % ord(i[3:]) if i.startswith("CH:") else i


def fuses(a, x, b, y):
    """Could the bytes of atom a (spelling x) and the following atom b (spelling y) combine into another lexeme?"""
    if not x or not y:
        return False
    cx, cy = x[-1:], y[:1]
    wx, wy = bool(WORD.match(cx)), bool(WORD.match(cy))
    sx, sy = cx.isspace(), cy.isspace()
    if a.startswith("WS:") or b.startswith("WS:"):
        return False
    if a in ("HTML_TEXT", "SHEBANG"):
        return False
    if a in ("CLOSE_TAG", "CLOSE_TAG:lf", "SEMI_CLOSE_TAG", "COMMENT_THEN_CLOSE_TAG"):
        return cy in (b"\n", b"\r")                      # "?>" swallows one newline
    if a == "OPEN_SHORT":
        return wy or cy == b"="
    if a.startswith("COMMENT:line") or a == "COMMENT:hash_crlf":
        return False
    if a in ("STR_TEXT", "STR_ESC", "HD_TEXT_LINE", "NOWDOC_BODY", "IDX_WS", "HALT_PAYLOAD"):
        return False
    if a in ("SV_VAR", "SV_ARROW_NAME") and not b.startswith(("SV_", "IDX")):
        return wy or cy in (b"[", b"-")
    if a in ("DQUOTE", "BACKTICK", "DQUOTE_CLOSE", "BACKTICK_CLOSE") or b in ("DQUOTE_CLOSE", "BACKTICK_CLOSE"):
        return (a in ("DQUOTE",) and False)
    if b in ("STR_TEXT", "STR_ESC", "HD_TEXT_LINE", "SV_VAR", "CURLY_OPEN_VAR", "DOLLAR_CURLY") and a not in ("SV_VAR", "SV_ARROW_NAME"):
        return False
    if a.startswith("IDX") or b.startswith("IDX") or a == "SV_LBRACKET":
        return wx and wy
    if sx or sy:
        return False
    if wx and wy:
        return True
    if wx and not wy:
        if cx in b"bB" and cy in b"'\"<":
            return True
        if cx.isdigit() and cy == b".":
            return True
        return False
    if not wx and wy:
        if cx == b"$":
            return True
        if cx == b"." and cy.isdigit():
            return True
        return False
    # punctuation next to punctuation
    if cx[0] in SAFE and a != "CH:;" or cy[0] in SAFE:
        if a == "CH:;" and b.startswith(("CLOSE_TAG", "COMMENT_THEN")):
            return True
        return False
    if a == "CH:;":
        return b.startswith("CLOSE_TAG") or cy == b"?"
    return True


CASTWORDS = {"array", "unset"}


def ngram_fuses(path):
    """Multi-atom fusions: ';' ws* '?>' is one token; '(' ws* array|unset ws* ')' is a cast."""
    n = len(path)
    for i, a in enumerate(path):
        if a == "CH:;":
            j = i + 1
            while j < n and path[j].startswith("WS:"):
                j += 1
            if j < n and path[j].startswith(("CLOSE_TAG", "COMMENT_THEN")) and j > i + 1:
                return True
        if a == "CH:(":
            j = i + 1
            while j < n and path[j] == "WS:sp":
                j += 1
            if j < n and path[j] in ("KW:array", "KW:unset"):
                j += 1
                while j < n and path[j] == "WS:sp":
                    j += 1
                if j < n and path[j] == "CH:)":
                    return True
        if a == "KW:yield":
            j = i + 1
            while j < n and path[j].startswith("WS:"):
                j += 1
            if j < n and j > i + 1 and path[j] in ("IDENT", "PROP_NAME"):
                pass
    return False


def concretise(beh, rng, tries=4):
    """beh: a behaviour of Lexer.tla (path + owed tokens).  Returns (bytes, expected flattened tokens, nerr) or None
    when no spelling choice avoids fusion."""
    path = [a for a in beh["path"] if a != "EOF"]
    if ngram_fuses(path):
        return None
    for _ in range(tries):
        chosen = []
        ok = True
        for k, a in enumerate(path):
            if a == "HD_END:indented":
                sp = ("A", None)
            else:
                sp = rng.choice(spellings(a))
            text = sp[0].encode("latin-1")
            if chosen and fuses(path[k - 1], chosen[-1][0], a, text):
                ok = False
                break
            chosen.append((text, sp[1]))
        if not ok:
            continue
        # byte offsets per atom; token extents per owed token
        offs = []
        pos = 0
        src = b""
        for k, (text, lens) in enumerate(chosen):
            if path[k] == "HD_END:indented":
                # the indentation is part of the preceding text token (or of nothing, for an empty heredoc)
                src += b"  "
                pos += 2
            offs.append(pos)
            src += text
            pos += len(text)
        toks = []
        per_atom = {}
        for t in beh["toks"]:
            per_atom.setdefault(t["a"], []).append(t)
        for k, (text, lens) in enumerate(chosen):
            owed = per_atom.get(k + 1, [])
            if lens is None:
                lens = [len(text)] if owed else []
                if len(owed) != len(lens):
                    return None
            if len(owed) != len(lens):
                raise ValueError("lexicon/specification mismatch for atom %s: %d tokens owed, %d spelled" % (path[k], len(owed), len(lens)))
            p = offs[k]
            for t, ln in zip(owed, lens):
                s, e = p, p + ln
                if t["mg"] and toks:
                    toks[-1][2] = e                      # the run continues the previous token
                elif path[k] == "HD_END:indented" and False:
                    pass
                else:
                    toks.append([tokid(t["id"]), s, e, t["ff"]])
                p = e
        # indentation before an indented terminator extends the preceding text token
        for k, a in enumerate(path):
            if a == "HD_END:indented":
                start = offs[k]
                for t in toks:
                    if t[2] == start - 2 and t[0] == "T_ENCAPSED_AND_WHITESPACE":
                        t[2] = start
        return src, [tuple(t) for t in toks], beh.get("nerr", 0)
    return None
