"""C13 - printing, dumping, traversing and resolving never modify the tree.

Pipeline.tla enumerates every history over the observers up to a bound (TLC, exhaustive); each history is
replayed on the tree of each program: after every operation its output must equal the output on a freshly
parsed tree, the deep fingerprint of the tree (including what lies between len and cap of every list, object
identities, token values aliasing the source) and the source buffer must be unchanged."""
import json
import random

from . import core, inputs, c14


def histories(observers, maxlen, check):
    cfg = ("SPECIFICATION Spec\nCONSTANT Observers <- MCObs\nCONSTANTS MaxLen = %d WithFormat = FALSE\n"
           "INVARIANTS Pure SameAsFresh\nPROPERTIES StructureKept FormatIdempotent\nCHECK_DEADLOCK FALSE\n" % maxlen)
    mc = "---- MODULE MCPipeline ----\nEXTENDS Pipeline\nMCObs == {%s}\n====\n" % ", ".join('"%s"' % o for o in observers)
    r = core.tlc("MCPipeline", cfg, files={"MCPipeline.tla": mc})
    check.add_tlc("Pipeline(observers=%d,maxlen=%d)" % (len(observers), maxlen), r)
    return [o["hist"] for o in r.out if "hist" in o]


def run(tier):
    check = core.Check("C13", tier)
    rng = random.Random(core.seed())
    wp = core.WorkerPool(core.build_worker())
    if tier == "quick":
        hs = histories(["print", "dump00", "dump10", "dump01", "dump11", "traverse", "resolve"], 3, check)
        nprog = 40
    else:
        hs = histories(["print", "dump11", "traverse", "resolve"], 5, check)
        hs += histories(["print", "dump00", "dump10", "dump01", "dump11", "traverse", "resolve"], 3, check)
        nprog = 200
    hs = [list(h) for h in sorted(set(tuple(h) for h in hs))]
    progs = inputs.programs(check, tier)
    progs = sorted(progs, key=lambda p: -len(p["src"]))[:nprog // 2] + rng.sample(progs, nprog // 2)
    # files with several namespace sections, imports and references whose short names collide (rendered from NsResolver.tla)
    progs += [{"src": s, "ver": "7.4"} for s in c14.sample_sources(check, tier, nprog // 2)]
    tasks = []
    for p in progs:
        for h in hs:
            tasks.append({"op": "history", "src": p["src"], "ver": p["ver"], "hist": h})
    res = wp.run(tasks)
    ran = 0
    for t, r in zip(tasks, res):
        if r.get("skip"):
            continue
        check.count()
        if r.get("panic") or r.get("hang") or r.get("crash"):
            check.violation({"class": "crash", "site": r.get("site")}, {"task": t, "observed": r})
            continue
        ran += 1
        check.distinct((t["src"], t["ver"], tuple(t["hist"])))
        if "diverged" in r:
            prior = t["hist"][:r["diverged"]]
            check.violation({"class": "observer-" + r["what"], "op": r["op"],
                             "after": sorted(set(prior))},
                            {"task": t, "observed": r})
    # the outputs must not depend on what the process did before either: a sample of the tasks is repeated, each in a process
    # of its own, and every observer's output is compared with the one obtained in the long-lived worker
    idx = [i for i, r in enumerate(res) if r.get("ok")]
    nsample = 150 if tier == "quick" else 2000
    heavy = [i for i in idx if "namespace {" in tasks[i]["src"] and "resolve" in tasks[i]["hist"]]
    idx = rng.sample(heavy, min(len(heavy), nsample // 2)) + rng.sample(idx, min(len(idx), nsample // 2))
    # resolver-heavy files first: they are the ones that can leave something behind
    cold = core.WorkerPool(core.build_worker(), chunk=1, fresh=True).run([dict(tasks[i]) for i in idx])
    for i, rc in zip(idx, cold):
        check.count()
        if rc.get("ok") and rc.get("outs") != res[i].get("outs"):
            ops = sorted(o for o in rc["outs"] if rc["outs"][o] != (res[i].get("outs") or {}).get(o))
            check.violation({"class": "output-depends-on-process-history", "op": ops[0] if ops else None},
                            {"task": tasks[i], "fresh_process": rc.get("outs"), "long_lived_process": res[i].get("outs")})
    check.cov["tasks_repeated_in_fresh_processes"] = len(idx)
    check.cov["traces_validated_against_impl"] = ran
    check.cov["histories"] = len(hs)
    check.cov["programs"] = len(progs)
    check.sample({"direction": "spec->impl", "history": hs[len(hs) // 2], "program": progs[0]["src"][:200]})
    check.assumptions += ["tree equality = reflection fingerprint incl. slice capacities and object identities (harness/cmd/worker/history.go)",
                          "programs: corpus, SyntaxGen derivations, rendered NsResolver.tla files; histories bounded"]
    return check.finish({"exhaustive": True,
                         "rule": "all histories over the observers up to the bound (TLC) x each program; distinct = (program, version, history)"})
