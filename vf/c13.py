"""C13 - printing, dumping, traversing and resolving never modify the tree.

Pipeline.tla enumerates every history over the observers up to a bound (TLC, exhaustive); each history is
replayed on the tree of each program: after every operation its output must equal the output on a freshly
parsed tree, the deep fingerprint of the tree (including what lies between len and cap of every list, object
identities, token values aliasing the source) and the source buffer must be unchanged."""
import json
import random

from . import core, inputs, c14


def histories(observers, maxlen, check, faulty=()):
    cfg = ("SPECIFICATION Spec\nCONSTANT Observers <- MCObs\nCONSTANT Faulty <- MCFaulty\nCONSTANTS MaxLen = %d WithFormat = FALSE\n"
           "INVARIANTS Pure SameAsFresh\nPROPERTIES StructureKept FormatIdempotent\nCHECK_DEADLOCK FALSE\n" % maxlen)
    mc = ("---- MODULE MCPipeline ----\nEXTENDS Pipeline\nMCObs == {%s}\nMCFaulty == {%s}\n====\n"
          % (", ".join('"%s"' % o for o in observers), ", ".join('"%s"' % o for o in faulty)))
    r = core.tlc("MCPipeline", cfg, files={"MCPipeline.tla": mc})
    check.add_tlc("Pipeline(observers=%d,faulty=%d,maxlen=%d)" % (len(observers), len(faulty), maxlen), r)
    return [o["hist"] for o in r.out if "hist" in o]


def run(tier):
    check = core.Check("C13", tier)
    rng = random.Random(core.seed())
    wp = core.WorkerPool(core.build_worker())
    if tier == "quick":
        hs = histories(["print", "dump00", "dump10", "dump01", "dump11", "traverse", "resolve"], 3, check)
        nprog = 40
    else:
        hs = histories(["print", "dump11", "traverse", "resolve"], 5, check)
        hs += histories(["print", "dump00", "dump10", "dump01", "dump11", "traverse", "resolve"], 3, check)
        nprog = 200
    # histories with observations whose writer fails part-way (Pipeline.tla's Fault action)
    hs += [h for h in histories(["print", "dump11"], 3, check, faulty=["print", "dump11"]) if any(x.endswith("!") for x in h)]
    hs = [list(h) for h in sorted(set(tuple(h) for h in hs))]
    progs = inputs.programs(check, tier)
    # (all histories x a program: the largest ones that are not the 100 KiB long-token programs, which the wide history below covers)
    mid = [p for p in progs if len(p["src"]) <= 20000]
    progs = sorted(mid, key=lambda p: -len(p["src"]))[:nprog // 2] + rng.sample(mid, nprog // 2)
    progs += rng.sample(inputs.signature_programs(), 60 if tier == "quick" else 600)
    # files with several namespace sections, imports and references whose short names collide (rendered from NsResolver.tla)
    progs += [{"src": s, "ver": "7.4"} for s in c14.sample_sources(check, tier, nprog // 2)]
    tasks = []
    for p in progs:
        for h in hs:
            tasks.append({"op": "history", "src": p["src"], "ver": p["ver"], "hist": h})
    res = wp.run(tasks)
    ran = 0
    for t, r in zip(tasks, res):
        if r.get("skip"):
            continue
        check.count()
        if r.get("panic") or r.get("hang") or r.get("crash"):
            check.violation({"class": "crash", "site": r.get("site")}, {"task": t, "observed": r})
            continue
        ran += 1
        check.distinct((t["src"], t["ver"], tuple(t["hist"])))
        if "diverged" in r:
            prior = t["hist"][:r["diverged"]]
            check.violation({"class": "observer-" + r["what"], "op": r["op"],
                             "after": sorted(set(prior))},
                            {"task": t, "observed": r})
    # breadth: one history that runs every observer twice, on every program of the shared pool (long lists, constructs nested in
    # themselves, every short access chain ...): an observer that damages the tree only for a particular shape shows here
    wide = [{"op": "history", "src": p["src"], "ver": p["ver"], "hist": ["print", "dump11", "traverse", "resolve", "print", "dump11", "traverse", "resolve"], "limit_ms": 5000 + len(p["src"]) // 10}
            for p in inputs.programs(check, tier)]
    for t, r in zip(wide, wp.run(wide)):
        if r.get("skip"):
            continue
        check.count()
        if r.get("panic") or r.get("hang") or r.get("crash"):
            continue            # C01's business on these inputs
        ran += 1
        if "diverged" in r:
            prior = t["hist"][:r["diverged"]]
            check.violation({"class": "observer-" + r["what"], "op": r["op"], "after": sorted(set(prior))}, {"task": t, "observed": r})
    check.cov["programs_under_the_wide_history"] = len(wide)
    # the outputs must not depend on what the process did before either (operations on OTHER trees are part of "any
    # sequence of these operations"): resolver-heavy files and a sample of the others are observed one after the other in ONE
    # long-lived process and, separately, each in a process of its own; every observer's output must be the same
    allsrc = inputs.programs(check, tier)
    heavy = [{"src": s, "ver": "7.4"} for s in c14.sample_sources(check, tier, 300 if tier == "quick" else 3000)]
    sample = heavy + rng.sample(allsrc, min(len(allsrc), 150 if tier == "quick" else 1500))
    rng.shuffle(sample)
    xt = [{"op": "history", "src": p["src"], "ver": p["ver"], "hist": ["resolve", "print", "dump11", "traverse", "resolve"]} for p in sample]
    warm = core.WorkerPool(core.build_worker(), n=1, chunk=len(xt) + 1).run([dict(t) for t in xt])
    cold = core.WorkerPool(core.build_worker(), chunk=1, fresh=True).run([dict(t) for t in xt])
    for t, rw, rc in zip(xt, warm, cold):
        check.count(2)
        if rw.get("ok") and rc.get("ok") and rc.get("outs") != rw.get("outs"):
            ops = sorted(o for o in rc["outs"] if rc["outs"][o] != (rw.get("outs") or {}).get(o))
            check.violation({"class": "output-depends-on-process-history", "op": ops[0] if ops else None},
                            {"task": t, "fresh_process": rc.get("outs"), "long_lived_process": rw.get("outs")})
    check.cov["tasks_repeated_in_fresh_processes"] = len(xt)
    check.cov["traces_validated_against_impl"] = ran
    check.cov["histories"] = len(hs)
    check.cov["programs"] = len(progs)
    check.sample({"direction": "spec->impl", "history": hs[len(hs) // 2], "program": progs[0]["src"][:200]})
    check.assumptions += ["tree equality = reflection fingerprint incl. slice capacities and object identities (harness/cmd/worker/history.go)",
                          "programs: corpus, SyntaxGen derivations, rendered NsResolver.tla files; histories bounded"]
    return check.finish({"exhaustive": True,
                         "rule": "all histories over the observers up to the bound (TLC) x each program; distinct = (program, version, history)"})
