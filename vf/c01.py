"""C01 - parsing never crashes, hangs or touches the input buffer.

The input space is defined by specifications: (a) Lexer.tla's transition cover (every reachable scanner mode x
call-stack shape x every lexeme atom), concretised, plus every byte-truncation of the last lexeme ("input ends in
the middle of any lexical construct"); (b) every byte prefix of programs; (c) a seeded stream of random bytes over
a PHP-weighted alphabet; (d) the programs on which a PHP 5 grammar action reports an error itself, with a nil
callback; (e) a byte sweep: every scanner mode (as a context) x every lexeme prefix after which the next byte's class
matters x all 256 byte values (thorough: also pairs of class-boundary bytes).  Each input is parsed by the real parser in a killable child process under a deadline,
for several versions, with and without an error callback; the specification contributes the input space and the
Progress property (no zero-width cycle), the verdict is the property itself: returns normally, input unchanged."""
import random
import re

from . import core, inputs, lexgen, semerr, progs as progmod

ALPHA = [b"<?php ", b"<?", b"?>", b"$", b"a", b"A", b"1", b"0", b" ", b"\n", b"\r", b"\t", b'"', b"'", b"`", b"{", b"}", b"(", b")",
         b"[", b"]", b";", b",", b".", b"-", b">", b"<", b"=", b"+", b"*", b"/", b"#", b"\\", b"&", b"|", b"?", b":", b"!", b"@", b"%", b"^", b"~",
         b"<<<A\n", b"A\n", b"<<<'A'\n", b"if", b"else", b"function ", b"class ", b"echo ", b"new ", b"array", b"list", b"->", b"::", b"=>",
         b"${", b"{$", b"$$", b"/*", b"*/", b"//", b"__halt_compiler", b"\x00", b"\x80", b"\xff", b"e", b"x", b"b", b"_", b"foreach", b"as", b"use ",
         b"namespace ", b"trait ", b"yield ", b"from", b"fn", b"static", b"&$", b"...", b"??", b"<=>", b"**", b"  A;\n", b"A;"]


def random_inputs(rng, n, maxlen):
    out = []
    for _ in range(n):
        k = rng.randrange(1, maxlen)
        s = b"".join(rng.choice(ALPHA) for _ in range(k))
        if rng.random() < 0.7:
            s = b"<?php " + s
        out.append(s)
    return out


# Byte sweep: every scanner mode of Lexer.tla (as a context prefix/suffix) x every lexeme prefix after which the scanner
# looks at the next byte's class (triggers) x every byte value.  A class boundary that the hand-written helpers of
# lexer.go and the generated machine disagree about (e.g. 0x7f / 0x80 for name bytes) shows only on one byte value.
SWEEP_CONTEXTS = [
    ("html", b"", b""), ("html2", b"a<b>", b" x"),
    ("php", b"<?php ", b" ;"), ("php-noend", b"<?php ", b""),
    ("dq", b'<?php "a', b' z";'), ("dq-open", b'<?php "a', b""),
    ("heredoc", b"<?php echo <<<EOT\nprice: ", b"\nEOT;\n"), ("heredoc-dq", b'<?php <<<"E"\n', b" t\nE;\n"), ("heredoc-open", b"<?php <<<E\nx ", b""),
    ("nowdoc", b"<?php <<<'E'\n", b"\nE;\n"),
    ("backquote", b"<?php `a ", b" z`;"),
    ("property", b"<?php $a->", b" ;"), ("static", b"<?php A::", b" ;"),
    ("dq-var", b'<?php "$a', b' z";'), ("dq-idx", b'<?php "$a[', b']";'), ("dq-curly", b'<?php "{$a', b'}";'), ("dq-dollar-curly", b'<?php "${a', b'}";'),
    ("heredoc-var", b"<?php <<<E\n$a", b"\nE;\n"), ("heredoc-idx", b"<?php <<<E\n$a[", b"]\nE;\n"),
    ("comment", b"<?php /* ", b" */ ;"), ("line-comment", b"<?php // ", b"\n;"), ("hash", b"<?php # ", b"\n;"),
    ("halt", b"<?php __halt_compiler", b""), ("halt2", b"<?php __halt_compiler(", b""), ("halt3", b"<?php __halt_compiler()", b""), ("halt4", b"<?php __halt_compiler();", b""),
    ("sq", b"<?php 'a", b"z';"), ("after-close", b"<?php ?>", b""), ("in-braces", b"<?php { ", b" }"),
]
SWEEP_TRIGGERS = [b"", b"$", b"$$", b"${", b"{$", b"{", b"}", b"->", b"::", b"[", b"]", b"\\", b"<", b"<?", b"<?p", b"?", b"?>", b"#", b"/", b"/*", b"*", b"b", b"B", b"<<<",
                  b"<<< ", b"<<<'", b'<<<"', b"0", b"0x", b"0b", b"1.", b"1e", b".", b"-", b"=", b"&", b"|", b"(", b")", b"a", b"_", b"\x80", b"\x7f",
                  b"E", b"EOT", b"\nE", b"\nEOT", b"\n E", b"'", b'"', b"`", b"\r", b"\n", b"@", b"%", b"^", b"~", b":", b",", b";", b"!", b"e", b"x", b"yield ", b"yield from"]
INTERESTING = [0x00, 0x09, 0x0a, 0x0d, 0x20, 0x22, 0x23, 0x24, 0x27, 0x2d, 0x2f, 0x2a, 0x30, 0x39, 0x3a, 0x3c, 0x3e, 0x3f, 0x40, 0x41, 0x5a, 0x5b, 0x5c, 0x5d, 0x5f,
               0x60, 0x61, 0x7a, 0x7b, 0x7d, 0x7e, 0x7f, 0x80, 0xff]


def sweep_inputs(tier):
    for name, pre, suf in SWEEP_CONTEXTS:
        for trig in SWEEP_TRIGGERS:
            for b in range(256):
                yield pre + trig + bytes([b]) + suf, "sweep:%s" % name
            if tier == "thorough":
                for b1 in INTERESTING:
                    for b2 in INTERESTING[::3]:          # (all 34 x 34 pairs made the orchestrator need more than 30 GB)
                        yield pre + trig + bytes([b1, b2]) + suf, "sweep2:%s" % name


EMPTY_HEREDOC = re.compile(rb"<<<[ \t]*(['\"]?)([A-Za-z_\x80-\xff][A-Za-z0-9_\x80-\xff]*)\1\r?\n[ \t]*\2")


def family(src, ver="7.4"):
    """Coarse trigger family of a crashing input (part of the known-finding signature)."""
    if EMPTY_HEREDOC.search(src) and ver in ("7.3", "7.4", "nil"):
        return "empty-heredoc-flex"
    if src.endswith(b"\r"):
        return "ends-in-cr"
    if src.endswith(b"<") and b"<?" not in src[src.rfind(b"?>") + 1 if b"?>" in src else 0:]:
        return "html-ends-in-lt"
    if b"$$" in src and b"<<<" in src:
        return "heredoc-dollar-dollar"
    return "other"


def run(tier):
    check = core.Check("C01", tier)
    rng = random.Random(core.seed())
    wp = core.WorkerPool(core.build_worker(), idle_timeout=30)
    srcs = {}          # bytes -> origin

    def add(s, origin):
        if len(s) < 200000:
            srcs.setdefault(bytes(s), origin)

    # (a) the scanner machine
    lc = lexgen.cases(check, tier, rng)
    for c in lc:
        add(c["src"], "lexer:" + "/".join(c["path"][-2:]))
        last = len(c["src"])
        # every truncation inside the last lexeme, and the input followed by a lone CR
        path = [a for a in c["path"] if a != "EOF"]
        for cut in range(max(0, last - 12), last):
            add(c["src"][:cut], "lexer-trunc:" + path[-1])
        add(c["src"] + b"\r", "lexer+cr:" + path[-1])
    # (b) byte prefixes of programs
    progs = inputs.clean_programs(tier)
    seen = set()
    for p in progs:
        b = p["src"].encode("latin-1")
        if b in seen:
            continue
        seen.add(b)
        step = 1 if (tier == "thorough" or len(b) < 80) else max(1, len(b) // 60)
        for cut in range(0, len(b) + 1, step):
            add(b[:cut], "prefix")
    # (c) random bytes
    for s in random_inputs(rng, 3000 if tier == "quick" else 60000, 14):
        add(s, "random")
    # (d) programs on which a grammar action reports an error itself (PHP 5): the callback may be nil there too
    forced = {}
    for p in semerr.programs():
        b = p["src"].encode("latin-1")
        add(b, "semantic-error")
        forced[b] = [("5.6", True), ("5.0", True), ("5.3", False), ("7.4", True)]
    # (d') every parameter shape in every kind of signature (the grammars accept more than PHP compiles)
    for p in inputs.signature_programs():
        b = p["src"].encode("latin-1")
        add(b, "signature")
        forced.setdefault(b, []).append((p["ver"], False))
        forced[b].append((p["ver"], True))
    # (d'') programs nested many blocks deep
    for fam_ in ("7", "5"):
        for src in progmod.deep_sources(check, fam_, core.seed(), 60 if tier == "quick" else 600)[:40]:
            add(src.encode("latin-1"), "deep-nesting")
    # (d3) token-level edits of generated programs
    for fam_ in ("7", "5"):
        for b in progmod.token_mutations(check, fam_, core.seed(), 400 if tier == "quick" else 4000):
            add(b, "token-edit")
    # (e) byte sweep
    nsweep = 0
    for b, origin in sweep_inputs(tier):
        add(b, origin)
        nsweep += 1
    check.cov["sweep_inputs"] = nsweep
    vers_all = ["5.0", "5.6", "7.0", "7.2", "7.3", "7.4"]
    ncrash = 0

    def judge(tasks):
        nonlocal ncrash
        res = wp.run([{k: v for k, v in t.items() if k != "_o"} for t in tasks])
        for t, r in zip(tasks, res):
            check.count()
            src = t["src"].encode("latin-1")
            if r.get("hang"):
                ncrash += 1
                check.violation({"class": "hang", "family": family(src, t["ver"])},
                                {"src": t["src"], "ver": t["ver"], "nocb": t["nocb"], "origin": t["_o"], "observed": r})
            elif r.get("panic") or r.get("crash"):
                ncrash += 1
                check.violation({"class": "panic", "site": r.get("site") or "runtime-fatal", "family": family(src, t["ver"])},
                                {"src": t["src"], "ver": t["ver"], "nocb": t["nocb"], "origin": t["_o"], "observed": r})
            else:
                for f in r.get("fails") or []:
                    if f["c"] == "C01.mutated":
                        check.violation({"class": "input-mutated"}, {"src": t["src"], "ver": t["ver"]})

    # (tasks and results are built and dropped batch by batch: all of them at once needed more than 30 GB in the thorough tier)
    tasks = []
    for i, (s, origin) in enumerate(srcs.items()):
        text = s.decode("latin-1")
        combos = [("7.4", False), ("5.6", True)]
        if origin.startswith("sweep"):
            combos = [[("7.4", False)], [("5.6", True)], [("7.2", True)], [("7.4", True)]][i % 4] if tier == "quick" else [("7.4", False), ("5.6", True), ("7.2", True)]
        elif tier == "thorough" or i % 7 == 0:
            combos += [("7.2", True), ("5.6", False), ("7.3", True), ("7.0", False), ("5.0", False), ("7.4", True)]
        else:
            combos.append((vers_all[i % 6], i % 2 == 0))
        combos += forced.get(s, [])
        if i % 5 == 0 or b"<<<" in s:
            combos.append(("nil", i % 2 == 0))        # an omitted version means 7.4: the default path of parser.Parse
        for ver, nocb in dict.fromkeys(combos):
            tasks.append({"op": "analyze", "src": text, "ver": ver, "nocb": nocb, "limit_ms": 2000 + len(s) // 20, "_o": origin})
        if len(tasks) >= 400000:
            judge(tasks)
            tasks = []
    if tasks:
        judge(tasks)
    check.cov["distinct_nontrivial"] = len(srcs)
    check.cov["inputs"] = len(srcs)
    check.cov["worker_restarts"] = wp.restarts
    check.cov["traces_validated_against_impl"] = len(lc)
    check.sample({"origin": "lexer transition cover", "path": lc[len(lc) // 2]["path"], "src": lc[len(lc) // 2]["src"].decode("latin-1")})
    # (f) long runs: every scanner mode (context) x a unit repeated 40 000 and 160 000 times' worth of bytes.  A helper that looks
    # back over the run for every byte of it (escape counting, label matching, look-behind) is quadratic only here.
    units = [b"\\", b"$", b"{", b"}", b" ", b"\n", b"\r", b"a", b"0", b'"', b"'", b"`", b"<", b"?", b"/", b"*", b"#", b"-", b">", b"[", b"\x80", b"_", b".", b"=", b"(",
             b"\\$", b"{$", b"$a", b"?>", b"<?", b"*/", b"/*", b"->", b"\r\n", b"::", b"\\\"", b"E\n", b"EOT\n", b"\nE", b"${", b"$a["]
    if tier == "quick":
        units = units[:25] + units[25::2]
    tt = []
    for name, pre, suf in SWEEP_CONTEXTS:
        for u in units:
            for size in (40000, 160000):
                src = pre + u * (size // len(u)) + suf
                tt.append({"op": "timing", "src": src.decode("latin-1"), "ver": "7.4" if len(tt) % 4 < 2 else "5.6", "limit_ms": 25000, "_k": (name, u, size)})
    by = {}
    for t, r in zip(tt, wp.run([{k: v for k, v in t.items() if k != "_k"} for t in tt])):
        check.count()
        name, u, size = t["_k"]
        if r.get("hang"):
            check.violation({"class": "hang", "family": "long-run"}, {"context": name, "unit": u.decode("latin-1"), "bytes": size, "ver": t["ver"], "observed": r})
        elif r.get("panic") or r.get("crash"):
            check.violation({"class": "panic", "site": r.get("site") or "runtime-fatal", "family": family(t["src"].encode("latin-1"), t["ver"])},
                            {"context": name, "unit": u.decode("latin-1"), "bytes": size, "ver": t["ver"], "observed": r})
        else:
            by.setdefault((name, u), {})[size] = r.get("ms", 0.0)
    worst = 0.0
    suspects = []
    for (name, u), d in by.items():
        if 40000 in d and 160000 in d:
            ratio = d[160000] / max(d[40000], 0.05)
            worst = max(worst, ratio if d[160000] > 100 else 0.0)
            # four times the input in more than 12 times the time, and slow in absolute terms (>= 12 us per byte, a hundred times the
            # usual speed): a candidate; it is measured again, alone on one worker, before it becomes a verdict (timings taken while
            # other work runs on the machine are noise: a first version without this reported 545 ms for 160 000 braces once)
            if ratio > 12 and d[160000] > 2000:
                suspects.append((name, u))
    if suspects:
        ctx = {n: (pre, suf) for n, pre, suf in SWEEP_CONTEXTS}
        wp1 = core.WorkerPool(core.build_worker(), n=1, chunk=1, idle_timeout=120)
        for name, u in suspects[:6]:
            pre, suf = ctx[name]
            t2 = [{"op": "timing", "src": (pre + u * (size // len(u)) + suf).decode("latin-1"), "ver": "7.4", "limit_ms": 90000} for size in (40000, 160000)]
            r2 = wp1.run(t2)
            if any(x.get("hang") for x in r2):
                check.violation({"class": "hang", "family": "long-run"}, {"context": name, "unit": u.decode("latin-1"), "observed": r2})
            elif all("ms" in x for x in r2) and r2[1]["ms"] > 2000 and r2[1]["ms"] / max(r2[0]["ms"], 0.05) > 12:
                check.violation({"class": "superlinear", "family": "long-run"},
                                {"context": name, "unit": u.decode("latin-1"), "ms_40k": r2[0]["ms"], "ms_160k": r2[1]["ms"], "measured": "alone, best of three"})
    check.cov["long_run_inputs"] = len(tt)
    check.cov["long_run_worst_ratio_4x"] = round(worst, 2)
    # scaling (thorough): time must grow roughly linearly
    if tier == "thorough":
        unit = b"<?php function f($a) { if ($a) { return \"x $a[1] {$a->b}\"; } /* c */ return [1, 2.5, 'k' => $a]; }\n?>\n<b>html</b>\n"
        times = {}
        for mult in (500, 2000):
            tt = [{"op": "timing", "src": (unit * mult).decode("latin-1"), "ver": v, "limit_ms": 120000} for v in ("7.4", "5.6")]
            rr = wp.run(tt)
            times[mult] = sum(x.get("ms", 1e9) for x in rr)
        ratio = times[2000] / max(times[500], 1e-3)
        check.cov["scaling_ratio_4x_input"] = round(ratio, 2)
        if ratio > 12:
            check.violation({"class": "superlinear", "ratio_bucket": ">12"}, {"times_ms": times})
    check.assumptions += ["deadline per input 2 s + 50 us/byte inside a child process; heap limit 3 GiB",
                          "input space = Lexer.tla atoms x lexicon spellings, byte prefixes of corpus programs, seeded random bytes"]
    return check.finish({"rule": "inputs from Lexer.tla's transition cover (+ truncations of the last lexeme, + trailing CR), byte prefixes "
                                 "of programs, random byte soup; each under >= 3 (version, callback) combinations; distinct = distinct byte strings"})
