"""C02 - parse then print reproduces the source byte for byte.

Programs derived from Syntax.tla (SyntaxGen.tla, TLC) are rendered under several trivia layouts (every token slot of
every construct x white space / newline styles / comment styles), parsed and printed by the real code: whenever
no error is reported the printed bytes must equal the source.  The same for the error-free inputs of Lexer.tla's
transition cover (shebang, open/close tags, inline HTML, halt-compiler payload, heredocs ...), for the corpus and
for scaled programs that cross several 1024-entry allocation blocks."""
import random

from . import core, syntax, progs, lexgen, inputs, c01, printerout, cli


def run(tier):
    check = core.Check("C02", tier)
    rng = random.Random(core.seed())
    wp = core.WorkerPool(core.build_worker())
    n = 1200 if tier == "quick" else 10000
    layouts = ["none", "random", "crlf", "mix"] if tier == "quick" else ["none", "random", "space", "lf", "crlf", "block", "line", "hash_crlf", "doc", "mix"]
    big = []
    for family in ("7", "5"):
        table, behs = syntax.generate(check, family, num=n, seed=core.seed() + 2, depth=3)
        vers = progs.VERS[family] if tier == "thorough" else progs.VERS[family][:2]
        res = progs.run_programs(check, wp, family, behs, table, core.seed(), layouts, vers)
        res += progs.halt_programs(check, wp, family, core.seed(), layouts, vers, num=40 if tier == "quick" else 300)
        for m, t, r in res:
            check.count()
            check.distinct((family, m["i"], m["layout"], m["ver"]))
            if r.get("panic") or r.get("hang") or r.get("crash") or r.get("nerr", 1) > 0 or not r.get("root"):
                continue        # C01 / C03
            if not r["print_eq"]:
                check.violation({"class": "print-differs", "family": c01.family(t["src"].encode("latin-1"), m["ver"]),
                                 "context": (r.get("src_ctx") or "")[8:14]},
                                {"src": t["src"], "ver": m["ver"], "diff_at": r.get("print_diff_at"), "printed": r.get("printed_ctx"), "source": r.get("src_ctx")})
            # (programs with an empty heredoc are left out of the scaled sources: known finding D6 would make them useless)
            if m["layout"] == "random" and len(big) < (4000 if tier == "quick" else 12000) and m["ver"] == progs.VERS[family][0] and family == "7" \
                    and not ({"heredoc/empty", "nowdoc/empty", "stmt+halt"} & set(m["used"])):
                big.append(t["src"])
        if family == "7":
            check.sample({"direction": "spec->impl", "src": res[len(res) // 3][1]["src"]})
    # scaled programs: several pool blocks (tokens and positions)
    scaled = []
    for k in (700, 1500, len(big)):
        scaled.append(progs.join_programs(big[:k]))
    tasks = [{"op": "analyze", "src": s, "ver": v, "limit_ms": 60000} for s in scaled for v in ("7.4", "7.0")]
    for t, r in zip(tasks, wp.run(tasks)):
        check.count()
        if r.get("panic") or r.get("hang") or r.get("crash"):
            continue
        check.cov.setdefault("scaled_token_counts", []).append(r.get("ntok"))
        if r.get("nerr") == 0:
            check.cov["scaled_programs_parsed_clean"] = check.cov.get("scaled_programs_parsed_clean", 0) + 1
        if r.get("nerr") == 0 and r.get("print_eq") is False:
            check.violation({"class": "print-differs-scaled", "blocks": (r.get("ntok", 0) // 1024)},
                            {"ver": t["ver"], "ntok": r.get("ntok"), "diff_at": r.get("print_diff_at"), "printed": r.get("printed_ctx"), "source": r.get("src_ctx")})
        for f in r.get("fails") or []:
            if f["c"].startswith("C04."):
                check.violation({"class": "scaled-" + f["c"]}, {"ver": t["ver"], "ntok": r.get("ntok"), "fail": f})
    if not check.cov.get("scaled_programs_parsed_clean"):
        raise core.InfraError("no scaled program parsed without errors: the large-source part of C02 could not be decided")
    # error-free inputs of the scanner machine, corpus
    srcs = [c["src"] for c in lexgen.cases(check, tier, rng)] + [p["src"].encode("latin-1") for p in inputs.clean_programs(tier)]
    srcs = list(dict.fromkeys(srcs))
    tasks = [{"op": "analyze", "src": s.decode("latin-1"), "ver": v} for i, s in enumerate(srcs) for v in (("7.4", "5.6") if i % 2 else ("7.2", "5.6"))]
    nclean = 0
    for t, r in zip(tasks, wp.run(tasks)):
        check.count()
        if r.get("panic") or r.get("hang") or r.get("crash") or r.get("nerr", 1) > 0 or not r.get("root"):
            continue
        nclean += 1
        check.distinct(("lex", t["src"], t["ver"]))
        if r.get("print_eq") is False:
            src = t["src"].encode("latin-1")
            fam = c01.family(src, t["ver"])
            if fam == "other" and src.startswith(b"#!"):
                fam = "shebang-first"
            check.violation({"class": "print-differs", "family": fam, "context": (r.get("src_ctx") or "")[8:14]},
                            {"src": t["src"], "ver": t["ver"], "diff_at": r.get("print_diff_at"), "printed": r.get("printed_ctx"), "source": r.get("src_ctx")})
    check.cov["error_free_scanner_and_corpus_inputs"] = nclean
    # the printer's output stage on source-only chunk sequences (PrinterOut.tla, invariant SourceVerbatim):
    # nothing is ever inserted between tokens that all carry a position
    behs = printerout.behaviours(check, 3 if tier == "quick" else 4, cars=("src",))
    for b, want, got in printerout.replay(check, wp, behs):
        sig = printerout.classify(b, want, got)
        if sig.get("all_source"):
            check.violation(sig, {"behaviour": b, "expected_writes": want, "observed_writes": got})
    check.count(len(behs))
    check.cov["output_stage_behaviours"] = len(behs)
    # the command line tool's -pb (it overwrites the user's files): a directory of programs, templates that start with inline
    # HTML, files without a closing tag and files with errors; every file must hold what the library prints for it alone
    rng2 = random.Random(core.seed() + 202)
    pool = [p["src"] for p in inputs.programs(check, tier) if p["ver"] == "7.4"]
    files = rng2.sample(pool, min(len(pool), 150 if tier == "quick" else 1500))
    files += ["<html>\n<body><?php echo 1; ?></body>\n", "<b>x</b>", "<?php echo 1;\n", "<p><?= $a ?></p>\n<?php f();", "<?php $a = ; $b = 1;\n", "plain",
              "<?php\n$x = 1\n?>\ntail\n", "<?php function f( { }\n$x = 1;"] * 3
    files += cli.big_sources(pool)         # files of 70 KiB .. 300 KiB among the small ones
    rng2.shuffle(files)
    for sig, rep in cli.check_cli(check, wp, files, "7.4", [["-pb"]], procs_list=(1, 16) if tier == "quick" else (1, 2, 4, 16)):
        check.violation(sig, rep)
    # the obligation LRValues.tla puts on grammar actions (every empty / error production whose value is read assigns $$): a stale
    # value there puts a node of an EARLIER construct into the tree (foreign text, a node reachable twice, PHP 5 != PHP 7)
    from . import yaccobl
    for fam_ in ("7", "5"):
        for sig_, rep_ in yaccobl.check_family(check, fam_):
            check.violation(sig_, rep_)
    check.cov["traces_validated_against_impl"] = check.cov["evaluations"]
    check.assumptions += ["identity oracle: applies whenever zero errors are reported", "Syntax.tla / lexicon spellings define the input space"]
    return check.finish({"rule": "SyntaxGen derivations x %d layouts x versions; scaled programs (>1024 tokens); error-free Lexer.tla cases; corpus" % len(layouts)})
