"""C03 - valid programs are accepted and yield the tree PHP's grammar prescribes.

Syntax.tla is the reference abstract-to-concrete syntax (by node kind, PHP's documented precedence table);
SyntaxGen.tla derives programs from it (TLC: exhaustive for small expressions, sampled for whole programs).  Every
derivation is expanded into source + the one tree PHP prescribes for it, parsed by the real parser under the
versions of its family, and compared: zero reported errors, node kinds, child roles and order, list lengths,
values verbatim.  PHP 7-only syntax must be rejected under 5.x.  Token ids of Lexer.tla's transition cover
(keywords in any letter case, casts, number classification, mode-dependent tokens) must be the prescribed ones."""
import json
import random

from . import core, syntax, progs, lexgen


def needed_cats(fill):
    out = set()
    for x in fill.values():
        if not isinstance(x, dict):
            continue
        f = x.get("f")
        if f in ("ch", "ls"):
            out.add(x["cat"])
        elif f == "nd":
            out |= needed_cats(x["fill"])
        elif f == "sq":
            for it in x["items"]:
                out |= needed_cats({"_": it})
    return out


def exprset(table):
    """operator variants + a few atoms, closed under 'every category a variant mentions is inhabited'"""
    ids = {v["id"] for v in table["variants"] if "expr" in v["cats"] and v["lvl"] < 30}
    ids |= {"ExprVariable", "ScalarLnumber", "Name", "NamePart", "StmtExpression"}
    byid = {v["id"]: v for v in table["variants"]}
    changed = True
    while changed:
        changed = False
        cats = set()
        for i in ids:
            cats |= set(byid[i]["cats"])
        for i in sorted(ids):
            if not needed_cats(byid[i]["fill"]) <= cats:
                ids.discard(i)
                changed = True
    return sorted(ids)


def pre73(check, wp, tier):
    table, behs = syntax.generate(check, "pre73", num=150 if tier == "quick" else 1500, seed=core.seed() + 72, depth=2)
    old = {v["id"] for v in table["variants"] if v["fam"] == "pre73"}
    ex = progs.expand_all(table, behs, core.seed(), ["none", "random"])
    behs, ex = progs.drop_skipped(behs, ex)
    tasks = []
    for b, e in zip(behs, ex):
        if not (old & set(e["used"])) or ({"heredoc/empty", "nowdoc/empty"} & set(e["used"])):
            continue
        for var in e["variants"]:
            for ver in ("7.2", "7.0"):
                tasks.append({"op": "cmp_tree", "src": var["src"], "ver": ver, "exp": var["exp"], "_u": e["used"], "_accept": True})
            for ver in ("7.3", "7.4", "nil"):
                tasks.append({"op": "analyze", "src": var["src"], "ver": ver, "_u": e["used"], "_accept": False})
    out = []
    for t, r in zip(tasks, wp.run([{k: v for k, v in t.items() if not k.startswith("_")} for t in tasks])):
        check.count()
        check.distinct(("pre73", t["src"], t["ver"]))
        if r.get("panic") or r.get("hang") or r.get("crash"):
            continue
        if t["_accept"]:
            if r.get("nerr", 1) > 0 or not r.get("root"):
                out.append(({"class": "label-line-body-rejected-before-7.3", "ver": t["ver"]}, {"src": t["src"], "ver": t["ver"], "errors": r.get("errs")}))
            else:
                for f in r.get("fails") or []:
                    if f["c"] in progs.STRUCT:
                        out.append(({"class": f["c"], "kind": f.get("kind"), "slot": progs.slot_of(f["path"]), "family": "pre73", "got": None},
                                    {"src": t["src"], "ver": t["ver"], "fail": f, "variants": t["_u"]}))
        elif r.get("nerr", 0) == 0:
            out.append(({"class": "label-line-not-reported-from-7.3", "ver": t["ver"]}, {"src": t["src"], "ver": t["ver"]}))
    check.cov["pre73_runs"] = check.cov.get("pre73_runs", 0) + len(tasks)
    if not tasks:
        raise core.InfraError("no pre-7.3 heredoc program was generated")
    return out


def classify(check, results, table):
    for m, t, r in results:
        check.count()
        check.distinct((m["family"], m["i"], m["layout"], m["ver"]))
        if str(r.get("panic") or "").startswith("verif: node of unknown kind"):
            # the returned tree holds an object that is none of pkg/ast's node kinds (a parser-internal helper left in place)
            check.violation({"class": "foreign-node-kind", "family": m["family"], "got": str(r["panic"]).split(" ")[-1]},
                            {"src": t["src"], "ver": m["ver"], "observed": r["panic"], "variants": m["used"]})
            continue
        if r.get("panic") or r.get("hang") or r.get("crash"):
            continue                   # C01's business
        sig_used = [u for u in m["used"]]
        if r["nerr"] > 0 or not r.get("root"):
            check.violation({"class": "valid-program-rejected", "family": m["family"], "msg": (r.get("errs") or [{}])[0].get("msg", "")[:60]},
                            {"src": t["src"], "ver": m["ver"], "errors": r.get("errs"), "variants": sig_used})
            continue
        for f in r.get("fails") or []:
            if f["c"] in progs.STRUCT:
                check.violation({"class": f["c"], "kind": f.get("kind"), "slot": progs.slot_of(f["path"]), "family": m["family"],
                                 "got": f.get("got") if f["c"] == "kind" else None},
                                {"src": t["src"], "ver": m["ver"], "fail": f, "variants": sig_used})


# PHP's literal syntax (language.types.integer / float): every spelling class, as an expression statement operand.
# (class, spelling, node kind); "7" = needs >= 7.4 (numeric separator)
LITERALS = [
    ("dec", "0", "ScalarLnumber", "both"), ("dec", "42", "ScalarLnumber", "both"), ("dec-max", "9223372036854775807", "ScalarLnumber", "both"),
    ("dec-overflow", "9223372036854775808", "ScalarDnumber", "both"),
    ("oct", "0777", "ScalarLnumber", "both"), ("oct", "00", "ScalarLnumber", "both"),
    ("hex-lower", "0x1f", "ScalarLnumber", "both"), ("hex-lower", "0xAB", "ScalarLnumber", "both"),
    ("hex-upper", "0X1F", "ScalarLnumber", "both"), ("hex-upper", "0Xab", "ScalarLnumber", "both"),
    ("bin-lower", "0b101", "ScalarLnumber", "both"), ("bin-upper", "0B101", "ScalarLnumber", "both"),
    ("sep", "1_000", "ScalarLnumber", "7"), ("sep", "0x1_F", "ScalarLnumber", "7"), ("sep", "0b1_0", "ScalarLnumber", "7"), ("sep", "1_0.2_5", "ScalarDnumber", "7"),
    ("float", "1.5", "ScalarDnumber", "both"), ("float", ".5", "ScalarDnumber", "both"), ("float", "1.", "ScalarDnumber", "both"),
    ("float-exp", "1e3", "ScalarDnumber", "both"), ("float-exp", "1E3", "ScalarDnumber", "both"), ("float-exp", "1.5e-3", "ScalarDnumber", "both"),
    ("float-exp", "2E+10", "ScalarDnumber", "both"), ("float-exp", ".5e1", "ScalarDnumber", "both"),
    ("str-sq", "'x y'", "ScalarString", "both"), ("str-dq", '"x y"', "ScalarString", "both"),
    ("bin-dq", 'b"x"', "ScalarString", "both"), ("bin-dq", 'B"x y"', "ScalarString", "both"),
    ("bin-sq", "b'x'", "ScalarString", "both"), ("bin-sq", "B'x y'", "ScalarString", "both"),
]


def literal_cases():
    out = []
    for cls, lit, kind, fam in LITERALS:
        for tmpl, path in (("<?php $a = %s;", ("Stmts", 0, "Expr", "Expr")), ("<?php f(%s , 1);", ("Stmts", 0, "Expr", "Args", 0, "Expr")),
                           ("<?php return -%s;", ("Stmts", 0, "Expr", "Expr"))):
            out.append({"cls": cls, "lit": lit, "kind": kind, "fam": fam, "src": tmpl % lit, "path": path})
    return out


def walk_path(tree, path):
    n = tree
    for p in path:
        if n is None:
            return None
        if isinstance(p, int):
            n = n[p] if isinstance(n, list) and p < len(n) else None
        else:
            n = (n.get("f") or {}).get(p) if isinstance(n, dict) else None
    return n


def run(tier):
    check = core.Check("C03", tier)
    rng = random.Random(core.seed())
    wp = core.WorkerPool(core.build_worker())
    n = 1500 if tier == "quick" else 12000
    uncovered = {}
    for family in ("7", "5"):
        table, behs = syntax.generate(check, family, num=n, seed=core.seed(), depth=3)
        vers = progs.VERS[family][:2] if tier == "quick" else progs.VERS[family]
        res = progs.run_programs(check, wp, family, behs, table, core.seed(), ["none", "random"], vers)
        res += progs.halt_programs(check, wp, family, core.seed(), ["none", "lf", "crlf", "blank"], vers, num=40 if tier == "quick" else 300)
        classify(check, res, table)
        total, miss = progs.coverage(table, family, res)
        uncovered[family] = miss
        check.cov["variants_%s" % family] = total
        # which productions of the real grammar did these programs reach?  (goyacc debug stream, see LRDriver.tla)
        covsrc = [t["src"] for (m, t, r) in res if m["layout"] == "none" and m["ver"] == vers[0]]
        if family == "7":
            sample = res[len(res) // 2]
            check.sample({"direction": "spec->impl", "src": sample[1]["src"], "variants_used": sample[0]["used"][:12]})
        # exhaustive small expressions (precedence / associativity / casts / ternary on combinations).  quick: every pair and
        # chain of three operators with variables as the only atoms (precedence and associativity are decided on pairs);
        # thorough: the same with numbers and names as atoms too
        allowed = exprset(table) if tier == "thorough" else [i for i in exprset(table) if i != "ScalarLnumber"]
        table, behs = syntax.generate(check, family, rootcat="stmt", rootmax=1, depth=4, allowed=allowed,
                                      exhaustive=True, maxchoices=7, timeout=3000)
        res = progs.run_programs(check, wp, family, behs, table, core.seed(), ["none"], progs.VERS[family][:1])
        classify(check, res, table)
        chainres = res
        check.cov["exhaustive_expressions_%s" % family] = len(behs)
        # the same for constant expressions (PHP 5 has a grammar of its own for them: static_operation)
        byid = {v["id"]: v for v in table["variants"]}
        cexpr = sorted(i for i, v in byid.items() if i.startswith("static/")) + ["ScalarLnumber", "StmtStatic", "StmtStaticVar/init", "Name", "NamePart"]
        table, behs = syntax.generate(check, family, rootcat="stmt", rootmax=1, depth=4, allowed=cexpr, exhaustive=True, maxchoices=9, timeout=3000)
        res = progs.run_programs(check, wp, family, behs, table, core.seed(), ["none"], progs.VERS[family][:1])
        classify(check, res, table)
        check.cov["exhaustive_constant_expressions_%s" % family] = len(behs)
        covsrc += [t["src"] for (m, t, r) in res]
        covsrc += [t["src"] for (m, t, r) in chainres[:: max(1, len(chainres) // 6000)]]
        lt = [{"op": "lrtrace", "src": x, "ver": vers[0], "tables": k == 0} for k, x in enumerate(dict.fromkeys(covsrc))]
        rules, nrules = set(), 0
        for r in wp.run(lt):
            if r.get("panic") or r.get("hang") or r.get("crash"):
                continue
            nrules = nrules or len(r.get("r2") or [])
            rules.update(e[1] for e in r["evs"] if e[0] == "reduce")
        check.cov["grammar_rules_reduced_%s" % family] = "%d of %d" % (len(rules), max(nrules - 1, 0))
        check.cov["grammar_rules_never_reduced_%s" % family] = [i for i in range(1, nrules) if i not in rules][:400]
    # programs nested a dozen and more blocks deep (the scanner's call stack, the parser's state stack and the visitors' recursion
    # have thresholds of their own): accepted, with the prescribed tree
    for family in ("7", "5"):
        res = progs.deep_programs(check, wp, family, core.seed(), 60 if tier == "quick" else 600)
        classify(check, res, None)
        check.cov["deep_programs_%s" % family] = len(res)
    # every mix of the forms of if / elseif / else nested in each other (an else binds to the nearest if), of loops, of try and of
    # switch: accepted, with the prescribed tree (SyntaxGen's self-nesting mode with a family as the focus, exhaustive)
    for family in ("7", "5"):
        for fam_name, w in (("if", 5 if tier == "quick" else 6), ("loop", 2), ("try", 3), ("switch", 3)):
            tf, bf = progs.family_nesting(check, family, fam_name, w)
            res = progs.run_programs(check, wp, family, bf, tf, core.seed(), ["none"], progs.VERS[family][:1])
            for m, t, r in res:
                m["i"] += 8000000 + 100000 * len(fam_name)
            classify(check, res, None)
            check.cov["family_nesting_%s_%s" % (fam_name, family)] = len(res)
    # a sequence of two valid statements is accepted and is the two statements
    for family in ("7", "5"):
        for a, b, ver, what, detail in progs.statement_pairs(check, wp, family, core.seed(), 20000 if tier == "quick" else 300000):
            if what != "shared-node":
                check.violation({"class": what, "family": family}, {"src": "<?php " + a + "\n" + b, "ver": ver, "first": a, "second": b, "detail": detail})
    # the obligation LRValues.tla puts on grammar actions (every empty / error production whose value is read assigns $$): a stale
    # value there puts a node of an EARLIER construct into the tree (foreign text, a node reachable twice, PHP 5 != PHP 7)
    from . import yaccobl
    for fam_ in ("7", "5"):
        for sig_, rep_ in yaccobl.check_family(check, fam_):
            check.violation(sig_, rep_)
    check.cov["variants_never_generated"] = uncovered
    # version gating: PHP 7-only syntax must be reported under 5.x
    table, behs = syntax.generate(check, "7", num=n, seed=core.seed() + 7, depth=3)
    only7 = {v["id"] for v in table["variants"] if v["fam"] == "7"}
    ex = progs.expand_all(table, behs, core.seed(), ["none"])
    behs, ex = progs.drop_skipped(behs, ex)
    tasks = []
    for b, e in zip(behs, ex):
        if only7 & set(e["used"]):
            tasks.append({"op": "analyze", "src": e["variants"][0]["src"], "ver": "5.6", "_u": sorted(only7 & set(e["used"]))})
    res = wp.run([{k: v for k, v in t.items() if k != "_u"} for t in tasks])
    for t, r in zip(tasks, res):
        check.count()
        if r.get("panic") or r.get("hang") or r.get("crash"):
            continue
        if r.get("nerr", 0) == 0:
            check.violation({"class": "php7-only-syntax-accepted-by-php5", "variant": t["_u"][0]}, {"src": t["src"], "ver": "5.6", "php7_only": t["_u"]})
    check.cov["gating_programs"] = len(tasks)
    # the flexible heredoc terminator (indented closing label, label followed by ',' or ')') exists from 7.3 on: accepted with
    # the prescribed tree under 7.3 and 7.4 (and with no version given), reported under every older version
    table, behs = syntax.generate(check, "73", num=150 if tier == "quick" else 1500, seed=core.seed() + 73, depth=2)
    flex = {v["id"] for v in table["variants"] if v["fam"] == "73"}
    ex = progs.expand_all(table, behs, core.seed(), ["none", "random"])
    behs, ex = progs.drop_skipped(behs, ex)
    tasks = []
    for b, e in zip(behs, ex):
        if not (flex & set(e["used"])) or ({"heredoc/empty", "nowdoc/empty"} & set(e["used"])):
            continue
        for var in e["variants"]:
            for ver in ("7.3", "7.4", "nil"):
                tasks.append({"op": "cmp_tree", "src": var["src"], "ver": ver, "exp": var["exp"], "_u": e["used"], "_accept": True})
            for ver in ("7.2", "7.0", "7.1") if tier == "thorough" else ("7.2", "7.0"):
                tasks.append({"op": "analyze", "src": var["src"], "ver": ver, "_u": e["used"], "_accept": False})
    res = wp.run([{k: v for k, v in t.items() if not k.startswith("_")} for t in tasks])
    for t, r in zip(tasks, res):
        check.count()
        check.distinct(("flex", t["src"], t["ver"]))
        if r.get("panic") or r.get("hang") or r.get("crash"):
            continue
        if t["_accept"]:
            if r.get("nerr", 1) > 0 or not r.get("root"):
                check.violation({"class": "flexible-heredoc-rejected", "ver": t["ver"]}, {"src": t["src"], "ver": t["ver"], "errors": r.get("errs")})
            else:
                for f in r.get("fails") or []:
                    if f["c"] in progs.STRUCT:
                        check.violation({"class": f["c"], "kind": f.get("kind"), "slot": progs.slot_of(f["path"]), "family": "73", "got": None},
                                        {"src": t["src"], "ver": t["ver"], "fail": f, "variants": t["_u"]})
        elif r.get("nerr", 0) == 0:
            check.violation({"class": "flexible-heredoc-accepted-before-7.3", "ver": t["ver"]}, {"src": t["src"], "ver": t["ver"]})
    check.cov["flexible_heredoc_runs"] = len(tasks)
    # the other side of the 7.3 change: a body line that begins with the label and goes on is body text before 7.3 (accepted with
    # the prescribed tree under 7.0 - 7.2) and ends the heredoc from 7.3 on (reported under 7.3, 7.4 and with no version given)
    for sig, rep in pre73(check, wp, tier):
        check.violation(sig, rep)
    # token ids prescribed by Lexer.tla
    lc = lexgen.cases(check, tier, rng)
    res = wp.run([{"op": "lex", "src": c["src"].decode("latin-1"), "ver": "7.4" if c["flex"] else "7.2"} for c in lc])
    nlex = 0
    for c, r in zip(lc, res):
        if not c["exact"] or r.get("panic") or r.get("hang") or r.get("crash") or r.get("no_progress"):
            continue
        nlex += 1
        check.count()
        got = [g[0] for g in lexgen.flatten(r["evs"])]
        exp = [e[0] for e in c["exp"]]
        if got != exp and len(got) == len(exp):
            k = [i for i in range(len(exp)) if got[i] != exp[i]][0]
            check.violation({"class": "token-id", "want": exp[k], "got": got[k]},
                            {"path": c["path"], "src": c["src"].decode("latin-1"), "flex": c["flex"], "expected_ids": exp, "observed_ids": got})
    check.cov["lexer_streams_compared"] = nlex
    # literal spellings
    lits = literal_cases()
    tasks = [{"op": "tree", "src": c["src"], "ver": v, "_c": c} for c in lits for v in (("7.4", "5.6") if c["fam"] == "both" else ("7.4",))]
    for t, r in zip(tasks, wp.run([{k: v for k, v in t.items() if k != "_c"} for t in tasks])):
        c = t["_c"]
        check.count()
        check.distinct(("literal", c["src"], t["ver"]))
        if r.get("panic") or r.get("hang") or r.get("crash"):
            continue
        if r.get("errs"):
            check.violation({"class": "literal-rejected", "literal_class": c["cls"]}, {"src": c["src"], "ver": t["ver"], "errors": r.get("errs")})
            continue
        n = walk_path(r.get("tree"), c["path"])
        val = ((n or {}).get("f") or {}).get("Value", {}).get("val") if isinstance(n, dict) else None
        if not isinstance(n, dict) or n.get("k") != c["kind"] or val != c["lit"]:
            check.violation({"class": "literal-node", "literal_class": c["cls"], "got": (n or {}).get("k") if isinstance(n, dict) else None},
                            {"src": c["src"], "ver": t["ver"], "expected": [c["kind"], c["lit"]], "observed": n})
    check.cov["literal_cases"] = len(tasks)
    check.cov["traces_validated_against_impl"] = check.cov.get("evaluations", 0)
    check.assumptions += ["Syntax.tla: my transcription of PHP's grammar by node kind and of the documented precedence table",
                          "expander vf/syntax.py (interprets the exported table), lexeme spellings, conservative Fuses rule"]
    return check.finish({"rule": "derivations of SyntaxGen.tla (sampled, depth 3) for both families x 2 layouts x versions; all expression "
                                 "statements with a derivation of <= 7 choices (exhaustive; quick: variables as the only atoms); distinct = (family, derivation, layout, version)"})
