"""C09 - version selection is exact and only matters where the languages differ.

Version.tla is checked exhaustively by TLC (both textual copies of the ranges coincide with the supported
set on D x D, the order is total, classes are sound); its exported tables are replayed on version.New /
Validate / Compare / InRange / parser.Parse.  Metamorphic part: every input under all 12 supported versions;
within a class (family, >= 7.3?) trees and errors must be identical; nil behaves as 7.4."""
import itertools
import json
import random

from . import core, inputs

BIG = {11: 2 ** 32 + 5, 12: 2 ** 64 - 1}
SUPPORTED = ["5.0", "5.1", "5.2", "5.3", "5.4", "5.5", "5.6", "7.0", "7.1", "7.2", "7.3", "7.4"]

FLEX_INPUTS = [
    "<?php echo <<<A\n  x\n  A;\n", "<?php echo <<<A\nx\nA . 'y';\n", "<?php $a = [<<<A\n  x\n  A, 1];\n",
    "<?php echo <<<'A'\n  x $y\n   A;\n", "<?php echo <<<A\n  $x y\n A\n;", "<?php f(<<<A\nx\nA);\n",
    "<?php echo <<<A\nx\nAB\nA;\n", "<?php echo <<<A\n A1\nA;\n", "<?php echo <<<\"A\"\n\tq {$z}\n\tA ;\n",
]


def conc(d):
    return BIG.get(d, d)


def cls(ver):
    maj, mi = ver.split(".")
    return (maj, int(maj) == 7 and int(mi) >= 3)


def run(tier):
    check = core.Check("C09", tier)
    rng = random.Random(core.seed())
    wp = core.WorkerPool(core.build_worker())
    dmax = 12
    alpha = ["0", "1", "7", "9", ".", "x", "+", "-", " "]
    maxlen = 4 if tier == "quick" else 5
    cfg = ("SPECIFICATION Spec\nCONSTANT D <- MCD\nCONSTANT MaxLen = %d\nCONSTANT Alphabet <- MCAlphabet\n"
           "INVARIANTS Exact Family DefaultOK AntiSym EqIffSame TotalOrder ClassSound\nCHECK_DEADLOCK FALSE\n" % (maxlen,))
    mc = ("---- MODULE MCVersion ----\nEXTENDS Version\nMCD == 0 .. %d\nMCAlphabet == {%s}\nASSUME ExportTable\nASSUME ExportStrings\n====\n"
          % (dmax, ", ".join('"%s"' % a for a in alpha)))
    r = core.tlc("MCVersion", cfg, files={"MCVersion.tla": mc}, timeout=1200, heap="8g")
    check.add_tlc("Version(D=0..%d, strings<=%d over %d symbols)" % (dmax, maxlen, len(alpha)), r)
    table = strings = None
    for o in r.out:
        if "table" in o:
            table = o["table"][0]
        if "strings" in o:
            strings = o["strings"]
    if table is None or strings is None:
        raise core.InfraError("Version.tla did not export its tables")
    rows = table if isinstance(table, list) else list(table.values())

    # ---- replay of the pair table
    tasks = []
    meta = []
    src = "<?php echo 1;"
    for row in rows:
        maj, mi, valid, disp, flex = row
        omaj, omi = rng.randrange(dmax + 1), rng.randrange(dmax + 1)
        for (a, b) in ((omaj, omi), (maj, mi), (maj, omi), (omaj, mi)):
            tasks.append({"op": "version_pair", "maj": str(conc(maj)), "min": str(conc(mi)),
                          "omaj": str(conc(a)), "omin": str(conc(b)), "src": src})
            meta.append((maj, mi, valid, disp, a, b))
    res = wp.run(tasks)
    for t, m, rr in zip(tasks, meta, res):
        check.count()
        maj, mi, valid, disp, a, b = m
        check.distinct(("pair", maj, mi))
        if rr.get("panic") or rr.get("hang") or rr.get("crash"):
            check.violation({"class": "crash", "site": rr.get("site")}, {"task": t, "observed": rr})
            continue
        want_cmp = (conc(maj), conc(mi)) > (conc(a), conc(b))
        want_cmp = 1 if want_cmp else (0 if (maj, mi) == (a, b) else -1)
        bad = None
        if rr["valid"] != valid:
            bad = "validate-differs-from-supported-set"
        elif rr["range_err"] != (disp == "range_error") or rr["tree"] != (disp != "range_error") or rr["other_err"]:
            bad = "parse-dispatch-differs-from-supported-set"
        elif rr["cmp"] != want_cmp or rr["less"] != (want_cmp < 0) or rr["le"] != (want_cmp <= 0) \
                or rr["greater"] != (want_cmp > 0) or rr["ge"] != (want_cmp >= 0) or not rr["inrange_self"]:
            bad = "order"
        if bad:
            inside = "supported" if valid else "unsupported"
            check.violation({"class": bad, "region": inside, "major": maj if maj in (5, 7) else "other"},
                            {"task": t, "spec": {"valid": valid, "dispatch": disp, "cmp": want_cmp}, "observed": rr})
    check.sample({"direction": "spec->impl", "pair": rows[len(rows) // 2]})

    # ---- version strings
    smeta = []
    tasks = []
    for s, isv, val in strings:
        text = "".join(s)
        tasks.append({"op": "version_str", "s": text})
        smeta.append((text, isv, val))
    res = wp.run(tasks)
    accepted_invalid = 0
    good = []
    for (text, isv, val), rr in zip(smeta, res):
        check.count()
        check.distinct(("str", text))
        if rr.get("panic") or rr.get("hang") or rr.get("crash"):
            check.violation({"class": "crash", "site": rr.get("site")}, {"string": text, "observed": rr})
            continue
        if isv:
            if not rr["ok"] or [rr["maj"], rr["min"]] != list(val):
                check.violation({"class": "version-string", "shape": "digits.digits"},
                                {"string": text, "spec_value": val, "observed": rr})
            elif rr.get("again_ok") is False or [rr.get("again_maj"), rr.get("again_min")] != list(val):
                check.violation({"class": "version-string-depends-on-history"},
                                {"string": text, "spec_value": val, "second_parse_after_the_caller_changed_the_first_result": rr})
            else:
                good.append((text, tuple(val)))
        elif rr["ok"]:
            accepted_invalid += 1   # not forbidden by the property; reported only
    check.cov["malformed_strings_accepted_by_impl"] = accepted_invalid
    check.sample({"direction": "spec->impl", "string": smeta[len(smeta) // 2]})

    # ---- metamorphic: same class => identical trees and errors; nil == 7.4
    srcs = [c["src"] for c in inputs.corpus()] + FLEX_INPUTS
    if tier == "quick":
        srcs = rng.sample(srcs, 120) + FLEX_INPUTS
    tasks = []
    for s in srcs:
        for ver in SUPPORTED + ["nil"]:
            tasks.append({"op": "analyze", "src": s, "ver": ver})
    res = wp.run(tasks)
    k = len(SUPPORTED) + 1
    discriminating = 0
    for i, s in enumerate(srcs):
        rs = res[i * k:(i + 1) * k]
        if any(r.get("panic") or r.get("hang") or r.get("crash") for r in rs):
            continue      # crashes are C01's business
        check.count(k)
        check.distinct(("meta", s))
        obs = {ver: (r.get("root"), r.get("fp"), json.dumps(r.get("errs"))) for ver, r in zip(SUPPORTED + ["nil"], rs)}
        groups = {}
        for ver in SUPPORTED:
            groups.setdefault(cls(ver), []).append(ver)
        for c, vers in groups.items():
            for ver in vers[1:]:
                if obs[ver] != obs[vers[0]]:
                    check.violation({"class": "same-class-differs", "family": c[0], "flex": c[1]},
                                    {"src": s, "versions": [vers[0], ver], "observed": [obs[vers[0]], obs[ver]]})
                    break
        if obs["nil"] != obs["7.4"]:
            check.violation({"class": "nil-is-not-7.4"}, {"src": s, "observed": [obs["nil"], obs["7.4"]]})
        if obs["7.4"] != obs["7.2"]:
            discriminating += 1
    check.cov["inputs_on_which_7.2_and_7.4_differ"] = discriminating
    check.cov["traces_validated_against_impl"] = len(rows) + len(strings) + len(srcs)
    check.assumptions += ["D = 0..12 mapped order-preservingly to uint64 (11 -> 2^32+5, 12 -> 2^64-1)",
                          "malformed version strings are only required not to crash (the property does not say they are rejected)"]
    return check.finish({"exhaustive": True,
                         "rule": "all pairs of D x D (13x13) with 4 comparison partners each; all strings of <=%d symbols over %s; "
                                 "every metamorphic input x 12 versions + nil" % (maxlen, alpha)})
