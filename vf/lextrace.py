"""Recording, flattening and TLC validation of scanner traces (LexerTrace.tla)."""
import json
import re

from . import core

WORDB = re.compile(rb"[A-Za-z0-9_\x80-\xff]")
CFG = "SPECIFICATION TSpec\nCONSTRAINT HighWater\nPOSTCONDITION Accepted\nCHECK_DEADLOCK FALSE\n"
MODEMAP = {"template_string": "template", "string_var_name": "svname"}


def spec_id(i):
    m = re.match(r"ID\((\d+)\)$", i)
    if m:
        return "CH:" + chr(int(m.group(1)))
    return i


def heredoc_kind(src, tok_s, tok_e, flex):
    text = src[tok_s:tok_e]
    m = re.match(rb"[bB]?<<<[ \t]*(['\"]?)([A-Za-z_\x80-\xff][A-Za-z0-9_\x80-\xff]*)\1\r?[\r\n]", text, re.S)
    if not m:
        return "heredoc"
    label = m.group(2)
    rest = src[tok_e:]
    if flex:
        r2 = rest.lstrip(b" \t")
        if r2.startswith(label) and not WORDB.match(r2[len(label):len(label) + 1] or b" "):
            return "heredoc_end"
    else:
        if rest.startswith(label):
            tail = rest[len(label):]
            if tail[:1] in (b"", b"\r", b"\n") or (tail[:1] == b";" and tail[1:2] in (b"", b"\r", b"\n")):
                return "heredoc_end"
    return "nowdoc" if m.group(1) == b"'" else "heredoc"


def flatten(src, evs, flex):
    """One lex-op result -> flattened event list for LexerTrace."""
    out = [{"k": "reset"}]
    for ev in evs:
        nerr = ev["nerr"]
        for f in ev.get("ff") or []:
            out.append({"k": "ff", "id": spec_id(f["id"]), "s": f["s"], "e": f["e"], "nerr": nerr})
        if ev["id"] == "ID(0)":
            out.append({"k": "eof", "nerr": nerr})
            continue
        e = {"k": "tok", "id": spec_id(ev["id"]), "s": ev["s"], "e": ev["e"], "nerr": nerr,
             "m1": MODEMAP.get(ev["mode"], ev["mode"]), "st1": [MODEMAP.get(x, x) for x in (ev["stack"] or [])]}
        text = src[ev["s"]:ev["e"]]
        if ev["id"] == "ID(59)":
            e["closetag"] = b"?>" in text
        if ev["id"] == "T_START_HEREDOC":
            e["hd"] = heredoc_kind(src, ev["s"], ev["e"], flex)
        if ev["id"] == "T_ENCAPSED_AND_WHITESPACE":
            nb = src[ev["e"]:ev["e"] + 1]
            e["next"] = "lone" if text == b"$" else ("eof" if nb == b"" else ("var" if nb in (b"$", b"{") else "other"))
        out.append(e)
    for e in out:
        e.setdefault("id", "")
        e.setdefault("s", 0)
        e.setdefault("e", 0)
        e.setdefault("nerr", 0)
        e.setdefault("m1", "")
        e.setdefault("st1", [])
        e.setdefault("closetag", False)
        e.setdefault("hd", "")
        e.setdefault("next", "")
    return out


def validate(events, check, label, timeout=1200):
    nd = "\n".join(json.dumps(e) for e in events) + "\n"
    r = core.tlc("LexerTrace", CFG, workers=1, files={"trace.ndjson": nd}, allow_violation=True, timeout=timeout, heap="8g")
    check.add_tlc("LexerTrace(%s)" % label, r, kind="trace_validation")
    at = None
    for o in r.out:
        if isinstance(o, list) and o and o[0] == "REJECTED_AT":
            at = o[1]
    return r.violated is None, at


def validate_all(traces, check, label):
    """traces: list of (meta, events).  Validates them in one TLC run; on rejection isolates the offending trace,
    drops it and continues, so that the rest is still checked.  Returns list of (meta, event) rejections."""
    rejected = []
    todo = list(traces)
    rounds = 0
    while todo and rounds < 25:
        rounds += 1
        events = []
        index = []
        for k, (meta, evs) in enumerate(todo):
            index.append((len(events), k))
            events += evs
        ok, at = validate(events, check, "%s,round%d,%d traces" % (label, rounds, len(todo)))
        if ok:
            break
        if at is None:
            raise core.InfraError("LexerTrace rejected a trace without reporting where")
        k = max(i for (start, i) in index if start < at)
        start = [s for (s, i) in index if i == k][0]
        meta, evs = todo[k]
        rejected.append((meta, evs[at - 1 - start], evs[max(0, at - 4 - start):at - start]))
        todo = todo[k + 1:]          # everything before k was accepted
    return rejected
