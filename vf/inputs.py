"""Program sources shared by several checks: the repository's own test snippets (inputs only) and programs derived
from Syntax.tla by SyntaxGen.tla (sampled derivations under the random layout, every short access chain, programs
ending in __halt_compiler)."""
import json
import os
import random

from . import core


def corpus():
    return json.load(open(os.path.join(core.VERIF, "corpus", "repo_snippets.json")))


def clean_programs(tier, check=None):
    """Programs that are expected to parse; each with the versions to try."""
    out = []
    for c in corpus():
        for ver in ("7.4", "5.6"):
            out.append({"src": c["src"], "ver": ver})
    extra = os.path.join(core.VERIF, "corpus", "files")
    if os.path.isdir(extra):
        for f in sorted(os.listdir(extra)):
            src = open(os.path.join(extra, f), "rb").read().decode("latin-1")
            vers = ("7.4", "7.0") if "php7" in f else ("7.4", "5.6")
            for ver in vers:
                out.append({"src": src, "ver": ver})
    return out


_gen_cache = {}


def programs(check, tier, n=None):
    """corpus + generated programs; each {"src", "ver"}.  Derivations using the empty heredoc (known finding D6: the
    scanner may panic on it under >= 7.3) are left out, so that users of this list see only clean parses."""
    from . import syntax, progs
    n = n or (400 if tier == "quick" else 3000)
    key = (tier, n, core.seed())
    if key not in _gen_cache:
        out = []
        for family in ("7", "5"):
            table, behs = syntax.generate(check, family, num=n, seed=core.seed() + 31, depth=3)
            t0, _ = table, None
            tc, bc = syntax.generate(check, family, rootcat="stmt", rootmax=1, depth=4,
                                     allowed=progs.chain_set(table, ("both", "7", "7g") if family == "7" else ("both", "5")),
                                     exhaustive=True, maxchoices=5 if tier == "quick" else 6, timeout=2400)
            th, bh = syntax.generate(check, family, rootcat="toplast", rootmax=1, num=20, seed=core.seed() + 9, depth=2)
            tn, bn = syntax.generate(check, family, rootcat="nsonly", rootmax=2, num=40, seed=core.seed() + 9, depth=3)
            # long lists (every repeatable list has 4 .. 9 items: names of many parts, long argument / parameter / use lists ...) and
            # constructs nested in themselves (SyntaxGen's long-list and self-nesting modes)
            tl, bl = progs.long_list_programs(check, family, core.seed(), 150 if tier == "quick" else 1500)
            ts, bs_, _ = progs.self_nesting_programs(check, family, core.seed(), 2500 if tier == "quick" else 20000)
            to, bo, _ = progs.nesting_operator_programs(check, family, core.seed(), 3 if tier == "quick" else 4)
            for tab, bs, lay in ((table, behs, "random"), (tc, bc, "none"), (th, bh, "random"), (tn, bn, "random"), (tl, bl, "random"), (ts, bs_, "none"),
                                 (to, bo, "none")):
                ex = progs.expand_all(tab, bs, core.seed(), [lay])
                for e in ex:
                    if e.get("skip") or ({"heredoc/empty", "nowdoc/empty"} & set(e["used"])):
                        continue
                    for ver in progs.VERS[family][:1]:
                        out.append({"src": e["variants"][0]["src"], "ver": ver, "used": e["used"]})
        _gen_cache[key] = out
    return clean_programs(tier, check) + [dict(p) for p in _gen_cache[key]] + long_token_programs()


def long_token_programs():
    """valid programs whose single tokens are long (around and above the usual buffer sizes 256, 4096, 65536): string literals,
    comments, doc comments, inline HTML, heredoc / nowdoc bodies, names, numbers"""
    out = []
    for n in (240, 300, 5000, 70000):
        body = ("lorem ipsum %d " % n) * (n // 12 + 1)
        body = body[:n]
        parts = ["$a = '%s';" % body, '$b = "%s $a %s";' % (body[: n // 2], body[: n // 2]), "/* %s */ $c = 1;" % body, "/** %s */ function f%d() {}" % (body, n),
                 "// %s\n$d = 2;" % body.replace("\n", " "), "echo <<<EOT\n%s $a\n%s\nEOT;\n" % (body[: n // 2], body[: n // 2]), "echo <<<'EOT'\n%s\nEOT;\n" % body]
        if n <= 5000:
            parts.append("$%s = %s;" % ("v" * n, "9" * n))
        src = "<?php\n" + "\n".join(parts) + "\n?>" + body + "<?php $e = 3;\n"
        for ver in ("7.4", "5.6"):
            out.append({"src": src, "ver": ver})
        for k, p in enumerate(parts):
            out.append({"src": "<?php\n" + p + "\n", "ver": "7.4" if k % 2 else "5.6"})
    # tokens of many LINES that begin in column 0 of a later line (bodies of heredocs / nowdocs, HTML blocks, comments, strings)
    for nl in ("\n", "\r\n"):
        for n in (9, 12, 40, 130):
            lines = nl.join("line %d of %d" % (k, n) for k in range(n))
            parts = ["$a = 1;", "echo <<<'EOT'" + nl + lines + nl + "EOT;" + nl, "$b = 2;", "echo <<<EOT" + nl + lines + " $a" + nl + lines + nl + "EOT;" + nl,
                     "/*" + nl + lines + nl + "*/", "$c = '" + nl + lines + "';", "?>" + nl + lines + nl + "<?php $d = 3;"]
            out.append({"src": "<?php" + nl + nl.join(parts) + nl, "ver": "7.4"})
            out.append({"src": "<?php" + nl + nl.join(parts) + nl, "ver": "5.6"})
    return out


def byte_programs():
    """valid programs that carry every byte value in places where PHP allows arbitrary bytes: string bodies, comments, inline
    HTML, heredoc/nowdoc bodies, and (>= 0x80) names.  Sources are not valid UTF-8."""
    out = []
    for b in list(range(0x00, 0x20)) + [0x22, 0x27, 0x5c, 0x60, 0x7f] + list(range(0x80, 0x100)):
        c = bytes([b]).decode("latin-1")
        sq = c if b not in (0x27, 0x5c) else "\\" + c
        dq = c if b not in (0x22, 0x5c, 0x24) else "\\" + c
        parts = ["$a = 'x%sy';" % sq, '$b = "p%sq $a r%s";' % (dq, dq)]
        if b not in (0x0a, 0x0d):
            parts.append("// c%s c" % c)
        parts.append("/* k%sk */ $c = 1;" % c)
        parts.append("echo <<<EOT\nh%s $a %sz\nEOT;\n" % (dq if b != 0x22 else c, dq if b != 0x22 else c))
        parts.append("echo <<<'EOT'\nn%sn\nEOT;\n" % c)
        if b >= 0x80:
            parts.append("$v%s = f%s(A%s::K, $o->p%s);" % (c, c, c, c))
        src = "<?php\n" + "\n".join(parts) + "\n?>html %s text\n" % (c if b != 0x3c else "")
        out.append({"src": src, "ver": "7.4"})
        out.append({"src": src, "ver": "5.6"})
    return out


def signature_programs():
    """every combination of (type, by-reference, variadic, default) for a parameter, alone and next to parameters of the other
    shapes, in the four kinds of signature.  The grammars accept all of them (PHP rejects some only when compiling)."""
    import itertools
    out = []
    shapes = []
    for typ, ref, var, dflt in itertools.product(["", "Foo ", "array ", "?Foo "], ["", "&"], ["", "..."], ["", " = 1", " = null"]):
        shapes.append((typ, ref, var, dflt))
    def par(sh, name):
        return "%s%s%s$%s%s" % (sh[0], sh[1], sh[2], name, sh[3])
    ctxs = [("function f(%s) {}", ("7.4", "5.6")), ("$c = function(%s) use ($u) {};", ("7.4", "5.6")), ("$c = fn(%s) => 1;", ("7.4",)),
            ("class C { public function m(%s) { return 1; } }", ("7.4", "5.6")), ("interface I { function m(%s): int; }", ("7.4",))]
    for sh in shapes:
        for tmpl, vers in ctxs:
            for ver in vers:
                if "?" in sh[0] and ver[0] == "5":
                    continue
                out.append({"src": "<?php " + tmpl % par(sh, "a"), "ver": ver})
    plain, typed, nullable, dfl, ref = ("", "", "", ""), ("Foo ", "", "", ""), ("?Foo ", "", "", " = null"), ("", "", "", " = 1"), ("Bar ", "&", "", "")
    for combo in itertools.permutations([plain, typed, nullable, dfl, ref], 3):
        lst = ", ".join(par(sh, "p%d" % i) for i, sh in enumerate(combo))
        for tmpl, vers in ctxs:
            out.append({"src": "<?php " + tmpl % lst, "ver": "7.4"})
    for combo in itertools.permutations([plain, typed, dfl, ref], 2):
        lst = ", ".join(par(sh, "p%d" % i) for i, sh in enumerate(combo))
        for tmpl, vers in ctxs[:2] + ctxs[3:4]:
            out.append({"src": "<?php " + tmpl % lst, "ver": "5.6"})
    return out
