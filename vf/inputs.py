"""Program sources shared by several checks (until Syntax.tla supplies generated programs everywhere)."""
import json
import os
import random

from . import core


def corpus():
    return json.load(open(os.path.join(core.VERIF, "corpus", "repo_snippets.json")))


def clean_programs(tier, check=None):
    """Programs that are expected to parse; each with the versions to try."""
    out = []
    for c in corpus():
        for ver in ("7.4", "5.6"):
            out.append({"src": c["src"], "ver": ver})
    extra = os.path.join(core.VERIF, "corpus", "files")
    if os.path.isdir(extra):
        for f in sorted(os.listdir(extra)):
            src = open(os.path.join(extra, f), "rb").read().decode("latin-1")
            vers = ("7.4", "7.0") if "php7" in f else ("7.4", "5.6")
            for ver in vers:
                out.append({"src": src, "ver": ver})
    return out
