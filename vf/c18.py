"""C18 - pool allocations are distinct and stay valid.

spec -> impl: every behaviour of Pool.tla (exhaustive for small block sizes) is replayed on both real
pools and the memory a client observes is compared with the specification's.
impl -> spec: long operation histories are executed on the real pools, object identity is derived from
addresses, and TLC decides with PoolTrace.tla whether the recorded history is a behaviour of PoolAbs
(fresh, non-nil, non-interfering).  Verdicts use only the property-level facts; the block arithmetic
of Pool.tla is checked as refinement conformance and only reported.
"""
import json
import random

from . import core, inputs, progs

KINDS = ("token", "position")


def cfg_pool(size, gets, writes):
    return ("SPECIFICATION Spec\nCONSTANTS Size = %d MaxGets = %d MaxWrites = %d Vals = {1, 2}\n"
            "INVARIANTS TypeOK BlockInv CountInv\nPROPERTIES Refines Fresh NonInterference\nCHECK_DEADLOCK FALSE\n"
            % (size, gets, writes))


TRACE_CFG = ("SPECIFICATION TSpec\nCONSTANT Level = \"%s\"\nCONSTRAINT HighWater\nPOSTCONDITION Accepted\n"
             "CHECK_DEADLOCK FALSE\n")


def derive(events):
    """Independent re-derivation of the first property-level problem in a raw event list (or None)."""
    seen = {}
    order = []
    mem = {}
    for i, e in enumerate(events):
        if e["op"] == "reset":
            seen, order, mem = {}, [], {}
        elif e["op"] == "g":
            if e["nil"]:
                return i, "nil-object"
            if e["h"] in seen:
                return i, "object-returned-twice"
            seen[e["h"]] = 1
            order.append(e["h"])
            mem[e["h"]] = 0
        elif e["op"] == "w":
            mem[order[e["k"]]] = e["v"]
        elif e["op"] == "r":
            if mem[order[e["k"]]] != e["v"]:
                return i, "read-differs-from-last-write"
    return None


def validate(events, level, check, label):
    nd = "\n".join(json.dumps(e) for e in events) + "\n"
    r = core.tlc("PoolTrace", TRACE_CFG % level, workers=1, files={"trace.ndjson": nd},
                 allow_violation=True, timeout=900)
    check.add_tlc("PoolTrace(%s,%s)" % (level, label), r, kind="trace_validation")
    at = None
    for o in r.out:
        if isinstance(o, list) and o and o[0] == "REJECTED_AT":
            at = o[1]
    accepted = r.violated is None
    return accepted, at, r


def make_history(rng, size, gets, reads_every):
    ops = []
    n = 0
    for _ in range(gets):
        ops.append(["g"])
        n += 1
        ops.append(["w", n - 1, n])            # unique value through every object
        if reads_every and n % reads_every == 0:
            ops.append(["r", rng.randrange(n)])
        if rng.random() < 0.1:
            k = rng.randrange(n)
            ops.append(["w", k, 100000 + n])   # rewrite an older object (possibly in an older block)
            ops.append(["r", k])
    for k in range(n):
        ops.append(["r", k])
    return ops


def run(tier):
    check = core.Check("C18", tier)
    rng = random.Random(core.seed())
    wp = core.WorkerPool(core.build_worker())
    check.assumptions += [
        "object identity is derived from addresses while all returned pointers are kept alive",
        "TLC/SANY, Go toolchain; harness driver cmd/worker/pool.go",
        "bounded: exhaustive for block sizes 1..%d; histories up to 3 blocks + 2 for sizes up to 1024" % (4 if tier == "quick" else 6)]

    # ---- spec -> impl: exhaustive behaviours of Pool.tla replayed on the real pools
    sizes = range(1, 5) if tier == "quick" else range(1, 7)
    behaviours = []
    for size in sizes:
        gets = min(2 * size + 2, 7) if tier == "quick" else min(3 * size + 2, 9)
        r = core.tlc("Pool", cfg_pool(size, gets, 2))
        check.add_tlc("Pool(Size=%d,MaxGets=%d,MaxWrites=2)" % (size, gets), r)
        behaviours += r.out
    tasks = []
    for b in behaviours:
        ops = b["ops"] + [["r", k] for k in range(len(b["expect"]))]
        for kind in KINDS:
            tasks.append({"op": "pool_run", "kind": kind, "size": b["size"], "ops": ops, "_b": b})
    res = wp.run([{k: v for k, v in t.items() if k != "_b"} for t in tasks])
    for t, r in zip(tasks, res):
        check.count()
        b = t["_b"]
        check.distinct(("replay", b["size"], json.dumps(b["ops"])))
        bad = None
        if r.get("panic") or r.get("hang") or r.get("crash"):
            bad = "crash:" + str(r.get("panic") or r.get("hang") or r.get("crash"))
        else:
            obs = r["obs"]
            hs = [o["h"] for o in obs if o["op"] == "g"]
            reads = [o["v"] for o in obs if o["op"] == "r"]
            if any(o["nil"] for o in obs if o["op"] == "g"):
                bad = "nil-object"
            elif len(set(hs)) != len(hs):
                bad = "object-returned-twice"
            elif reads != b["expect"]:
                bad = "read-differs-from-last-write"
        if bad:
            check.violation({"class": bad, "kind": t["kind"], "size_class": "small"},
                            {"task": {k: v for k, v in t.items() if k != "_b"}, "expected_reads": b["expect"], "observed": r})
    check.sample({"direction": "spec->impl", "behaviour": behaviours[len(behaviours) // 2]})

    # ---- every block size, any number of requests: PoolProof.tla (the allocator's arithmetic as in Pool.tla, Size a symbolic
    # constant >= 1) is proved with the TLA+ proof system: the cursor invariant is inductive and implies that Get never returns a
    # handle twice
    nobl = core.tlapm("PoolProof")
    check.cov["tlaps_obligations_proved"] = nobl
    check.cov["tlc_runs"].append({"spec": "PoolProof (tlapm: InitInv, StepInv, StepFresh, Invariant; Size symbolic)", "kind": "proof",
                                  "distinct_states": 0, "states_generated": 0, "depth": 0, "wall_s": 0, "obligations_proved": nobl})

    # ---- the abstract promise (PoolAbs.tla: Fresh, NonInterference) on runs far longer than TLC enumerates: many block sizes
    # (powers of two and not, below and above the default) x tens of thousands of requests
    lsizes = [1, 2, 3, 5, 7, 8, 12, 100, 1000, 1023, 1024, 1025, 1500, 4096, 5000, 8192, 10000]
    count = 40000 if tier == "quick" else 400000
    lt = [{"op": "pool_long", "kind": kind, "size": sz, "count": count, "limit_ms": 120000} for sz in lsizes for kind in KINDS]
    for t, r in zip(lt, wp.run(lt)):
        check.count()
        check.distinct(("long", t["kind"], t["size"]))
        if r.get("panic") or r.get("hang") or r.get("crash"):
            check.violation({"class": "crash", "kind": t["kind"], "size_class": "long"}, {"task": t, "observed": r})
        elif r.get("bad"):
            check.violation({"class": r["bad"], "kind": t["kind"], "size_class": "long"}, {"task": t, "observed": r})
    check.cov["long_runs"] = {"sizes": lsizes, "requests_each": count}

    # ---- "stay valid": the tokens and positions of a parsed tree live in pool blocks; they must stay what they were while later
    # parses (new lexers, new pools, garbage collections in between) go on
    for t, r in progs.retain_results(check, wp, inputs.programs(check, tier), core.seed(), 150 if tier == "quick" else 2000):
        if r.get("changed") == "tree-of-an-earlier-parse-changed" and r.get("part") in ("tokens", "positions"):
            check.violation({"class": "objects-of-an-earlier-parse-changed", "kind": r.get("part"), "size_class": "parse"}, {"task": {"src": t["src"], "ver": t["ver"], "others": len(t["others"])}, "observed": r})

    # ... and while the parser object that produced the tree is run again (its pools are the same objects: "for the lifetime of the pool")
    rp = [p for p in inputs.programs(check, tier) if 20 < len(p["src"]) < 4000][:: (6 if tier == "quick" else 1)]
    for p, r in zip(rp, wp.run([{"op": "reparse_check", "src": p["src"], "ver": p["ver"]} for p in rp])):
        check.count()
        if r.get("changed"):
            check.violation({"class": "objects-of-an-earlier-parse-changed", "kind": r.get("part"), "size_class": "same-parser-again"}, {"src": p["src"], "ver": p["ver"], "observed": r})
    check.cov["reparse_checks"] = len(rp)

    # ---- who may share a pool (PoolShared.tla): Get is three unsynchronised steps; with one pool per parser Fresh is an invariant of
    # any interleaving, with one pool for all it is not (negative check: TLC must find the double hand-out).  The real parsers are
    # then run at the same time on many goroutines and the objects reachable from their trees compared by identity and content.
    for shared in (False, True):
        cfgs = ("SPECIFICATION Spec\nCONSTANTS Parsers = {p1, p2%s} Size = 2 MaxGets = %d Shared = %s\nINVARIANTS Fresh InBlock\nCHECK_DEADLOCK FALSE\n"
                % ("" if shared or tier == "quick" else ", p3", 3 if shared or tier == "quick" else 3, "TRUE" if shared else "FALSE"))
        r = core.tlc("PoolShared", cfgs, allow_violation=shared)
        check.add_tlc("PoolShared(Shared=%s)" % shared, r)
        if shared and not r.violated:
            raise core.InfraError("PoolShared.tla with one pool for all parsers satisfies Fresh: the model of Get lost its race")
    srcs = [p for p in inputs.programs(check, tier) if len(p["src"]) > 200]
    rng.shuffle(srcs)
    big = [{"src": x, "ver": "5.6"} for x in progs.scaled_sources(check, "5", core.seed(), 700 if tier == "quick" else 4000, (40,))]
    ct = [{"op": "pool_concurrent", "inputs": srcs[k * 48:(k + 1) * 48] + big, "goroutines": 16, "rounds": 3 if tier == "quick" else 10, "limit_ms": 300000}
          for k in range(2 if tier == "quick" else 12)]
    wpc = core.WorkerPool(core.build_worker(), n=1, chunk=1, idle_timeout=600)
    nobj = 0
    for t, r in zip(ct, wpc.run(ct)):
        check.count(r.get("rounds", 0) * r.get("inputs", 0))
        nobj += r.get("objects", 0)
        if r.get("panic") or r.get("hang") or r.get("crash"):
            check.violation({"class": "crash", "kind": "parsers-at-the-same-time", "size_class": "parse"}, {"observed": r, "inputs": len(t["inputs"])})
        for b in r.get("bad") or []:
            check.violation({"class": b["what"], "kind": "parsers-at-the-same-time", "size_class": "parse"},
                            {"observed": b, "input": t["inputs"][b["input"]], "goroutines": 16})
    check.cov["objects_compared_across_concurrent_parses"] = nobj

    # ---- impl -> spec: long histories on the real pools validated by TLC
    plan = [(1, 6), (2, 7), (3, 11), (7, 23), (64, 3 * 64 + 2)]
    plan.append((1024, 2 * 1024 + 2 if tier == "quick" else 3 * 1024 + 2))
    if tier == "thorough":
        plan += [(5, 17), (16, 50), (255, 3 * 255 + 2), (1000, 2002)]
    tasks = []
    for kind in KINDS:
        for size, gets in plan:
            ops = make_history(rng, size, gets, 5 if size < 100 else 50)
            tasks.append({"op": "pool_run", "kind": kind, "size": size, "ops": ops, "limit_ms": 20000})
    res = wp.run(tasks)
    for kind in KINDS:
        events = []
        for t, r in zip(tasks, res):
            if t["kind"] != kind:
                continue
            if r.get("panic") or r.get("hang") or r.get("crash"):
                check.violation({"class": "crash", "kind": kind}, {"task": t, "observed": r})
                continue
            events.append({"op": "reset", "size": t["size"], "h": 0, "nil": False, "off": 0, "k": 0, "v": 0})
            for o in r["obs"]:
                e = {"op": o["op"], "h": o.get("h", 0), "nil": o.get("nil", False), "off": o.get("off", 0),
                     "size": o.get("size", 0), "k": o.get("k", 0), "v": o.get("v", 0)}
                events.append(e)
        ok, at, r = validate(events, "abs", check, kind)
        check.count(len(events))
        check.cov["traces_validated_against_impl"] += len(plan)
        for size, gets in plan:
            check.distinct(("trace", kind, size, gets))
        d = derive(events)
        if not ok:
            if d is None:
                raise core.InfraError("PoolTrace rejected a %s trace at event %s but the raw events show no "
                                      "property-level problem (specification/harness disagreement)" % (kind, at))
            i, cls = d
            check.violation({"class": cls, "kind": kind, "size_class": "trace"},
                            {"kind": kind, "rejected_event_index": at, "derived_index": i + 1,
                             "event": events[i], "context": events[max(0, i - 3):i + 1]})
        elif d is not None:
            raise core.InfraError("PoolTrace accepted a trace in which the harness finds %r" % (d,))
        else:
            check.sample({"direction": "impl->spec", "kind": kind, "events": len(events), "first": events[:6]})
            # refinement conformance with the block allocator (reported only)
            ok2, at2, _ = validate(events, "blk", check, kind + ",blocks")
            if not ok2:
                check.note("%s pool no longer follows the block arithmetic of Pool.tla at event %s "
                           "(refinement drift, not a violation of C18)" % (kind, at2))
            # anti-vacuity: corrupted copies must be rejected
            if kind == "token":
                for what in ("read", "dup"):
                    bad = [dict(e) for e in events]
                    if what == "read":
                        idx = max(i for i, e in enumerate(bad) if e["op"] == "r")
                        bad[idx]["v"] += 1
                    else:
                        gs = [i for i, e in enumerate(bad) if e["op"] == "g"]
                        bad[gs[-1]]["h"] = bad[gs[-2]]["h"]
                    okb, atb, _ = validate(bad, "abs", check, "corrupted-" + what)
                    if okb:
                        raise core.InfraError("binding self-test failed: corrupted trace (%s) was accepted" % what)
                check.cov["binding_selftest"] = "2 corrupted traces rejected"
    return check.finish({"exhaustive": True,
                         "rule": "spec->impl: every behaviour of Pool.tla (all interleavings of Gets and <=2 writes) for each block size; "
                                 "impl->spec: one history per (pool kind, block size, request count); distinct = distinct behaviours/histories"})
