"""Driver for PrinterOut.tla: TLC enumerates chunk sequences with the pieces the printer owes (inserted open tag,
space, close tag, the chunks themselves); every behaviour is replayed on the real printer with a recording
io.Writer (one Write call per piece) and compared piece by piece."""
from . import core

MC = """---- MODULE MCPrinterOut ----
EXTENDS PrinterOut
Heads == {"open", "word", "other"}
Tails == {"close", "word", "other"}
Mk(k, c, e, h, t) == [kind |-> k, car |-> c, empty |-> e, open |-> (~e /\\ h = "open"), fw |-> (~e /\\ h = "word"),
                      lw |-> (~e /\\ t = "word"), close |-> (~e /\\ t = "close")]
MCShapes == {Mk(k, c, FALSE, h, t) : k \\in %(kinds)s, c \\in %(cars)s, h \\in Heads, t \\in Tails}
            \\cup {Mk(k, c, TRUE, "other", "other") : k \\in %(kinds)s, c \\in %(cars)s}
MCModes == {"html", "php"}
====
"""

INVS = "TypeOK SourceVerbatim EveryChunkOnce NoGlue ModeAgrees OpenTagWhenNeeded Minimal"

CLOSERS = ["?>", "?>\n", "?>\r\n"]


def text(i, c):
    if c["empty"]:
        return ""
    head = "<?php " if c["open"] else ("w" if c["fw"] else "+")
    tail = CLOSERS[i % 3] if c["close"] else ("w" if c["lw"] else "-")
    return head + "{#%d#}" % i + tail


def behaviours(check, maxlen, kinds=("php", "html"), cars=("src", "syn", "val"), timeout=1200):
    mc = MC % {"kinds": "{" + ", ".join('"%s"' % k for k in kinds) + "}", "cars": "{" + ", ".join('"%s"' % c for c in cars) + "}"}
    cfg = ("SPECIFICATION Spec\nCONSTANTS MaxLen = %d\nCONSTANT Shapes <- MCShapes\nCONSTANT InitModes <- MCModes\n"
           "INVARIANTS %s\nCHECK_DEADLOCK FALSE\n" % (maxlen, INVS))
    r = core.tlc("MCPrinterOut", cfg, files={"MCPrinterOut.tla": mc}, timeout=timeout, heap="8g")
    check.add_tlc("PrinterOut(maxlen=%d,kinds=%s,cars=%s)" % (maxlen, "/".join(kinds), "/".join(cars)), r)
    return [o for o in r.out if isinstance(o, dict) and "chunks" in o]


def expected_writes(b):
    ws = []
    for p in b["expect"]:
        tag, i = p[0], p[1]
        if tag == "OPEN":
            ws.append("<?php ")
        elif tag == "SP":
            ws.append(" ")
        elif tag == "CLOSE":
            ws.append("?>")
        elif tag == "C":
            ws.append(text(i, b["chunks"][i - 1]))
    return ws


def packed(behs):
    """the behaviours whose chunk sequence has two php tokens in a row, marked for the free-floating packaging"""
    out = []
    for b in behs:
        cs = b["chunks"]
        if any(all(x["kind"] == "php" and x["car"] in ("src", "syn") for x in cs[i:i + 2]) for i in range(len(cs) - 1)):
            out.append(dict(b, pack="ff"))
    return out


def replay(check, wp, behs, batch=400):
    """returns list of (behaviour, expected writes, observed writes) that differ"""
    behs = behs + packed(behs)
    check.cov["output_stage_replays"] = check.cov.get("output_stage_replays", 0) + len(behs)
    tasks = []
    for k in range(0, len(behs), batch):
        cases = []
        for b in behs[k:k + batch]:
            cs = [{"kind": c["kind"], "car": c["car"], "text": text(i + 1, c)} for i, c in enumerate(b["chunks"])]
            if b.get("pack") == "ff":      # the same chunks, with every php token that has a php token after it carried as that token's free-floating
                for i in range(len(cs) - 1):
                    if all(x["kind"] == "php" and x["car"] in ("src", "syn") for x in cs[i:i + 2]):
                        cs[i]["ff"] = True
            cases.append({"init": b["init"], "chunks": cs})
        tasks.append({"op": "print_chunks", "cases": cases, "limit_ms": 60000})
    bad = []
    for k, r in enumerate(wp.run(tasks)):
        chunk = behs[k * batch:(k + 1) * batch]
        if r.get("panic") or r.get("hang") or r.get("crash"):
            bad.append((chunk[0], None, r))
            continue
        for b, got in zip(chunk, r["outs"]):
            want = expected_writes(b)
            if got != want:
                bad.append((b, want, got))
    return bad


def classify(b, want, got):
    """a small signature: which kind of piece differs first"""
    if want is None:
        return {"class": "crash", "site": got.get("site")}
    n = 0
    while n < len(want) and n < len(got) and want[n] == got[n]:
        n += 1
    w = want[n] if n < len(want) else None
    g = got[n] if n < len(got) else None
    names = {"<?php ": "open-tag", " ": "space", "?>": "close-tag"}
    allsrc = all(c["car"] == "src" for c in b["chunks"])
    if g in names and w != g:
        what = "unexpected-" + names[g]
    elif w in names:
        what = "missing-" + names[w]
    else:
        what = "chunk-text"
    sig = {"class": "printer-output-stage", "what": what, "all_source": allsrc}
    if b.get("pack"):
        sig["packaging"] = b["pack"]
    return sig
