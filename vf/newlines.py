"""Driver for NewLines.tla (the scanner's line table and the new_line action).

(a) spec -> impl: every behaviour (input over {LF, CR, other} x head movements with set-backs) gives the Append calls
    the scanner makes; they are replayed on the real scanner.NewLines; the table must equal the specification's and
    GetLine(p) must be the 1-based line of p for every p.
(b) every input string of the model is embedded in each lexical context of the real scanner (inline HTML, white space,
    comments, the string kinds, heredoc/nowdoc bodies, after a close tag, halt-compiler tail); the line starts the
    real scanner recorded must be exactly the line starts of the bytes, and every token's start/end line must be the
    line of its first/last byte."""
import itertools

from . import core

CH = {"n": "\n", "r": "\r", "x": "x"}

CONTEXTS = [
    ("html", "", "", "x"),
    ("ws", "<?php $a", ";", " "),
    ("block-comment", "<?php /*", "*/", "x"),
    ("doc-comment", "<?php /**", "*/", "x"),
    ("line-comment", "<?php //", "", "x"),
    ("hash-comment", "<?php #", "", "x"),
    ("single-quoted", "<?php '", "';", "x"),
    ("double-quoted", "<?php \"", "\";", "x"),
    ("double-quoted-var", "<?php \"$v", "$w\";", "x"),
    ("backquote", "<?php `", "`;", "x"),
    ("heredoc", "<?php <<<A\n", "\nA;\n", "x"),
    ("heredoc-var", "<?php <<<A\n$v", "$w\nA;\n", "x"),
    ("nowdoc", "<?php <<<'A'\n", "\nA;\n", "x"),
    ("after-close-tag", "<?php ?>", "", "x"),
    ("halt-tail", "<?php __halt_compiler();", "", "x"),
    ("after-open-tag", "<?php", "$a;", " "),
    ("between-stmts", "<?php $a;", "$b;", " "),
]


def line_starts(src):
    """offsets at which a new line starts: after LF, after a CR that is not followed by LF"""
    out = []
    for q, c in enumerate(src):
        if c == "\n" or (c == "\r" and (q + 1 == len(src) or src[q + 1] != "\n")):
            out.append(q + 1)
    return out


def line_of(starts, p):
    return 1 + sum(1 for s in starts if s <= p)


def behaviours(check, maxn, maxback, timeout=1200):
    cfg = ("SPECIFICATION Spec\nCONSTANTS MaxN = %d MaxBack = %d\nINVARIANTS TypeOK Sorted Exact LinesRight CrLfOnce\n"
           "CHECK_DEADLOCK FALSE\n" % (maxn, maxback))
    r = core.tlc("NewLines", cfg, timeout=timeout, heap="8g")
    check.add_tlc("NewLines(maxn=%d,maxback=%d)" % (maxn, maxback), r)
    seen = set()
    out = []
    for o in r.out:
        if isinstance(o, dict) and "appends" in o:
            key = ("".join(o["input"]), tuple(o["appends"]))
            if key not in seen:
                seen.add(key)
                out.append(o)
    return out


def replay(check, wp, behs, batch=500):
    """(a): returns list of (signature, replay)"""
    bad = []
    tasks = [{"op": "newlines_replay", "cases": [{"appends": b["appends"], "n": len(b["input"])} for b in behs[k:k + batch]]}
             for k in range(0, len(behs), batch)]
    for k, r in enumerate(wp.run(tasks)):
        if r.get("panic") or r.get("hang") or r.get("crash"):
            bad.append(({"class": "crash", "site": r.get("site"), "where": "NewLines"}, {"observed": r}))
            continue
        for b, o in zip(behs[k * batch:(k + 1) * batch], r["outs"]):
            src = "".join(CH[c] for c in b["input"])
            starts = line_starts(src)
            if (o["data"] or []) != list(b["data"]):
                bad.append(({"class": "line-table-differs"}, {"behaviour": b, "observed": o}))
            elif [line_of(starts, p) for p in range(len(src) + 1)] != o["lines"]:
                bad.append(({"class": "getline-wrong"}, {"behaviour": b, "observed": o, "expected_lines": [line_of(starts, p) for p in range(len(src) + 1)]}))
    return bad


def contexts(check, wp, maxn, vers=("7.4", "5.6"), batch=300):
    """(b): returns list of (signature, replay); counts evaluations"""
    bodies = [""] + ["".join(t) for n in range(1, maxn + 1) for t in itertools.product("nrx", repeat=n)]
    cases = []
    for name, pre, suf, xch in CONTEXTS:
        for b in bodies:
            body = "".join(xch if c == "x" else CH[c] for c in b)
            cases.append((name, b, pre + body + suf))
    # tokens that span many lines and start in column 0 (GetLine walks back from the end of the table: the distance matters)
    for name, pre, suf in (("long-block-comment", "<?php\n/*", "*/\n$a;"), ("long-doc-comment", "<?php $z;\n/**", "*/ $a;"), ("long-html", "<?php $a;\n?>\n", ""),
                           ("long-html-first", "", "<?php $a;"), ("long-single-quoted", "<?php $s =\n'", "';\n$t = 1;"), ("long-nowdoc", "<?php $s = <<<'E'\n", "\nE;\n$t;"),
                           ("long-heredoc", "<?php\n<<<E\n", "\nE;\n"), ("long-double-quoted", "<?php\n\"", "\" . $a;")):
        for nlines in (1, 2, 31, 32, 33, 34, 40, 65, 130):
            for nl in ("\n", "\r\n", "\r"):
                cases.append((name, "%d lines %r" % (nlines, nl), pre + ("x y" + nl) * nlines + "z" + suf))
    bad = []
    n = 0
    for ver in vers:
        tasks = [{"op": "lex_lines", "ver": ver, "srcs": [c[2] for c in cases[k:k + batch]]} for k in range(0, len(cases), batch)]
        for k, r in enumerate(wp.run(tasks)):
            chunk = cases[k * batch:(k + 1) * batch]
            if r.get("panic") or r.get("hang") or r.get("crash"):
                continue            # C01's business (and the batch is lost: count nothing)
            for (name, b, src), o in zip(chunk, r["outs"]):
                if o.get("stuck"):
                    continue
                n += 1
                starts = line_starts(src)
                lone_cr = any(c == "\r" and (q + 1 == len(src) or src[q + 1] != "\n") for q, c in enumerate(src))
                sig = None
                got = o["starts"] or []
                if got != starts:
                    sig = {"class": "line-starts-differ", "context": name, "lone_cr": lone_cr}
                else:
                    for s, e, sl, el in o["toks"] or []:
                        if e > s and (sl != line_of(starts, s) or el != line_of(starts, e - 1)):
                            sig = {"class": "token-line-wrong", "context": name, "lone_cr": lone_cr,
                                   "which": "start" if sl != line_of(starts, s) else "end"}
                            break
                if sig:
                    bad.append((sig, {"context": name, "body": b, "src": src, "ver": ver, "expected_line_starts": starts, "observed": o}))
    check.count(n)
    check.cov["line_table_context_cases"] = check.cov.get("line_table_context_cases", 0) + n
    return bad
