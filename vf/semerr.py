"""Programs that are syntactically accepted by the grammars' productions but rejected by an explicit error report in a
grammar action (internal/php5/php5.y: by-reference foreach key, trait extends / implements).  Under PHP 7 the same
programs are plain syntax errors.  Used by C01 (no crash, also with a nil callback) and C06 (reported, with a
position that selects the offending text)."""
import itertools
import re


def programs():
    """returns list of dicts: src (str), expect5: list of (message fragment, regex the selected text must match)"""
    out = []
    exprs = ["$a", "f()", "array(1, 2)", "$a->b", "$a[0]", "A::$b", "new A", "[1, 2]"]
    keys = ["&$k", "& $k", "&\n$k", "&$k->p"]
    vals = ["$v", "&$v", "list($x, $y)"]
    bodies = [" {}", ": endforeach;", " echo 1;", ":\n echo 1;\nendforeach ;"]
    for e, k, v, b in itertools.product(exprs, keys, vals, bodies):
        out.append({"src": "<?php foreach (%s as %s => %s)%s" % (e, k, v, b),
                    "expect5": [("Key element cannot be a reference", r"^&$")]})
    heads = [("extends A", [("A trait cannot extend a class", r"^extends\s+\\?A$")]),
             ("implements I", [("A trait cannot implement an interface", r"^implements\s+I$")]),
             ("implements I, \\J\\K", [("A trait cannot implement an interface", r"^implements\s+I, \\J\\K$")]),
             ("extends \\A implements I", [("A trait cannot extend a class", r"^extends\s+\\A$"),
                                          ("A trait cannot implement an interface", r"^implements\s+I$")]),
             ("extends A\n implements\tI ,J", [("A trait cannot extend a class", r"^extends\s+A$"),
                                               ("A trait cannot implement an interface", r"^implements\s+I ,J$")])]
    for (h, exp), body, pre in itertools.product(heads, ["{}", "{ use X; function f() {} }"], ["", "$z = 1; ", "namespace N; "]):
        out.append({"src": "<?php %strait T %s %s" % (pre, h, body), "expect5": exp})
    return out


def judge5(p, errs):
    """errs: list of {msg, p: [sl, el, s, e]} from a 5.x parse; returns None or a failure class"""
    src = p["src"]
    for frag, rx in p["expect5"]:
        hit = [e for e in errs or [] if frag in (e.get("msg") or "")]
        if not hit:
            return "semantic-error-not-reported"
        pos = hit[0].get("p")
        if not pos or pos[2] < 0 or pos[3] > len(src) or pos[2] >= pos[3]:
            return "semantic-error-position-out-of-range"
        if not re.match(rx, src[pos[2]:pos[3]]):
            return "semantic-error-selects-wrong-text"
    return None
