"""C17 - formatting preserves the program, is canonical and idempotent.

Pipeline.tla (with Format: layout' = "canon", structure unchanged, idempotent) prescribes what the formatter may
do; programs derived from Syntax.tla are rendered under two or more trivia layouts and run through
parse -> Format -> print -> parse -> Format -> print on the real code: the formatted text must parse without errors
into the same structural projection, must be identical for all layouts of one derivation, and formatting the
formatted text must change nothing.  A formatter panic violates the first clause."""
import random
import re

from . import core, syntax, progs, c13


LABEL_LINE = re.compile(r"(?m)^([A-Za-z_][A-Za-z0-9_]*);[ \t]*[^ \t\r\n]")


def label_line(text, used):
    if text and any(u.startswith(("heredoc/", "nowdoc/")) for u in used):
        # the closing label of a heredoc followed, on its own line, by more than ';' (no terminator before PHP 7.3)
        for m in LABEL_LINE.finditer(text):
            if re.search(r"<<<[ \t]*['\"]?" + re.escape(m.group(1)) + r"['\"]?\r?\n", text):
                return True
    return False


def trigger(text, used, cls=None, family=None):
    """the explanation among the recorded findings that fits the failure class: a text that does not parse under 5.x and has a
    continued label line is the heredoc finding; a changed structure in a program with an alternative-syntax if is that finding"""
    if any(u in ("closetag+html", "echo+closetag+html") for u in used):
        return "inline-html"
    if text and ",)" in text:
        return "comma-before-closing-parenthesis"
    if text and ("+++" in text or "---" in text):
        return "sign-fused-with-increment"
    alt = any(u.startswith(("StmtIf/alt", "StmtElseIf/alt", "StmtElse/alt")) for u in used)
    if cls == "formatted-text-does-not-parse" and family == "5" and label_line(text, used):
        return "heredoc-label-line-continues"
    if alt:
        return "alternative-syntax-if"
    if label_line(text, used):
        return "heredoc-label-line-continues"
    return "other"


def run(tier):
    check = core.Check("C17", tier)
    wp = core.WorkerPool(core.build_worker())
    # design level: Format keeps the structure and is idempotent on the layout
    cfg = ("SPECIFICATION Spec\nCONSTANT Observers <- MCObs\nCONSTANT Faulty <- MCFaulty\nCONSTANTS MaxLen = 4 WithFormat = TRUE\n"
           "INVARIANTS SameAsFresh\nPROPERTIES StructureKept FormatIdempotent\nCHECK_DEADLOCK FALSE\n")
    mc = '---- MODULE MCPipeline ----\nEXTENDS Pipeline\nMCObs == {"print", "dump11"}\nMCFaulty == {}\n====\n'
    r = core.tlc("MCPipeline", cfg, files={"MCPipeline.tla": mc})
    check.add_tlc("Pipeline(with Format, maxlen=4)", r)
    n = 800 if tier == "quick" else 8000
    layouts = ["none", "random"] if tier == "quick" else ["none", "random", "crlf", "mix", "line"]
    for family in ("7", "5"):
        table, behs = syntax.generate(check, family, num=n, seed=core.seed() + 17, depth=3)
        ex = progs.expand_all(table, behs, core.seed(), layouts)
        behs, ex = progs.drop_skipped(behs, ex)
        tasks = []
        for i, e in enumerate(ex):
            if {"heredoc/empty", "nowdoc/empty"} & set(e["used"]):
                continue            # D6 (scanner, known finding of C01/C02/C04) would hide what the formatter does
            for v in e["variants"]:
                tasks.append({"op": "format_check", "src": v["src"], "ver": progs.VERS[family][0], "_i": i, "_u": e["used"], "_l": v["layout"]})
        # constructs nested in themselves (SyntaxGen's self-nesting mode): if in if in if with every mix of plain and alternative
        # syntax, loops in loops, closures in closures ...
        ts, bs, _ = progs.self_nesting_programs(check, family, core.seed(), 2500 if tier == "quick" else 20000)
        for j, e in enumerate(progs.expand_all(ts, bs, core.seed(), ["none"])):
            if e.get("skip") or ({"heredoc/empty", "nowdoc/empty"} & set(e["used"])):
                continue
            tasks.append({"op": "format_check", "src": e["variants"][0]["src"], "ver": progs.VERS[family][0], "_i": 2 * 10 ** 7 + j, "_u": e["used"], "_l": "none"})
        # every mix of the forms of if / elseif / else (plain and alternative syntax) nested in each other, up to six of them; the same
        # for loops, try / catch / finally and switch (SyntaxGen's self-nesting mode with a family as the focus, exhaustive)
        for fam_name, w in (("if", 6 if tier == "quick" else 7), ("loop", 2), ("try", 3 if tier == "quick" else 4), ("switch", 3 if tier == "quick" else 4)):
            tf, bf = progs.family_nesting(check, family, fam_name, w)
            for j, e in enumerate(progs.expand_all(tf, bf, core.seed(), ["none"])):
                if e.get("skip"):
                    continue
                tasks.append({"op": "format_check", "src": e["variants"][0]["src"], "ver": progs.VERS[family][0],
                              "_i": 3 * 10 ** 7 + 10 ** 6 * len(fam_name) + j, "_u": e["used"], "_l": "none"})
        # every chain of up to three operators with variables as atoms (the same exhaustive set as C03 / C10): the formatter decides
        # where blanks and brackets are owed between signs, increments, casts and binary operators
        from . import c03
        t0, _ = syntax.generate(check, family, num=1, seed=core.seed(), depth=1)
        to_, bo_ = syntax.generate(check, family, rootcat="stmt", rootmax=1, depth=4, allowed=[i for i in c03.exprset(t0) if i != "ScalarLnumber"],
                                   exhaustive=True, maxchoices=7, timeout=3000)
        for j, e in enumerate(progs.expand_all(to_, bo_, core.seed(), ["none"])):
            if not e.get("skip"):
                tasks.append({"op": "format_check", "src": e["variants"][0]["src"], "ver": progs.VERS[family][0], "_i": 5 * 10 ** 7 + j, "_u": e["used"], "_l": "none"})
        # programs nested many blocks deep (indentation state of the formatter)
        for j, src in enumerate(progs.deep_sources(check, family, core.seed(), 60 if tier == "quick" else 600)[: (25 if tier == "quick" else 300)]):
            tasks.append({"op": "format_check", "src": src, "ver": progs.VERS[family][0], "_i": 10 ** 7 + j, "_u": ["deep-nesting"], "_l": "none"})
        res = wp.run([{k: v for k, v in t.items() if not k.startswith("_")} for t in tasks])
        byder = {}
        for t, r in zip(tasks, res):
            check.count()
            if r.get("skip"):
                continue
            check.distinct((family, t["_i"], t["_l"]))
            used = t["_u"]
            if (r.get("panic") or r.get("crash")) and str(r.get("site")).startswith("internal/scanner"):
                continue      # a scanner panic while re-parsing (empty heredoc under >= 7.3): C01's business
            if r.get("panic") or r.get("crash"):
                check.violation({"class": "formatter-panic", "site": r.get("site") or "fatal", "msg": (r.get("panic") or "")[:40]},
                                {"src": t["src"], "ver": t["ver"], "observed": {k: r.get(k) for k in ("panic", "site", "stage")}, "variants": used})
                continue
            if r.get("hang"):
                check.violation({"class": "formatter-hang"}, {"src": t["src"], "ver": t["ver"]})
                continue
            F = r.get("F")
            if r.get("nerr1", 0) > 0:
                check.violation({"class": "formatted-text-does-not-parse", "trigger": trigger(F, used, "formatted-text-does-not-parse", family), "family": family},
                                {"src": t["src"], "formatted": F, "error": r.get("err1"), "variants": used})
                continue
            if r.get("sfp1") != r.get("sfp0"):
                check.violation({"class": "formatting-changes-structure", "trigger": trigger(F, used, "formatting-changes-structure", family), "family": family},
                                {"src": t["src"], "formatted": F, "variants": used})
                continue
            if r.get("idempotent") is False:
                check.violation({"class": "not-idempotent", "trigger": trigger(F, used), "family": family},
                                {"src": t["src"], "formatted": F, "formatted_again": r.get("F2"), "variants": used})
            byder.setdefault(t["_i"], []).append((t, F))
        for i, group in byder.items():
            texts = {F for _, F in group}
            if len(texts) > 1:
                a, b = group[0], [g for g in group if g[1] != group[0][1]][0]
                check.violation({"class": "layout-dependent", "trigger": trigger(a[1], a[0]["_u"]), "family": family},
                                {"src_a": a[0]["src"], "formatted_a": a[1], "src_b": b[0]["src"], "formatted_b": b[1]})
        if family == "7" and byder:
            g = byder[sorted(byder)[0]][0]
            check.sample({"direction": "spec->impl", "src": g[0]["src"], "formatted": g[1]})
    check.cov["traces_validated_against_impl"] = check.cov["evaluations"]
    check.assumptions += ["structure = reflection fingerprint without tokens/positions; the formatter may insert a '?>' carrier statement before inline HTML"]
    return check.finish({"rule": "SyntaxGen derivations x %d layouts, pipeline parse/format/print/parse/format/print; distinct = (family, derivation, layout)" % len(layouts)})
