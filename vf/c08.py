"""C08 - white space, line endings and comments never change the tree's structure.

Every derivation of SyntaxGen.tla is rendered under the minimal layout and under every trivia recipe (none, space,
tab, LF, CRLF, CR, blank lines, /* */, /** */, //, #, /**/, mixtures) - uniformly, randomly mixed, and (thorough)
one gap at a time - and parsed: all renderings must be accepted and have the same structural projection (kinds,
roles, values; no tokens, no positions), which must also be the structure Syntax.tla prescribes.  Design level:
TriviaTransparent on Lexer.tla (white space and comments never change the php mode or the call stack)."""
import random

from . import core, syntax, progs


def group_and_judge(check, family, res):
    by = {}
    for m, t, r in res:
        check.count()
        check.distinct((family, tuple(m["used"]), m["i"], m["layout"], m["ver"]))
        by.setdefault((m["i"], m["ver"]), []).append((m, t, r))
    for i, group in by.items():
        def clean(g):
            return not (g[2].get("panic") or g[2].get("hang") or g[2].get("crash") or g[2].get("nerr", 1) > 0 or not g[2].get("root"))
        base = [g for g in group if g[0]["layout"] == "none"][0]
        if not clean(base):
            # the minimal layout is rejected (C01 / C03 judge that) - but if another rendering of the same derivation is accepted,
            # taking the optional white space away is what made the program invalid: that rendering becomes the reference
            alt = [g for g in group if clean(g)]
            if not alt or base[2].get("panic") or base[2].get("hang") or base[2].get("crash"):
                continue
            base = alt[0]
        for m, t, r in group:
            if m is base[0]:
                continue
            if r.get("panic") or r.get("hang") or r.get("crash"):
                continue
            bad = None
            if r.get("nerr", 1) > 0 or not r.get("root"):
                bad = "trivia-makes-program-invalid"
            elif r.get("sfp") != base[2].get("sfp"):
                bad = "trivia-changes-structure"
            if bad:
                sig = {"class": bad, "recipe": m["layout"], "msg": ((r.get("errs") or [{}])[0].get("msg") or "")[:50]}
                if "stmt+halt" in m["used"]:
                    sig["construct"] = "halt-compiler"
                    low = t["src"].lower()
                    a = low.find("__halt_compiler") + len("__halt_compiler")
                    b = t["src"].find(syntax.HALT_PAYLOAD.decode("latin-1"))
                    sig["comment"] = any(c in t["src"][a:b] for c in ("/*", "//", "#"))
                check.violation(sig, {"minimal": base[1]["src"], "rendered": t["src"], "ver": m["ver"], "errors": r.get("errs"),
                                      "variants": m["used"]})
    return by


def run(tier):
    check = core.Check("C08", tier)
    rng = random.Random(core.seed())
    wp = core.WorkerPool(core.build_worker())
    n = 500 if tier == "quick" else 2500
    recipes = [r for r in syntax.RECIPE_NAMES]
    for family in ("7", "5"):
        table, behs = syntax.generate(check, family, num=n, seed=core.seed() + 8, depth=3)
        layouts = list(recipes) + ["random"]
        if tier == "thorough":
            pass
        res = progs.run_programs(check, wp, family, behs, table, core.seed(), layouts, progs.VERS[family][:1])
        by = group_and_judge(check, family, res)
        # programs ending in __halt_compiler ( ) ;  + raw data; files of bracketed namespaces
        res2 = progs.halt_programs(check, wp, family, core.seed(), layouts, progs.VERS[family][:2], num=30 if tier == "quick" else 200)
        group_and_judge(check, family, res2)
        if family == "7":
            g = by[sorted(by)[len(by) // 2]]
            check.sample({"direction": "spec->impl", "minimal": g[0][1]["src"], "one_rendering": g[-1][1]["src"]})
        # one gap at a time (thorough): every gap x every recipe for a sample of derivations
        if tier == "thorough":
            ex = progs.expand_all(table, behs[:300], core.seed(), ["none"])
            b300, ex = progs.drop_skipped(behs[:300], ex)
            lays = []
            for b, e in zip(b300, ex):
                gaps = [k for k, g in enumerate(e["gaps"]) if g in ("free", "sep")]
                lays.append(["none"] + ["gap:%d:%s" % (g, rec) for g in gaps for rec in recipes if rec not in ("none",)])
            # expand every derivation under its own layout list (one pool call), then run everything in one batch
            import multiprocessing
            args = [(b, core.seed() * 1000003 + i, lay) for i, (b, lay) in enumerate(zip(b300, lays))]
            with multiprocessing.Pool(min(core.NCPU, 16), initializer=progs._init, initargs=(table,)) as pool:
                ex1s = pool.map(progs._expand, args, chunksize=4)
            ts, owner = [], []
            for di, ex1 in enumerate(ex1s):
                if ex1.get("skip") or ex1.get("error"):
                    continue
                for v in ex1["variants"]:
                    ts.append({"op": "cmp_tree", "src": v["src"], "ver": progs.VERS[family][0]})
                    owner.append((di, v["layout"]))
            rs = wp.run(ts)
            base = {}
            for (di, lay), t, r in zip(owner, ts, rs):
                if lay == "none":
                    base[di] = (t, r)
            for (di, lay), t, r in zip(owner, ts, rs):
                if lay == "none" or di not in base:
                    continue
                bt, br = base[di]
                if br.get("panic") or br.get("hang") or br.get("crash") or br.get("nerr", 1) > 0:
                    continue
                check.count()
                if r.get("panic") or r.get("hang") or r.get("crash"):
                    continue
                rec = lay.split(":")[2]
                if r.get("nerr", 1) > 0 or r.get("sfp") != br.get("sfp"):
                    check.violation({"class": "trivia-makes-program-invalid" if r.get("nerr", 1) > 0 else "trivia-changes-structure",
                                     "recipe": rec, "msg": ((r.get("errs") or [{}])[0].get("msg") or "")[:50]},
                                    {"minimal": bt["src"], "rendered": t["src"], "gap": lay, "errors": r.get("errs")})
    # the scanner reads  ';' white-space* '?>'  as one token, so SyntaxGen never puts a close tag right after a ';'; the gap between
    # the two is exercised here: white space keeps the structure, and so must a comment
    for ver in ("7.4", "5.6"):
        for body in ("$a = 1;", "echo 1, 2;", "f();"):
            base = "<?php %s?>x" % body
            variants = [(name, "<?php " + body + "".join(t.decode("latin-1") for _, t in syntax.RECIPES[name]) + "?>x") for name in recipes if name != "none"]
            rs = wp.run([{"op": "cmp_tree", "src": base, "ver": ver}] + [{"op": "cmp_tree", "src": v, "ver": ver} for _, v in variants])
            b = rs[0]
            if b.get("panic") or b.get("hang") or b.get("crash") or b.get("nerr", 1) > 0:
                continue
            for (name, v), r in zip(variants, rs[1:]):
                check.count()
                if r.get("panic") or r.get("hang") or r.get("crash"):
                    continue
                if r.get("nerr", 1) > 0 or r.get("sfp") != b.get("sfp"):
                    check.violation({"class": "trivia-makes-program-invalid" if r.get("nerr", 1) > 0 else "trivia-changes-structure", "recipe": name,
                                     "construct": "semicolon-close-tag", "comment": any(c in v[len("<?php " + body):] for c in ("/*", "//", "#"))},
                                    {"minimal": base, "rendered": v, "ver": ver, "errors": r.get("errs")})
    # after "->" a reserved word is a member name; white space in between keeps that, and so must a comment
    for ver in ("7.4", "5.6"):
        for member in ("list", "class", "print", "foreach", "x"):
            base = "<?php $r = $o->%s; $s = $o->%s(1);" % (member, member)
            variants = [(name, "<?php $r = $o->%s%s; $s = $o->%s%s(1);" % (tr, member, tr, member))
                        for name in recipes if name != "none" for tr in ["".join(t.decode("latin-1") for _, t in syntax.RECIPES[name])]]
            rs = wp.run([{"op": "cmp_tree", "src": base, "ver": ver}] + [{"op": "cmp_tree", "src": v, "ver": ver} for _, v in variants])
            b = rs[0]
            if b.get("panic") or b.get("hang") or b.get("crash") or b.get("nerr", 1) > 0:
                continue
            for (name, v), r in zip(variants, rs[1:]):
                check.count()
                if r.get("panic") or r.get("hang") or r.get("crash"):
                    continue
                if r.get("nerr", 1) > 0 or r.get("sfp") != b.get("sfp"):
                    check.violation({"class": "trivia-makes-program-invalid" if r.get("nerr", 1) > 0 else "trivia-changes-structure", "recipe": name,
                                     "construct": "member-after-arrow", "reserved": member != "x", "comment": any(c in v for c in ("/*", "//", "#"))},
                                    {"minimal": base, "rendered": v, "ver": ver, "errors": r.get("errs")})
    # blanks between "<<<" and the label of a heredoc / nowdoc opener are white space too
    for ver in ("7.4", "5.6"):
        for q in ("", '"', "'"):
            for pre in ("", "b", "B"):
                body = " t $x {$y} ${z} $a[1] $b->c \\n\n"
                mk = lambda blank: "<?php $r = %s<<<%s%sLBL%s\n%sLBL;\n$s = 2;\n" % (pre, blank, q, q, body)
                rs = wp.run([{"op": "cmp_tree", "src": mk(bl), "ver": ver} for bl in ("", " ", "\t", "  \t ")])
                b = rs[0]
                if b.get("panic") or b.get("hang") or b.get("crash") or b.get("nerr", 1) > 0:
                    continue
                for bl, r in zip((" ", "\t", "  \t "), rs[1:]):
                    check.count()
                    if r.get("panic") or r.get("hang") or r.get("crash"):
                        continue
                    if r.get("nerr", 1) > 0 or r.get("sfp") != b.get("sfp"):
                        check.violation({"class": "trivia-makes-program-invalid" if r.get("nerr", 1) > 0 else "trivia-changes-structure", "recipe": "blank-in-heredoc-opener",
                                         "construct": "heredoc-opener", "quote": q}, {"minimal": mk(""), "rendered": mk(bl), "ver": ver, "errors": r.get("errs")})
    check.cov["recipes"] = recipes
    check.cov["traces_validated_against_impl"] = check.cov["evaluations"]
    check.assumptions += ["gaps where PHP permits trivia = all token boundaries of Syntax.tla except those marked glue (string bodies, name separators, short ternary)",
                          "structural projection = reflection fingerprint without tokens and positions"]
    return check.finish({"rule": "each derivation x %d uniform recipes + random mixture (thorough: + every gap x every recipe for 300 derivations per family); "
                                 "distinct = (family, derivation, layout)" % len(recipes)})
