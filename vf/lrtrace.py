"""Recording and TLC validation of goyacc driver traces (LRDriver.tla / LRTrace.tla)."""
import json

from . import core

CFG = ("SPECIFICATION TSpec\nCONSTANTS States = {} Toks = {} Eof = \"$end\" None = \"\" RhsLen = {} MaxStack = 0 MaxInput = 0\n"
       "CONSTRAINT HighWater\nINVARIANTS ReportedBeforeAbort ReportedBeforeRecovery ReportsAreDetections StackKept InputAccounting CallbackAgrees\n"
       "POSTCONDITION Accepted\nCHECK_DEADLOCK FALSE\n")


def flatten(r):
    """one lrtrace result -> events for LRTrace (ncb: "syntax error" callbacks that preceded the event)"""
    # the callback order is the driver order: the k-th err event is followed by the k-th "syntax error" message
    nsyn = sum(1 for e in (r.get("errs") or []) if (e.get("msg") or "").startswith("syntax error"))
    out = [{"k": "reset"}]
    seen = 0
    for ev in r["evs"]:
        k = ev[0]
        e = {"k": k}
        if k == "lex":
            e["t"] = ev[1]
        elif k == "push":
            e["s"], e["la"] = ev[1], ev[2]
        elif k == "reduce":
            e["r"], e["s"] = ev[1], ev[2]
        elif k == "err":
            e["s"], e["t"] = ev[1], ev[2]
            seen += 1
        elif k == "pop":
            e["s"] = ev[1]
        elif k == "discard":
            e["t"] = ev[1]
        elif k == "ret":
            e["n"] = ev[1]
        e["ncb"] = min(seen, nsyn) if k != "ret" else nsyn
        out.append(e)
    for e in out:
        for f, d in (("t", ""), ("s", -1), ("la", ""), ("r", -1), ("n", -1), ("ncb", 0)):
            e.setdefault(f, d)
    return out


def validate(events, r2, check, label, timeout=1800):
    nd = "\n".join(json.dumps(e) for e in events) + "\n"
    r = core.tlc("LRTrace", CFG, workers=1, files={"trace.ndjson": nd, "r2.ndjson": json.dumps(list(r2)) + "\n"},
                 allow_violation=True, timeout=timeout, heap="8g")
    check.add_tlc("LRTrace(%s)" % label, r, kind="trace_validation")
    at = None
    for o in r.out:
        if isinstance(o, list) and o and o[0] == "REJECTED_AT":
            at = o[1]
    return r.violated, at


def validate_all(traces, r2, check, label):
    """traces: list of (meta, events); one TLC run for all; a rejected or invariant-violating trace is isolated and the rest is
    still checked.  Returns list of (meta, what, event index, context)."""
    bad = []
    todo = list(traces)
    rounds = 0
    while todo and rounds < 20:
        rounds += 1
        events, index = [], []
        for k, (meta, evs) in enumerate(todo):
            index.append((len(events), k))
            events += evs
        violated, at = validate(events, r2, check, "%s,round%d,%d traces" % (label, rounds, len(todo)))
        if violated is None:
            break
        if violated != "Postcondition" or at is None:
            # an invariant failed somewhere: bisect by halves
            if len(todo) == 1:
                bad.append((todo[0][0], "invariant:" + str(violated), None, todo[0][1][-6:]))
                break
            half = len(todo) // 2
            bad += validate_all(todo[:half], r2, check, label + "a") + validate_all(todo[half:], r2, check, label + "b")
            break
        k = max(i for (start, i) in index if start < at)
        start = [s for (s, i) in index if i == k][0]
        meta, evs = todo[k]
        bad.append((meta, "rejected", at - 1 - start, evs[max(0, at - 5 - start):at - start]))
        todo = todo[k + 1:]
    return bad


def rederive(events):
    """Independent re-derivation of the driver facts on one trace (plain Python, no TLC): returns None or (index, what)."""
    stack, la, errflag, reports, phase, lexed, consumed, status = [], "", 0, 0, "start", 0, 0, "parsing"
    for i, e in enumerate(events):
        k = e["k"]
        if k == "reset":
            stack, la, errflag, reports, phase, lexed, consumed, status = [], "", 0, 0, "start", 0, 0, "parsing"
            continue
        if k == "lex":
            if la != "" or phase != "run":
                return i, "lex-while-lookahead-held"
            la = e["t"]
            lexed += 1
        elif k == "push":
            if phase == "start":
                stack, phase = [e["s"]], "run"
            elif phase == "goto":
                if e["la"] != la:
                    return i, "goto-changed-lookahead"
                stack.append(e["s"])
                phase = "run"
            elif phase == "recover":
                if e["la"] != la:
                    return i, "error-shift-changed-lookahead"
                stack.append(e["s"])
                phase = "run"
            elif e["la"] == "" and la != "":
                stack.append(e["s"])
                la = ""
                consumed += 1
                errflag = max(0, errflag - 1)
            elif errflag in (1, 2) and e["la"] == la:
                stack.append(e["s"])
                errflag = 3
            else:
                return i, "push-without-shift-goto-or-recovery"
        elif k == "reduce":
            if phase != "run" or not stack or stack[-1] != e["s"]:
                return i, "reduce-in-wrong-state"
            phase = "goto"
            n = e.get("_n")
            if n is None:
                return i, "unknown-rule"
            if n >= len(stack):
                return i, "reduce-pops-the-bottom"
            if n:
                del stack[-n:]
        elif k == "err":
            if errflag != 0:
                return i, "error-reported-while-errflag>0"
            if not stack or stack[-1] != e["s"]:
                return i, "error-in-wrong-state"
            reports += 1
            errflag, phase = 3, "recover"
        elif k == "pop":
            if phase == "run" and errflag in (1, 2):
                errflag, phase = 3, "recover"
            if phase != "recover" or not stack or stack[-1] != e["s"]:
                return i, "pop-outside-recovery"
            stack.pop()
        elif k == "discard":
            if errflag != 3 or la != e["t"]:
                return i, "discard-without-errflag-3"
            if la == "$end":
                status = "aborted"
            else:
                la = ""
                consumed += 1
        elif k == "ret":
            if e["n"] == 1 and reports == 0:
                return i, "abort-without-report"
            if e["n"] == 0 and la != "$end":
                return i, "accept-without-end"
        if e["ncb"] != reports and k != "reset":
            return i, "callback-count-differs-from-reports"
    return None
