"""Shared driver for the Walk.tla instantiations (C12 traverser, C15 printer, C16 dumper)."""
import json
import os

from . import core


def check_schema(wp):
    """The frozen NodeSchema must describe the tree under test; otherwise the specification data is out of date."""
    live = wp.run([{"op": "schema"}])[0]["schema"]
    frozen = json.load(open(os.path.join(core.SPEC, "nodeschema.json")))
    if live != frozen:
        diff = sorted(set(k for k in set(live) | set(frozen) if live.get(k) != frozen.get(k)))
        raise core.InfraError("NodeSchema.tla is out of date with respect to pkg/ast/node.go (kinds: %s); "
                              "regenerate with tools/gen_schema.py and review" % ", ".join(diff[:10]))
    return frozen


def instances(mode, budget, maxlen, check, kinds=None, timeout=1800):
    mc = ("---- MODULE MCWalk ----\nEXTENDS Walk\nMCKinds == %s\n%s====\n"
          % ("Kinds" if kinds is None else "{" + ", ".join('"%s"' % k for k in kinds) + "}",
             "ASSUME PrintT(ToJson([lextable |-> LexTable]))\n" if mode == "print" else ""))
    inv = {"traverse": "TraverseOK", "print": "PrintOK", "dump": "DumpOK"}[mode]
    cfg = ("SPECIFICATION Spec\nCONSTANTS Mode = \"%s\" Budget = %d MaxLen = %d\nCONSTANT RunKinds <- MCKinds\n"
           "INVARIANT %s\nCHECK_DEADLOCK FALSE\n" % (mode, budget, maxlen, inv))
    r = core.tlc("MCWalk", cfg, files={"MCWalk.tla": mc}, timeout=timeout, heap="8g")
    check.add_tlc("Walk(mode=%s,budget=%d,maxlen=%d)" % (mode, budget, maxlen), r)
    seen = set()
    out = []
    for o in r.out:
        if "lextable" in o:
            check.lextable = o["lextable"]
            continue
        key = (o["kind"], tuple(o["slots"]), tuple(sorted(o.get("opts", []))))
        if key in seen:
            continue
        seen.add(key)
        out.append(o)
    return out
