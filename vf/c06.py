"""C06 - malformed input is always reported; a silent parse is a complete parse.

Programs derived from Syntax.tla are broken by one of three edits that are guaranteed to leave the language
(an unmatched closing bracket inserted at a token boundary outside strings, a mandatory closing bracket deleted,
truncation right after a token that demands a continuation): at least one error must be delivered.  For every
input (these, Lexer.tla's cover, random bytes): errors have a non-empty message, no position or an in-range one
with correct lines, arrive in source order; zero errors => non-nil root; the tree does not depend on whether a
callback is installed.  LRDriver.tla specifies goyacc's parser loop with its error recovery (Errflag, report, pop, error shift,
discard, abort); the real yyParse runs with its debug stream on, and TLC validates every recorded step against
LRTrace.tla (ReportedBeforeAbort, ReportedBeforeRecovery, CallbackAgrees, InputAccounting at every step)."""
import random

from . import core, syntax, progs, lexgen, c01, semerr, lrtrace

CLOSERS = {b")", b"]", b"}"}
CONT = {b"+", b"-", b"*", b"/", b".", b"=", b"(", b"[", b"{", b",", b"->", b"::", b"=>", b"&&", b"||", b"?", b"==", b"<", b">", b"%", b"&", b"|", b"^",
        b"if", b"while", b"for", b"foreach", b"function", b"new", b"echo", b"switch", b"elseif", b"case", b"instanceof", b"and", b"or", b"xor",
        b"try", b"catch", b"do", b"global", b"static", b"unset", b"throw", b"clone", b"print", b"+=", b"-=", b".=", b"**", b"<<", b">>", b"!", b"~", b"@"}


def breaks(P, src, rng, per_kind):
    """yield (kind, broken source)"""
    gaps = P.gaps()
    toks = P.toks
    out = []
    # positions inside a string body (between an opening and a closing quote token) are not edited
    instr = [False] * (len(toks) + 1)
    depth = 0
    for i, t in enumerate(toks):
        if t.lex in ('"', "`", "HEREDOC_START") and t.glue == "R":
            depth += 1
        elif t.lex in ('"', "`", "HEREDOC_END") and t.glue == "L":
            depth -= 1
        instr[i + 1] = depth > 0
    cand = [i for i in range(1, len(toks)) if gaps[i] in ("free", "sep") and not instr[i]]
    for i in rng.sample(cand, min(per_kind, len(cand))):
        c = rng.choice([b")", b"]", b"}"])
        out.append(("insert-closer", src[:toks[i].s] + c + src[toks[i].s:]))
    cl = [t for t in toks if t.text in CLOSERS and not t.glue and not instr[t.idx]]
    for t in rng.sample(cl, min(per_kind, len(cl))):
        out.append(("delete-closer", src[:t.s] + src[t.e:]))
    ct = [t for t in toks if t.text.lower() in CONT and not t.glue and not instr[t.idx]]
    for t in rng.sample(ct, min(per_kind, len(ct))):
        out.append(("truncate", src[:t.e]))
    return out


def run(tier):
    check = core.Check("C06", tier)
    rng = random.Random(core.seed())
    wp = core.WorkerPool(core.build_worker())
    n = 400 if tier == "quick" else 3000
    per = 2 if tier == "quick" else 6
    broken = []
    for family in ("7", "5"):
        table, behs = syntax.generate(check, family, num=n, seed=core.seed() + 6, depth=3)
        for i, b in enumerate(behs):
            try:
                P = syntax.Program(table, b, random.Random(core.seed() * 7919 + i))
            except syntax.Skip:
                continue
            src = P.render(syntax.layout_random(random.Random(i)) if i % 2 else syntax.layout_uniform("none"))
            for kind, bs in breaks(P, src, rng, per):
                broken.append((family, kind, bs))
    tasks = []
    for j, (family, kind, bs) in enumerate(broken):
        for ver in progs.VERS[family][:2] + (["nil"] if family == "7" and j % 3 == 0 else []):
            tasks.append({"op": "analyze", "src": bs.decode("latin-1"), "ver": ver, "_k": kind})
    res = wp.run([{k: v for k, v in t.items() if k != "_k"} for t in tasks])
    for t, r in zip(tasks, res):
        check.count()
        check.distinct((t["src"], t["ver"]))
        if r.get("panic") or r.get("hang") or r.get("crash"):
            continue
        if r.get("nerr", 0) == 0:
            check.violation({"class": "malformed-accepted-silently", "edit": t["_k"], "family": t["ver"][0]},
                            {"src": t["src"], "ver": t["ver"], "edit": t["_k"]})
    check.cov["broken_programs"] = len(broken)
    check.sample({"edit": broken[0][1], "src": broken[0][2].decode("latin-1")})
    # error shape, silent => complete, callback independence: on broken programs, scanner cover and random bytes
    srcs = [b for _, _, b in broken[:: (3 if tier == "quick" else 1)]]
    srcs += [c["src"] for c in lexgen.cases(check, tier, rng)][:: (4 if tier == "quick" else 1)]
    srcs += c01.random_inputs(rng, 1500 if tier == "quick" else 20000, 14)
    for fam_ in ("7", "5"):
        srcs += progs.token_mutations(check, fam_, core.seed(), 150 if tier == "quick" else 2000)
    srcs = list(dict.fromkeys(srcs))
    tasks = []
    for i, s in enumerate(srcs):
        ver = ["7.4", "5.6", "7.2", "5.3", "nil"][i % 5]
        tasks.append({"op": "analyze", "src": s.decode("latin-1"), "ver": ver})
        tasks.append({"op": "analyze", "src": s.decode("latin-1"), "ver": ver, "nocb": True})
        tasks.append({"op": "analyze", "src": s.decode("latin-1"), "ver": ver, "recb": True})     # a callback that parses something itself
    res = wp.run(tasks)
    for k in range(0, len(tasks), 3):
        t, r, rn, rr = tasks[k], res[k], res[k + 1], res[k + 2]
        check.count(3)
        if any(x.get("panic") or x.get("hang") or x.get("crash") for x in (r, rn, rr)):
            continue
        if r.get("root") != rr.get("root") or r.get("fp") != rr.get("fp") or r.get("nerr") != rr.get("nerr"):
            check.violation({"class": "tree-depends-on-what-the-callback-does", "family": t["ver"][0]},
                            {"src": t["src"], "ver": t["ver"], "plain_callback": [r.get("root"), r.get("fp"), r.get("nerr")],
                             "callback_that_parses": [rr.get("root"), rr.get("fp"), rr.get("nerr")]})
        for f in r.get("fails") or []:
            if f["c"].startswith("C06."):
                check.violation({"class": f["c"], "family": t["ver"][0], "msg": (f.get("msg") or "")[:40]},
                                {"src": t["src"], "ver": t["ver"], "fail": f, "errors": r.get("errs")})
        if r.get("root") != rn.get("root") or r.get("fp") != rn.get("fp"):
            check.violation({"class": "tree-depends-on-callback", "family": t["ver"][0]},
                            {"src": t["src"], "ver": t["ver"], "with_callback": [r.get("root"), r.get("fp")], "without": [rn.get("root"), rn.get("fp")]})
        if r.get("nerr") == 0 and r.get("root") and r.get("print_eq") is False and c01.family(t["src"].encode("latin-1"), t["ver"]) != "empty-heredoc-flex":
            check.violation({"class": "silent-parse-incomplete", "family": t["ver"][0]},
                            {"src": t["src"], "ver": t["ver"], "printed": r.get("printed_ctx"), "source": r.get("src_ctx")})
    # errors reported by grammar actions (PHP 5: by-reference foreach key, trait extends / implements): reported, with a
    # position selecting the offending text; the same programs are syntax errors under PHP 7; callback independence
    sem = semerr.programs()
    vers5 = ["5.6", "5.0"] if tier == "quick" else ["5.6", "5.0", "5.3", "5.4", "5.5"]
    tasks = []
    for p in sem:
        for ver in vers5 + ["7.4"]:
            tasks.append({"op": "analyze", "src": p["src"], "ver": ver, "_p": p})
            tasks.append({"op": "analyze", "src": p["src"], "ver": ver, "nocb": True, "_p": p})
    res = wp.run([{k: v for k, v in t.items() if k != "_p"} for t in tasks])
    for k in range(0, len(tasks), 2):
        t, r, rn = tasks[k], res[k], res[k + 1]
        check.count(2)
        check.distinct((t["src"], t["ver"]))
        if any(x.get("panic") or x.get("hang") or x.get("crash") for x in (r, rn)):
            continue            # C01
        bad = semerr.judge5(t["_p"], r.get("errs")) if t["ver"][0] == "5" else (None if r.get("nerr", 0) > 0 else "malformed-accepted-silently")
        if bad:
            check.violation({"class": bad, "family": t["ver"][0], "construct": "trait" if "trait" in t["src"] else "foreach"},
                            {"src": t["src"], "ver": t["ver"], "errors": r.get("errs"), "expected": t["_p"]["expect5"]})
        for f in r.get("fails") or []:
            if f["c"].startswith("C06."):
                check.violation({"class": f["c"], "family": t["ver"][0], "msg": (f.get("msg") or "")[:40]},
                                {"src": t["src"], "ver": t["ver"], "fail": f, "errors": r.get("errs")})
        if r.get("root") != rn.get("root") or r.get("fp") != rn.get("fp"):
            check.violation({"class": "tree-depends-on-callback", "family": t["ver"][0]},
                            {"src": t["src"], "ver": t["ver"], "with_callback": [r.get("root"), r.get("fp")], "without": [rn.get("root"), rn.get("fp")]})
    check.cov["semantic_error_programs"] = len(sem)
    # the goyacc driver itself (LRDriver.tla): traces of yyParse on broken programs, action-reported errors and random bytes are
    # validated by TLC against LRTrace.tla; every detection with Errflag = 0 must reach the callback, an abort needs a report,
    # recovery only pops and discards
    nobl = core.tlapm("LRDriverProof", deps_of=["LRDriver"])      # the driver invariants hold for every grammar (tables open), not only within TLC's bounds
    check.cov["tlaps_obligations_proved"] = nobl
    check.cov["tlc_runs"].append({"spec": "LRDriverProof (tlapm: IndInit, IndStep, IndImplies, Safety)", "kind": "proof", "distinct_states": 0,
                                  "states_generated": 0, "depth": 0, "wall_s": 0, "obligations_proved": nobl})
    cap = 250 if tier == "quick" else 4000
    lsrc = [(f, b.decode("latin-1")) for f, _, b in broken[:: max(1, len(broken) // cap)]]
    lsrc += [("5", p["src"]) for p in sem[::7]] + [("7", p["src"]) for p in sem[::11]]
    lsrc += [(["7", "5"][i % 2], b.decode("latin-1")) for i, b in enumerate(c01.random_inputs(rng, cap, 12))]
    for family in ("7", "5"):
        ver = progs.VERS[family][0]
        mine = [x for f, x in lsrc if f == family]
        lt = [{"op": "lrtrace", "src": x, "ver": ver, "tables": i == 0} for i, x in enumerate(mine)]
        lres = wp.run(lt)
        r2 = None
        traces = []
        for t, r in zip(lt, lres):
            if r.get("panic") or r.get("hang") or r.get("crash"):
                continue
            r2 = r2 or r.get("r2")
            if r.get("unknown_lines"):
                raise core.InfraError("goyacc debug stream has lines the recorder does not know (%d) for %r" % (r["unknown_lines"], t["src"][:80]))
            traces.append(({"src": t["src"], "ver": ver}, lrtrace.flatten(r)))
        if not traces or not r2:
            raise core.InfraError("no driver trace recorded for family " + family)
        for meta, evs in traces:
            for e in evs:
                if e["k"] == "reduce":
                    e["_n"] = r2[e["r"]] if 0 <= e["r"] < len(r2) else None
        nev = sum(len(e) for _, e in traces)
        check.count(len(traces))
        check.cov["driver_trace_events_%s" % family] = nev
        for meta, what, at, ctx in lrtrace.validate_all([(m, [{k: v for k, v in e.items() if k != "_n"} for e in evs]) for m, evs in traces], r2, check, "php" + family):
            evs = [ev for m, ev in traces if m is meta][0]
            rd = lrtrace.rederive(evs)
            if rd is None:
                raise core.InfraError("LRTrace rejected a driver trace (%s at %s) that the independent re-derivation accepts: %r" % (what, at, meta["src"][:120]))
            check.violation({"class": "driver-" + rd[1], "family": family}, {"src": meta["src"], "ver": meta["ver"], "event_index": rd[0], "context": evs[max(0, rd[0] - 4):rd[0] + 1], "tlc": what})
        check.cov["traces_validated_against_impl_driver_%s" % family] = len(traces)
        # binding self-test: a trace that lost its error report must be rejected
        witherr = [evs for _, evs in traces if any(e["k"] == "err" for e in evs)]
        if witherr:
            bad = [{k: v for k, v in e.items() if k != "_n"} for e in witherr[0] if e["k"] != "err"]
            violated, _ = lrtrace.validate(bad, r2, check, "selftest-php" + family)
            if violated is None:
                raise core.InfraError("binding self-test failed: a driver trace without its error event was accepted")
    # malformed for SOME versions only: a heredoc body line that begins with the label and goes on is fine before 7.3 and ends the
    # heredoc from 7.3 on - under 7.3, 7.4 and with no version given the rest of that line must be reported
    from . import c03
    for sig, rep in c03.pre73(check, wp, tier):
        if sig["class"] == "label-line-not-reported-from-7.3":
            check.violation(sig, rep)
    check.cov["traces_validated_against_impl"] = check.cov["evaluations"]
    check.assumptions += ["the three edit kinds leave the language for every bracket-balanced program of Syntax.tla (brackets inside string bodies excluded)",
                          "line rule LF/CRLF/CR for error positions"]
    return check.finish({"rule": "SyntaxGen derivations x %d edits of each kind x 2 versions; shape/callback checks on broken programs, Lexer.tla cover, "
                                 "random bytes; distinct = (source, version)" % per})
