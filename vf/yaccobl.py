"""LRValues.tla's obligation on grammar actions, checked on the real grammars: goyacc pre-loads $$ of a reduction with the value
slot above the new stack top - for a production with an empty right-hand side that is a STALE slot (the value of something
reduced earlier), and the `error` pseudo-token carries whatever yyVAL held.  LRValues.tla shows that NoInvention / PrefixKept hold
for the recovery shape of these grammars provided every such action assigns $$, and fail otherwise (Deviation = stale-empty /
stale-error).  Here: for both generated parsers, every rule whose right-hand side is empty or is the single token `error` has an
action (`case N:` of yyParse's switch) that assigns yyVAL; the same for the .y source.  Rule numbers and right-hand sides come from
goyacc's y.output for the .y file of the tree under test (goyacc is built offline from the module cache)."""
import os
import re
import shutil
import subprocess
import tempfile

from . import core

_goyacc = None


def goyacc():
    global _goyacc
    if _goyacc:
        return _goyacc
    out = os.path.join(core.BUILD, "goyacc")
    if not os.path.exists(out):
        env = core.goenv()
        cache = subprocess.run(["go", "env", "GOMODCACHE"], env=env, capture_output=True, text=True).stdout.strip()
        src = os.path.join(cache, "golang.org/x/tools@v0.29.0/cmd/goyacc/yacc.go")
        if not os.path.exists(src):
            raise core.InfraError("goyacc source not in the module cache: " + src)
        d = tempfile.mkdtemp(prefix="vfgy-")
        try:
            shutil.copy(src, os.path.join(d, "main.go"))
            os.chmod(os.path.join(d, "main.go"), 0o644)
            open(os.path.join(d, "go.mod"), "w").write("module goyacc\ngo 1.21\n")
            os.makedirs(core.BUILD, exist_ok=True)
            p = subprocess.run(["go", "build", "-o", out, "."], cwd=d, env=env, capture_output=True, text=True)
            if p.returncode:
                raise core.InfraError("goyacc does not build: " + p.stderr[-800:])
        finally:
            shutil.rmtree(d, ignore_errors=True)
    _goyacc = out
    return out


def productions(yfile):
    """rule number -> (lhs, rhs string) from goyacc -v"""
    d = tempfile.mkdtemp(prefix="vfyo-")
    try:
        p = subprocess.run([goyacc(), "-o", os.path.join(d, "x.go"), "-v", os.path.join(d, "y.output"), yfile], cwd=d, capture_output=True, text=True)
        if p.returncode:
            raise core.InfraError("goyacc rejects %s: %s" % (yfile, (p.stdout + p.stderr)[-600:]))
        out = {}
        for line in open(os.path.join(d, "y.output")):
            m = re.match(r"^\t(\S+):\s+(.*?)\.\s+\((\d+)\)\s*$", line)
            if m:
                out[int(m.group(3))] = (m.group(1), m.group(2).strip())
        gen = open(os.path.join(d, "x.go"), errors="replace").read()
        return out, gen
    finally:
        shutil.rmtree(d, ignore_errors=True)


CASE = re.compile(r"^\tcase (\d+):\n", re.M)


def case_bodies(gosrc):
    """bodies of the action switch of yyParse: rule number -> text"""
    k = gosrc.find("// dummy call; replaced with literal code")
    if k < 0:
        k = gosrc.find("switch yynt {")
    body = gosrc[k:]
    out = {}
    ms = list(CASE.finditer(body))
    for a, b in zip(ms, ms[1:] + [None]):
        out[int(a.group(1))] = body[a.end():(b.start() if b else len(body))]
    return out


def assigns(body):
    return bool(re.search(r"\byyVAL\.\w+\s*=[^=]", body)) or bool(re.search(r"\byyVAL\s*=[^=]", body))


def check_family(check, fam):
    """returns list of (signature, replay)"""
    ydir = os.path.join(core.REPO, "internal", "php" + fam)
    yfile = os.path.join(ydir, "php%s.y" % fam)
    gofile = os.path.join(ydir, "php%s.go" % fam)
    prods, regen = productions(yfile)
    real = case_bodies(open(gofile, errors="replace").read())
    fresh = case_bodies(regen)
    bad = []
    # a nonterminal without a declared value type cannot be referred to as $n in an action: its value is never read (php7's
    # backup_doc_comment is a pure marker), so a stale value there harms nobody
    typed = set()
    for line in open(yfile, errors="replace"):
        m = re.match(r"^%type\s*<\w+>\s*(.*)$", line)
        if m:
            typed.update(m.group(1).split())
    if len(typed) < 50:
        raise core.InfraError("php%s.y: %%type declarations not understood" % fam)
    # ... and neither does a value that no action ever reads: nonterminal X is read if some production has X as its k-th symbol
    # and an action that mentions $k (yyDollar[k] in the generated code)
    read = set()
    for n, (lhs, rhs) in prods.items():
        body = fresh.get(n, "") + real.get(n, "")
        for k, sym in enumerate(rhs.split(), start=1):
            if "yyDollar[%d]" % k in body:
                read.add(sym)
    owed = {n: p for n, p in prods.items() if (p[1] == "" or p[1] == "error") and p[0] in typed and p[0] in read}
    check.cov["untyped_marker_nonterminals_%s" % fam] = sorted({p[0] for p in prods.values() if (p[1] == "" or p[1] == "error") and p[0] not in typed})
    for n, (lhs, rhs) in sorted(owed.items()):
        check.count(2)
        for where, bodies in (("generated parser php%s.go" % fam, real), ("grammar source php%s.y (regenerated)" % fam, fresh)):
            b = bodies.get(n)
            if b is None or not assigns(b):
                bad.append(({"class": "action-leaves-stale-value", "family": fam, "lhs": lhs, "rhs": rhs or "empty"},
                            {"rule": n, "production": "%s: %s" % (lhs, rhs or "/* empty */"), "where": where, "action": (b or "(no action)")[:400],
                             "why": "goyacc pre-loads $$ with a stale stack slot here (LRValues.tla, Deviation stale-empty / stale-error): "
                                    "recovery and later reductions then put a value of an EARLIER construct into the tree"}))
    check.cov["yacc_actions_owing_an_assignment_%s" % fam] = len(owed)
    if len(owed) < 20:
        raise core.InfraError("php%s.y: only %d empty / error productions found - y.output not understood" % (fam, len(owed)))
    return bad


def model_check(check, tier):
    for dev, want in (("none", None), ("stale-empty", "NoInvention"), ("stale-error", "NoInvention")):
        n = (6 if tier == "quick" else 8) if dev == "none" else 7
        cfg = ("SPECIFICATION %s\nCONSTANTS MaxLen = %d Deviation = \"%s\"\nINVARIANTS NoInvention CleanIsWhole Reported Bounded\n%sCHECK_DEADLOCK FALSE\n"
               % ("FairSpec" if dev == "none" else "Spec", n, dev, "PROPERTIES PrefixKept Terminates\n" if dev == "none" else ""))
        r = core.tlc("LRValues", cfg, allow_violation=dev != "none", timeout=1500)
        if dev != "none" and r.violated != want:
            raise core.InfraError("LRValues.tla: deviation %s does not violate %s (%s)" % (dev, want, r.violated))
        check.add_tlc("LRValues(MaxLen=%d, deviation=%s)%s" % (n, dev, "" if dev == "none" else " violates NoInvention (expected)"), r,
                      kind="model_checking" if dev == "none" else "anti-vacuity")
