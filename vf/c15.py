"""C15 - the printer emits every token and child of every node kind once, in order.

Walk.tla (mode print) prescribes, for every instance of every node kind, the sequence of markers the printer
owes (free-floating token, token, child, separators interleaved) and where an absent token may be replaced by
its canonical lexeme (Lexemes.tla) or nothing.  Each instance is built from the real pkg/ast types and printed
by the real printer; the output is tokenised back into markers and compared with the prescription.
PrinterOut.tla specifies the output stage below the walk (write / writeToken / StmtInlineHtml: when "<?php ",
a space or "?>" is put in front of a chunk; TLC checks NoGlue, Minimal, EveryChunkOnce, SourceVerbatim); every
behaviour up to the bound is replayed on the real printer through a recording io.Writer, Write call by Write call."""
import json
import re

from . import core, walk, inputs, printerout

MK = re.compile(r"\{#([TFN])(\d+)\.(\d+)#\}")
WORD = re.compile(r"[A-Za-z0-9_\x80-\xff]")


def gap_ok(gap, entries, lex, vmarks):
    """gap text == concatenation, in order, of (nothing | one canonical lexeme) per entry, where the printer may
    have put one space between two chunks."""
    def alts(e):
        out = set()
        for l in lex(e):
            if l == "VALUE":
                out.update(vmarks)
            else:
                out.add(l)
        return out

    def rec(pos, idx):
        if idx == len(entries):
            return pos == len(gap)
        # an absent token may be replaced by nothing; an absent separator BETWEEN two items is owed (Walk.tla: DS)
        if not entries[idx].startswith("DS") and rec(pos, idx + 1):
            return True
        for l in alts(entries[idx]):
            for sp in ("", " "):
                if gap.startswith(sp + l, pos) and rec(pos + len(sp) + len(l), idx + 1):
                    return True
        return False
    return rec(0, 0)


def compare(o, out, lextable):
    """returns None or (class, slot index)"""
    kind = o["kind"]
    table = lextable[kind]
    vmarks = ["{#V%d.1#}" % (i + 1) for i in range(len(o["slots"]))]

    def lex(e):
        i = int(e.split(".")[0].lstrip("DS"))
        return table[i - 1]
    parts = []
    pos = 0
    for m in MK.finditer(out):
        parts.append(out[pos:m.start()])
        parts.append(m.group(1) + m.group(2) + "." + m.group(3))
        pos = m.end()
    parts.append(out[pos:])
    got_markers = parts[1::2]
    exp_markers = [e for e in o["expect"] if e[0] in "TFN"]
    if got_markers != exp_markers:
        missing = [x for x in exp_markers if x not in got_markers]
        dup = [x for x in got_markers if got_markers.count(x) > 1 or x not in exp_markers]
        x = (missing or dup or [a for a, b in zip(exp_markers, got_markers) if a != b] or ["?0.0"])[0]
        cls = "missing" if missing else ("duplicate-or-foreign" if dup else "order")
        return cls, int(re.sub(r"^\D+", "", x).split(".")[0] or 0)
    gi = 0
    pend = []
    for e in o["expect"] + ["END"]:
        if e[0] == "D":
            pend.append(e)
            continue
        if not gap_ok(parts[gi], pend, lex, vmarks):
            slot = int(pend[0].split(".")[0].lstrip("DS")) if pend else 0
            return "foreign-text", slot
        pend = []
        gi += 2
    return None


def run(tier):
    check = core.Check("C15", tier)
    wp = core.WorkerPool(core.build_worker())
    schema = walk.check_schema(wp)
    budget, maxlen = (1, 3) if tier == "quick" else (3, 3)
    inst = walk.instances("print", budget, maxlen, check, timeout=3000)
    lextable = check.lextable
    res = wp.run([{"op": "synth", "kind": o["kind"], "slots": o["slots"], "run": "print"} for o in inst])
    kinds = set()
    for o, r in zip(inst, res):
        check.count()
        kinds.add(o["kind"])
        check.distinct((o["kind"], tuple(o["slots"])))
        if r.get("panic") or r.get("hang") or r.get("crash"):
            check.violation({"class": "crash", "kind": o["kind"], "site": r.get("site")}, {"instance": o, "observed": r})
            continue
        bad = compare(o, r["out"], lextable)
        if r.get("mutated"):
            bad = ("mutated", 0)
        if bad:
            cls, slot = bad
            name = schema[o["kind"]][slot - 1][0] if slot else None
            check.violation({"class": cls, "kind": o["kind"], "slot": name},
                            {"instance": o, "observed_output": r["out"], "slot": name})
    # Walk.tla's derived prescriptions: the same printer object used again (the second text may begin with one separating space);
    # one node object in every child slot is printed once per slot
    base = [o for o in inst if all(x in (0, 1, maxlen) for x in o["slots"])]
    t2 = [{"op": "synth", "kind": o["kind"], "slots": o["slots"], "run": "print", "again": True} for o in base] + \
         [{"op": "synth", "kind": o["kind"], "slots": o["slots"], "run": "print", "shared": True} for o in base]
    for o, t, r in zip(base + base, t2, wp.run(t2)):
        check.count()
        if r.get("panic") or r.get("hang") or r.get("crash"):
            check.violation({"class": "crash", "kind": o["kind"], "site": r.get("site")}, {"task": t, "observed": r})
            continue
        if t.get("again"):
            if compare(o, r["out"], lextable) is None:
                # what the output stage (PrinterOut.tla) may put in front of the second text is not the walk's business
                o2 = r["out2"]
                for pre in ("<?php ", "?>", " "):
                    if o2.startswith(pre) and not r["out"].startswith(pre):
                        o2 = o2[len(pre):]
                        break
                bad = compare(o, o2, lextable)
                if bad:
                    check.violation({"class": "printer-object-not-reusable", "kind": o["kind"], "slot": bad[0]},
                                    {"instance": o, "first": r["out"], "second": r["out2"]})
        else:
            os_ = dict(o, expect=["N0.0" if e.startswith("N") else e for e in o["expect"]])
            bad = compare(os_, r["out"], lextable)
            if bad and compare(o, wp.run([{"op": "synth", "kind": o["kind"], "slots": o["slots"], "run": "print"}])[0]["out"], lextable) is None:
                check.violation({"class": "shared-child-not-printed-per-slot", "kind": o["kind"], "slot": bad[0]},
                                {"instance": o, "observed_output": r["out"]})
    check.cov["again_and_shared_instances"] = len(t2)
    check.sample({"direction": "spec->impl", "instance": inst[len(inst) // 3]})
    # printing is compositional: for every ordered pair of kinds (all-present / all-absent) the text of two nodes in one list is
    # the text of the first followed by the text of the second (with PrinterOut.tla's separating space between name bytes)
    knames = sorted(schema)
    pt = [{"op": "synth_pairs", "kinds": knames[i:i + 8], "limit_ms": 120000} for i in range(0, len(knames), 8)]
    npairs = 0
    for t, r in zip(pt, wp.run(pt)):
        if r.get("panic") or r.get("hang") or r.get("crash"):
            check.violation({"class": "crash", "kind": None, "site": r.get("site")}, {"task": t, "observed": r})
            continue
        npairs += r.get("pairs", 0)
        for b in r.get("bad") or []:
            check.violation({"class": "printer-state-leaks-into-next-node", "kind": b["first"], "slot": b["second"]}, b)
    check.count(npairs)
    check.cov["kind_pairs_printed"] = npairs
    # the output stage (PrinterOut.tla): which chunk gets an open tag / a space / a close tag in front of it
    if tier == "quick":
        behs = printerout.behaviours(check, 2) + printerout.behaviours(check, 3, cars=("src", "syn"))
    else:
        behs = printerout.behaviours(check, 3) + printerout.behaviours(check, 4, kinds=("php",), cars=("src", "syn"), timeout=3000) + \
            printerout.behaviours(check, 4, kinds=("html",), cars=("src", "val"), timeout=3000)
    for b, want, got in printerout.replay(check, wp, behs):
        check.violation(printerout.classify(b, want, got), {"behaviour": b, "expected_writes": want, "observed_writes": got})
    check.count(len(behs))
    check.cov["output_stage_behaviours"] = len(behs)
    check.cov["traces_validated_against_impl"] += len(behs)
    check.sample({"direction": "spec->impl", "output_stage": behs[len(behs) // 2]})
    check.cov["kinds_covered"] = len(kinds)
    check.cov["traces_validated_against_impl"] += len(inst)
    check.assumptions += ["NodeSchema.tla / Lexemes.tla (frozen, written from PHP's syntax)",
                          "markers {#..#} never trigger the printer's automatic space",
                          "PrinterOut.tla chunk shapes: first/last byte class, '<?' prefix, '?>' suffix, empty; carriers src/syn/val"]
    return check.finish({"exhaustive": True,
                         "rule": "every kind x (baseline all-present/all-absent with <=%d deviating slots) x list lengths 0..%d x separator "
                                 "arrangements; distinct = distinct (kind, slot contents); plus every PrinterOut.tla chunk sequence up to the bound" % (budget, maxlen)})
