"""The command line tool (cmd/php-parser) as the user runs it: several parser workers feed one printer goroutine through
channels (Interleave.tla's pipelines in their real packaging).  A directory of files is processed by the real binary, built from
the tree under test, and every file's part of the output must be what the library produces for that file alone:
  -pb   the file is overwritten with print(parse(file))            (C02: byte-identical when no error was reported)
  -d    stdout = the dumps, in the order of the "==> [k] path" lines (C16; C11: results stay with their file)
  -e    the error lines between two path lines are that file's errors (C06/C11)
"""
import os
import re
import shutil
import subprocess
import tempfile

from . import core

_built = {}


def build_cli(race=False):
    key = "race" if race else "plain"
    if key not in _built:
        os.makedirs(core.BUILD, exist_ok=True)
        out = os.path.join(core.BUILD, "php-parser-race" if race else "php-parser")
        cmd = ["go", "build"] + (["-race"] if race else []) + ["-o", out, "./cmd/php-parser"]
        p = subprocess.run(cmd, cwd=core.REPO, env=core.goenv(), stdout=subprocess.PIPE, stderr=subprocess.STDOUT, text=True)
        if p.returncode != 0:
            raise core.InfraError("cmd/php-parser does not build:\n" + p.stdout[-3000:])
        _built[key] = out
    return _built[key]


def expectations(wp, sources, ver):
    res = wp.run([{"op": "cli_expect", "src": s, "ver": ver} for s in sources])
    return res


def run_dir(binary, files, flags, ver, procs, timeout=300, env_extra=None):
    """files: list of (name, bytes). Returns (returncode, stdout bytes, stderr text, {name: bytes after the run})"""
    d = tempfile.mkdtemp(prefix="vfcli-")
    try:
        for name, data in files:
            with open(os.path.join(d, name), "wb") as fh:
                fh.write(data)
        env = dict(os.environ, GOMAXPROCS=str(procs))
        env.update(env_extra or {})
        p = subprocess.run([binary] + flags + ["-phpver", ver, d], stdout=subprocess.PIPE, stderr=subprocess.PIPE, env=env, timeout=timeout)
        after = {}
        for name, _ in files:
            with open(os.path.join(d, name), "rb") as fh:
                after[name] = fh.read()
        return p.returncode, p.stdout, p.stderr.decode("latin-1"), after
    finally:
        shutil.rmtree(d, ignore_errors=True)


def big_sources(sources, sizes=(80000, 140000, 300000)):
    """sources far above any plausible size threshold of the tool (read buffers, pools, pipes), joined from clean programs"""
    from . import progs
    clean = [s for s in sources if s.startswith("<?php ") and "__halt_compiler" not in s.lower() and "namespace" not in s.lower() and "declare" not in s.lower()
             and "<<<" not in s]          # (an empty heredoc under >= 7.3 is known finding D6: the scanner may panic)
    out = []
    for size in sizes:
        acc, n = [], 0
        k = 0
        while n < size and clean:
            acc.append(clean[k % len(clean)])
            n += len(acc[-1])
            k += 1
        if acc:
            out.append(progs.join_programs(acc))
    return out


PATHLINE = re.compile(r"^==> \[(\d+)\] (.*)$")


def judge(files, exps, rc, out, err, after, flags):
    """returns list of (signature, replay)"""
    bad = []
    byname = {n: (d, e) for (n, d), e in zip(files, exps)}
    if rc != 0:
        race = "DATA RACE" in err
        return [({"class": "cli-data-race" if race else "cli-exit-status", "rc": rc if not race else 66}, {"stderr": err[-3000:]})]
    if "-pb" in flags:
        # the file must hold what the library prints for this file alone (whether that equals the source is the library-level
        # part of C02; here: nothing of another file, no state carried over from the previous one)
        for n, (data, e) in byname.items():
            want = e["printed"].encode("latin-1")
            if after[n] != want:
                k = 0
                while k < len(want) and k < len(after[n]) and want[k] == after[n][k]:
                    k += 1
                bad.append(({"class": "cli-print-back-differs"}, {"file": n, "at": k, "library_prints": want[max(0, k - 20):k + 40].decode("latin-1"),
                                                                   "written": after[n][max(0, k - 20):k + 40].decode("latin-1")}))
                break
    if "-p" in flags:
        # split stderr into per-file sections
        order, sections, cur = [], {}, None
        for line in err.splitlines():
            m = PATHLINE.match(line)
            if m:
                cur = os.path.basename(m.group(2))
                order.append(cur)
                sections[cur] = []
            elif cur is not None:
                sections[cur].append(line)
        if sorted(order) != sorted(byname):
            bad.append(({"class": "cli-file-set-differs"}, {"reported": order[:20], "expected": sorted(byname)[:20]}))
            return bad
        if "-e" in flags:
            for n in order:
                want = ["==> " + x for x in (byname[n][1].get("errs") or [])]
                if sections[n] != want:
                    bad.append(({"class": "cli-errors-of-another-file" if sections[n] and want else "cli-errors-differ"},
                                {"file": n, "expected": want[:6], "observed": sections[n][:6]}))
                    break
        if "-d" in flags:
            want = b"".join(byname[n][1]["dump"].encode("latin-1") for n in order)
            if out != want:
                k = 0
                while k < len(out) and k < len(want) and out[k] == want[k]:
                    k += 1
                bad.append(({"class": "cli-dump-differs"}, {"at": k, "of": len(want), "expected": want[max(0, k - 60):k + 80].decode("latin-1"),
                                                             "observed": out[max(0, k - 60):k + 80].decode("latin-1")}))
    return bad


def check_cli(check, wp, sources, ver, modes, procs_list=(1, 4, 16), race=False, label="cli"):
    """sources: list of str (latin-1).  modes: list of flag lists.  Returns list of (signature, replay)."""
    exps = expectations(wp, sources, ver)
    keep = [(s, e) for s, e in zip(sources, exps) if not (e.get("panic") or e.get("hang") or e.get("crash") or e.get("noroot"))]
    files = [("f%04d.php" % i, s.encode("latin-1")) for i, (s, _) in enumerate(keep)]
    exps = [e for _, e in keep]
    binary = build_cli(race)
    bad = []
    env_extra = {"GORACE": "halt_on_error=1 exitcode=66"} if race else None
    for flags in modes:
        for procs in procs_list:
            rc, out, err, after = run_dir(binary, files, flags, ver, procs, env_extra=env_extra)
            check.count(len(files))
            for sig, rep in judge(files, exps, rc, out, err, after, flags):
                sig = dict(sig, flags=" ".join(flags))
                rep = dict(rep, gomaxprocs=procs, version=ver, files=len(files))
                bad.append((sig, rep))
    check.cov["cli_files"] = check.cov.get("cli_files", 0) + len(files)
    return bad
