------------------------------ MODULE Lexemes ------------------------------
(* The canonical lexeme(s) of every token slot, written from PHP's syntax (not    *)
(* from printer.go).  C15: where a token is absent the printer substitutes one of  *)
(* these or nothing - never another construct's text.  "VALUE" stands for the     *)
(* byte value of a leaf node (its only spelling is the value itself).             *)
EXTENDS TLC

ByName == [
  AmpersandTkn |-> {"&"}, ArrayTkn |-> {"array"}, AsTkn |-> {"as"}, AtTkn |-> {"@"}, BreakTkn |-> {"break"},
  CaseSeparatorTkn |-> {":", ";"}, CaseTkn |-> {"case"}, CatchTkn |-> {"catch"}, ClassTkn |-> {"class"},
  CloneTkn |-> {"clone"}, CloseBacktickTkn |-> {"`"}, CloseBracketTkn |-> {"]"}, CloseCurlyBracketTkn |-> {"}"},
  CloseHeredocTkn |-> {"EOT", "EOD", "EOF"}, CloseParenthesisTkn |-> {")"}, CloseQuoteTkn |-> {"\""},
  CloseSquareBracketTkn |-> {"]"}, ColonTkn |-> {":"}, CondSemiColonTkn |-> {";"}, ConstTkn |-> {"const"},
  ContinueTkn |-> {"continue"}, DecTkn |-> {"--"}, DeclareTkn |-> {"declare"}, DefaultTkn |-> {"default"},
  DoTkn |-> {"do"}, DollarOpenCurlyBracketTkn |-> {"${"}, DollarTkn |-> {"$"}, DoubleArrowTkn |-> {"=>"},
  DoubleColonTkn |-> {"::"}, EchoTkn |-> {"echo", "<?="}, EllipsisTkn |-> {"..."}, ElseIfTkn |-> {"elseif"},
  ElseTkn |-> {"else"}, EmptyTkn |-> {"empty"}, EncapsedStrTkn |-> {"VALUE"}, EndDeclareTkn |-> {"enddeclare"},
  EndForTkn |-> {"endfor"}, EndForeachTkn |-> {"endforeach"}, EndIfTkn |-> {"endif"}, EndSwitchTkn |-> {"endswitch"},
  EndTkn |-> {}, EndWhileTkn |-> {"endwhile"}, EqualTkn |-> {"="}, EvalTkn |-> {"eval"}, ExclamationTkn |-> {"!"},
  ExitTkn |-> {"exit", "die"}, ExtendsTkn |-> {"extends"}, FinallyTkn |-> {"finally"}, FnTkn |-> {"fn"},
  ForTkn |-> {"for"}, ForeachTkn |-> {"foreach"}, FunctionTkn |-> {"function"}, GlobalTkn |-> {"global"},
  GotoTkn |-> {"goto"}, HaltCompilerTkn |-> {"__halt_compiler"}, IdentifierTkn |-> {"VALUE"}, IfTkn |-> {"if"},
  ImplementsTkn |-> {"implements"}, IncTkn |-> {"++"}, IncludeOnceTkn |-> {"include_once"}, IncludeTkn |-> {"include"},
  InitSemiColonTkn |-> {";"}, InlineHtmlTkn |-> {"VALUE"}, InstanceOfTkn |-> {"instanceof"}, InsteadofTkn |-> {"insteadof"},
  InterfaceTkn |-> {"interface"}, IssetTkn |-> {"isset"}, LeadingNsSeparatorTkn |-> {"\\"}, ListTkn |-> {"list"},
  MagicConstTkn |-> {"VALUE"}, MinusTkn |-> {"-"}, NewTkn |-> {"new"}, NsSeparatorTkn |-> {"\\"}, NsTkn |-> {"namespace"},
  NumberTkn |-> {"VALUE"}, ObjectOperatorTkn |-> {"->"}, OpenBacktickTkn |-> {"`"}, OpenBracketTkn |-> {"["},
  OpenCurlyBracketTkn |-> {"{"}, OpenHeredocTkn |-> {"<<<EOT\n", "<<<EOD\n", "<<<EOF\n"}, OpenParenthesisTkn |-> {"("},
  OpenQuoteTkn |-> {"\""}, OpenSquareBracketTkn |-> {"["}, PlusTkn |-> {"+"}, PrintTkn |-> {"print"},
  QuestionTkn |-> {"?"}, RequireOnceTkn |-> {"require_once"}, RequireTkn |-> {"require"}, ReturnTkn |-> {"return"},
  SemiColonTkn |-> {";"}, StaticTkn |-> {"static"}, StringTkn |-> {"VALUE"}, SwitchTkn |-> {"switch"},
  ThrowTkn |-> {"throw"}, TildaTkn |-> {"~"}, TraitTkn |-> {"trait"}, TryTkn |-> {"try"}, UnsetTkn |-> {"unset"},
  UseCloseParenthesisTkn |-> {")"}, UseOpenParenthesisTkn |-> {"("}, UseTkn |-> {"use"}, VariadicTkn |-> {"..."},
  WhileTkn |-> {"while"}, YieldFromTkn |-> {"yield from"}, YieldTkn |-> {"yield"} ]

\* slots whose lexeme depends on the construct
ByKind == [
  ExprArray |-> [OpenBracketTkn |-> {"[", "("}, CloseBracketTkn |-> {"]", ")"}],     \* [..] and array(..)
  ExprList  |-> [OpenBracketTkn |-> {"[", "("}, CloseBracketTkn |-> {"]", ")"}],     \* [..] and list(..)
  ExprArrayDimFetch |-> [OpenBracketTkn |-> {"[", "{"}, CloseBracketTkn |-> {"]", "}"}],   \* $a[i] and $a{i}
  ExprAssignReference |-> [EqualTkn |-> {"="}],
  ExprAssignBitwiseAnd |-> [EqualTkn |-> {"&="}], ExprAssignBitwiseOr |-> [EqualTkn |-> {"|="}],
  ExprAssignBitwiseXor |-> [EqualTkn |-> {"^="}], ExprAssignCoalesce |-> [EqualTkn |-> {"??="}],
  ExprAssignConcat |-> [EqualTkn |-> {".="}], ExprAssignDiv |-> [EqualTkn |-> {"/="}],
  ExprAssignMinus |-> [EqualTkn |-> {"-="}], ExprAssignMod |-> [EqualTkn |-> {"%="}],
  ExprAssignMul |-> [EqualTkn |-> {"*="}], ExprAssignPlus |-> [EqualTkn |-> {"+="}],
  ExprAssignPow |-> [EqualTkn |-> {"**="}], ExprAssignShiftLeft |-> [EqualTkn |-> {"<<="}],
  ExprAssignShiftRight |-> [EqualTkn |-> {">>="}],
  ExprBinaryBitwiseAnd |-> [OpTkn |-> {"&"}], ExprBinaryBitwiseOr |-> [OpTkn |-> {"|"}], ExprBinaryBitwiseXor |-> [OpTkn |-> {"^"}],
  ExprBinaryBooleanAnd |-> [OpTkn |-> {"&&"}], ExprBinaryBooleanOr |-> [OpTkn |-> {"||"}], ExprBinaryCoalesce |-> [OpTkn |-> {"??"}],
  ExprBinaryConcat |-> [OpTkn |-> {"."}], ExprBinaryDiv |-> [OpTkn |-> {"/"}], ExprBinaryEqual |-> [OpTkn |-> {"=="}],
  ExprBinaryGreater |-> [OpTkn |-> {">"}], ExprBinaryGreaterOrEqual |-> [OpTkn |-> {">="}], ExprBinaryIdentical |-> [OpTkn |-> {"==="}],
  ExprBinaryLogicalAnd |-> [OpTkn |-> {"and"}], ExprBinaryLogicalOr |-> [OpTkn |-> {"or"}], ExprBinaryLogicalXor |-> [OpTkn |-> {"xor"}],
  ExprBinaryMinus |-> [OpTkn |-> {"-"}], ExprBinaryMod |-> [OpTkn |-> {"%"}], ExprBinaryMul |-> [OpTkn |-> {"*"}],
  ExprBinaryNotEqual |-> [OpTkn |-> {"!=", "<>"}], ExprBinaryNotIdentical |-> [OpTkn |-> {"!=="}], ExprBinaryPlus |-> [OpTkn |-> {"+"}],
  ExprBinaryPow |-> [OpTkn |-> {"**"}], ExprBinaryShiftLeft |-> [OpTkn |-> {"<<"}], ExprBinaryShiftRight |-> [OpTkn |-> {">>"}],
  ExprBinarySmaller |-> [OpTkn |-> {"<"}], ExprBinarySmallerOrEqual |-> [OpTkn |-> {"<="}], ExprBinarySpaceship |-> [OpTkn |-> {"<=>"}],
  ExprCastArray |-> [CastTkn |-> {"(array)"}], ExprCastBool |-> [CastTkn |-> {"(bool)", "(boolean)"}],
  ExprCastDouble |-> [CastTkn |-> {"(float)", "(double)", "(real)"}], ExprCastInt |-> [CastTkn |-> {"(int)", "(integer)"}],
  ExprCastObject |-> [CastTkn |-> {"(object)"}], ExprCastString |-> [CastTkn |-> {"(string)", "(binary)"}],
  ExprCastUnset |-> [CastTkn |-> {"(unset)"}],
  ExprShellExec |-> [OpenBacktickTkn |-> {"`"}, CloseBacktickTkn |-> {"`"}],
  ScalarHeredoc |-> [OpenHeredocTkn |-> {"<<<EOT\n", "<<<EOD\n", "<<<EOF\n"}, CloseHeredocTkn |-> {"EOT", "EOD", "EOF"}],
  StmtSwitch |-> [CaseSeparatorTkn |-> {";"}],                                      \* switch (..) { ; case ..
  StmtNop |-> [SemiColonTkn |-> {";", "?>"}]
]

Lexeme(k, s) == IF k \in DOMAIN ByKind /\ s \in DOMAIN ByKind[k] THEN ByKind[k][s]
                ELSE IF s \in DOMAIN ByName THEN ByName[s] ELSE {}

\* default separator of a separated list, by kind
DefaultSep(k) == CASE k = "StmtCatch" -> "|"                                        \* catch (A | B $e)
                   [] k \in {"Name", "NameFullyQualified", "NameRelative"} -> "\\"
                   [] OTHER -> ","
=============================================================================
