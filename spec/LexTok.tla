------------------------------- MODULE LexTok -------------------------------
(* Token-level transition relation of the scanner: given the mode and the call *)
(* stack before a token, the token's id and a small "shape" of its bytes, which  *)
(* mode and stack may follow.  Lexer.tla (atoms, generative) is model-checked     *)
(* against this relation (Consistent), and LexerTrace.tla validates recorded       *)
(* implementation traces with it.  Token ids: the names of pkg/token, with single *)
(* characters written "CH:c".                                                     *)
EXTENDS Naturals, Sequences

PhpLike == {"php", "property", "halt_open", "halt_close", "halt_semi", "svname"}
StrLike == {"template", "backqote", "heredoc"}

CharToks == {"CH:" \o c : c \in {";", ":", ",", ".", "[", "]", "(", ")", "|", "/", "^", "&", "+", "-", "*", "=", "%", "!", "~", "$", "<", ">", "?", "@"}}

LTop(st) == st[Len(st)]
LPop(st, n) == SubSeq(st, 1, Len(st) - n)

\* shape: [closetag |-> BOOLEAN, hd |-> "heredoc" | "nowdoc" | "heredoc_end" | "", next |-> "var" | "eof" | "other"]

\* significant tokens
RECURSIVE After(_, _, _, _)
After(m, st, id, sh) ==
  CASE m \in {"main", "html"} ->
         (IF id = "T_INLINE_HTML" THEN {<<"html", st>>} ELSE IF id = "T_ECHO" THEN {<<"php", st>>} ELSE {})
    [] m \in PhpLike ->
         (CASE id = "CH:{" -> {<<"php", Append(st, "php")>>}
            [] id = "CH:}" -> IF st # <<>> THEN {<<LTop(st), LPop(st, 1)>>} ELSE {<<"php", <<>> >>}       \* RetUnderflow
            [] id = "T_OBJECT_OPERATOR" -> {<<"property", st>>}
            [] id = "CH:\"" -> {<<"template", st>>}
            [] id = "CH:`" -> {<<"backqote", st>>}
            [] id = "T_START_HEREDOC" -> {<<sh.hd, st>>}
            [] id = "CH:;" -> IF sh.closetag THEN {<<"html", st>>}
                              ELSE IF m = "halt_semi" THEN {<<"halt_end", st>>} ELSE {<<"php", st>>}
            [] id = "T_HALT_COMPILER" -> {<<"halt_open", st>>}
            [] id = "CH:(" -> IF m = "halt_open" THEN {<<"halt_close", st>>} ELSE {<<"php", st>>}
            [] id = "CH:)" -> IF m = "halt_close" THEN {<<"halt_semi", st>>} ELSE {<<"php", st>>}
            [] id \in {"T_INLINE_HTML", "T_END_HEREDOC", "T_ENCAPSED_AND_WHITESPACE", "T_NUM_STRING", "T_CURLY_OPEN",
                       "T_DOLLAR_OPEN_CURLY_BRACES"} -> {}                  \* never produced by php scanning
            [] id = "T_STRING_VARNAME" -> IF m = "svname" THEN {<<"php", st>>} ELSE {}
            [] OTHER -> {<<"php", st>>})
    [] m \in StrLike ->
         (CASE id = "T_ENCAPSED_AND_WHITESPACE" ->
                 IF m = "heredoc" THEN (IF sh.next = "other" THEN {<<"heredoc_end", st>>} ELSE {<<"heredoc", st>>}) ELSE {<<m, st>>}
            [] id = "T_VARIABLE" -> {<<"string_var", Append(st, m)>>}
            [] id = "T_CURLY_OPEN" -> {<<"php", Append(st, m)>>}
            [] id = "T_DOLLAR_OPEN_CURLY_BRACES" -> {<<"svname", Append(st, m)>>}
            [] id = "CH:\"" -> IF m = "template" THEN {<<"php", st>>} ELSE {}
            [] id = "CH:`" -> IF m = "backqote" THEN {<<"php", st>>} ELSE {}
            [] OTHER -> {})
    [] m = "nowdoc" -> IF id = "T_ENCAPSED_AND_WHITESPACE" THEN {<<"heredoc_end", st>>} ELSE {}
    [] m = "heredoc_end" -> IF id = "T_END_HEREDOC" THEN {<<"php", st>>} ELSE {}
    [] m = "string_var" ->
         (IF st = <<>> THEN {}
          ELSE CASE id \in {"T_VARIABLE", "T_OBJECT_OPERATOR", "T_STRING"} -> {<<"string_var", st>>}
                 [] id = "CH:[" -> {<<"string_var_index", Append(st, "string_var")>>}
                 [] OTHER -> After(LTop(st), LPop(st, 1), id, sh))                \* fall out (fret) and scan in the string mode
    [] m = "string_var_index" ->
         (IF Len(st) < 2 THEN {}
          ELSE CASE id \in {"CH:]", "T_ENCAPSED_AND_WHITESPACE"} -> {<<st[Len(st) - 1], LPop(st, 2)>>}
                 [] id \in {"T_NUM_STRING", "T_VARIABLE", "T_STRING"} -> {<<m, st>>}
                 [] id \in CharToks -> {<<m, st>>}
                 [] OTHER -> {})
    [] OTHER -> {}

\* free-floating tokens: the mode they leave behind (the stack never changes)
AfterFF(m, id) ==
  CASE id = "T_OPEN_TAG" -> IF m \in {"main", "html"} THEN {"php"} ELSE {}
    [] id = "T_WHITESPACE" -> IF m \in (PhpLike \ {"svname"}) THEN {m} ELSE IF m = "svname" THEN {"php"} ELSE {}
    [] id \in {"T_COMMENT", "T_DOC_COMMENT"} -> IF m \in PhpLike THEN {"php"}            \* PropertyFallback / HaltFallback
                                               ELSE IF m = "main" /\ id = "T_COMMENT" THEN {"main"} ELSE {}   \* shebang line
    [] id = "T_HALT_COMPILER" -> IF m = "halt_end" THEN {"halt_end"} ELSE {}
    [] OTHER -> {}
=============================================================================
