-------------------------------- MODULE Walk --------------------------------
(* One stack-less walk machine over a single node instance, instantiated three   *)
(* ways: the traverser (C12), the printer (C15) and the dumper (C16).  A node     *)
(* instance is a kind of NodeSchema plus, for every slot, what it holds:          *)
(*   tkn / node / value / position : 0 absent, 1 present                          *)
(*   list    : its length 0 .. MaxLen                                             *)
(*   tknlist : 0 no separators, 1 separators between items, 2 also a trailing one, *)
(*             3 one separator fewer than needed (the rest are defaults)           *)
(* Phase "choose" builds the instance slot by slot (at most Budget slots may      *)
(* deviate from the baseline all-present / all-absent; Budget >= number of slots  *)
(* enumerates every subset); phase "walk" processes the slots in schema order,    *)
(* which is source order, and appends what the visitor must produce to out.       *)
(* Children are leaf markers N<i>.<k>, tokens T<i>.<k> with one free-floating     *)
(* token F<i>.<k>, byte values V<i>.1 (i = slot index, k = item index).           *)
(*                                                                               *)
(* Two derived prescriptions (the harness derives them from `out`):               *)
(*   Again  - a visitor is an object that may be used again: the same visitor     *)
(*            walking the same instance a second time owes the same sequence      *)
(*            again (Again(out) = out \o out; the printer may put one separating  *)
(*            space in front of the second text);                                 *)
(*   Shared - the walk is defined over SLOTS, not objects: when one node object   *)
(*            stands in every child slot it is owed once per slot (every N<i>.<k> *)
(*            of `out` becomes the one marker N0.0).                              *)
EXTENDS NodeSchema, Lexemes, Naturals, Sequences, FiniteSets, TLC, Json

CONSTANTS Mode,      \* "traverse", "print" or "dump"
          RunKinds,  \* the kinds to enumerate in this run
          Budget,    \* number of slots that may deviate from the baseline
          MaxLen     \* longest list

VARIABLES kind, base, pres, dev, opts, pc, out, phase

vars == <<kind, base, pres, dev, opts, pc, out, phase>>

Again(o) == o \o o

N(k) == Len(Schema[k])
Nam(k, i) == Schema[k][i][1]
Typ(k, i) == Schema[k][i][2]

BaseVal(b, k, i) == IF b = "absent" THEN 0
                    ELSE IF Typ(k, i) = "list" THEN MaxLen ELSE 1

\* slots whose content the visitor under study can observe at all
Relevant(k, i) == CASE Mode = "traverse" -> Typ(k, i) \in {"node", "list"}
                    [] Mode = "print"    -> Typ(k, i) # "position"
                    [] OTHER             -> TRUE

Dom(b, k, i) == IF ~Relevant(k, i) THEN {BaseVal(b, k, i)}
                ELSE CASE Typ(k, i) = "list"    -> 0 .. MaxLen
                       [] Typ(k, i) = "tknlist" -> {0, 1, 2, 3}
                       [] OTHER                 -> {0, 1}

\* number of separators actually present, given the choice c and the list length L
SepCount(c, L) == CASE c = 0 -> 0
                    [] c = 1 -> IF L = 0 THEN 0 ELSE L - 1
                    [] c = 2 -> L
                    [] c = 3 -> IF L >= 2 THEN L - 2 ELSE 0

\* what the instance concretely holds in slot i (what the harness builds)
Holds(k, p, i) == IF Typ(k, i) = "tknlist" THEN SepCount(p[i], p[i - 1]) ELSE p[i]

ToStr(n) == ToString(n)
M(tag, i, kk) == tag \o ToStr(i) \o "." \o ToStr(kk)

Init == /\ kind \in RunKinds
        /\ base \in {"present", "absent"}
        /\ opts \in (IF Mode = "dump" THEN SUBSET {"tokens", "positions"} ELSE {{}})
        /\ pres = <<>> /\ dev = 0 /\ pc = 1 /\ out = <<>> /\ phase = "choose"

Choose == /\ phase = "choose" /\ Len(pres) < N(kind)
          /\ LET i == Len(pres) + 1 IN
             \E v \in Dom(base, kind, i) :
                /\ (v = BaseVal(base, kind, i) \/ dev < Budget)
                \* a separator list directly follows the list it belongs to
                /\ (Typ(kind, i) = "tknlist" => Typ(kind, i - 1) = "list")
                /\ pres' = Append(pres, v)
                /\ dev' = dev + (IF v = BaseVal(base, kind, i) THEN 0 ELSE 1)
          /\ UNCHANGED <<kind, base, opts, pc, out, phase>>

StartWalk == /\ phase = "choose" /\ Len(pres) = N(kind)
             /\ phase' = "walk"
             /\ out' = IF Mode = "traverse" THEN <<"self">> ELSE <<>>   \* the parent comes first
             /\ UNCHANGED <<kind, base, pres, dev, opts, pc>>

\* ---- what each visitor owes for slot i --------------------------------------

RECURSIVE ListItems(_, _, _, _, _)
\* items of list slot i (length L) interleaved with nsep separators of slot i+1:
\* the k-th separator follows the k-th item; where a separator is absent between two
\* items the printer supplies the default separator (DS), never after the last item.
ListItems(i, L, nsep, kk, withSeps) ==
  IF kk > L THEN <<>>
  ELSE <<M("N", i, kk)>>
       \o (IF ~withSeps THEN <<>>
           ELSE IF kk <= nsep THEN <<M("F", i + 1, kk), M("T", i + 1, kk)>>
           ELSE IF kk < L THEN <<M("DS", i, 0)>> ELSE <<>>)
       \o ListItems(i, L, nsep, kk + 1, withSeps)

HasSeps(k, i) == i < N(k) /\ Typ(k, i + 1) = "tknlist"

EmitTraverse(k, p, i) ==
  CASE Typ(k, i) = "node" -> IF p[i] = 1 THEN <<M("N", i, 1)>> ELSE <<>>
    [] Typ(k, i) = "list" -> ListItems(i, p[i], 0, 1, FALSE)
    [] OTHER -> <<>>

EmitPrint(k, p, i) ==
  CASE Typ(k, i) = "tkn"  -> IF p[i] = 1 THEN <<M("F", i, 1), M("T", i, 1)>>   \* free-floating first
                             ELSE <<M("D", i, 0)>>                               \* nothing or the canonical lexeme
    [] Typ(k, i) = "node" -> IF p[i] = 1 THEN <<M("N", i, 1)>> ELSE <<>>
    [] Typ(k, i) = "list" -> IF HasSeps(k, i)
                             THEN ListItems(i, p[i], SepCount(p[i + 1], p[i]), 1, TRUE)
                             ELSE ListItems(i, p[i], 0, 1, FALSE)
    [] OTHER -> <<>>

RECURSIVE Items(_, _, _, _)
Items(tag, i, n, kk) == IF kk > n THEN <<>> ELSE <<M(tag, i, kk)>> \o Items(tag, i, n, kk + 1)

\* the dumper owes one labelled entry per non-empty slot: <<label, content>>
EmitDump(k, p, i) ==
  CASE Typ(k, i) = "position" -> IF p[i] = 1 /\ "positions" \in opts THEN << <<"Position", <<M("P", i, 1)>> >> >> ELSE <<>>
    [] Typ(k, i) = "tkn"      -> IF p[i] = 1 /\ "tokens" \in opts THEN << <<Nam(k, i), <<M("T", i, 1)>> >> >> ELSE <<>>
    [] Typ(k, i) = "tknlist"  -> IF Holds(k, p, i) > 0 /\ "tokens" \in opts
                                 THEN << <<Nam(k, i), Items("T", i, Holds(k, p, i), 1)>> >> ELSE <<>>
    [] Typ(k, i) = "node"     -> IF p[i] = 1 THEN << <<Nam(k, i), <<M("N", i, 1)>> >> >> ELSE <<>>
    [] Typ(k, i) = "list"     -> IF p[i] > 0 THEN << <<Nam(k, i), Items("N", i, p[i], 1)>> >> ELSE <<>>
    [] Typ(k, i) = "value"    -> IF p[i] = 1 THEN << <<"Val", <<M("V", i, 1)>> >> >> ELSE <<>>   \* byte values are labelled Val

Emit(k, p, i) == CASE Mode = "traverse" -> EmitTraverse(k, p, i)
                   [] Mode = "print"    -> EmitPrint(k, p, i)
                   [] Mode = "dump"     -> EmitDump(k, p, i)

Step == /\ phase = "walk" /\ pc <= N(kind)
        /\ out' = out \o Emit(kind, pres, pc)
        /\ pc' = pc + 1
        /\ UNCHANGED <<kind, base, pres, dev, opts, phase>>

Finish == /\ phase = "walk" /\ pc > N(kind)
          /\ phase' = "done"
          /\ PrintT(ToJson([kind |-> kind, slots |-> [i \in 1 .. N(kind) |-> Holds(kind, pres, i)],
                            opts |-> opts, expect |-> out]))
          /\ UNCHANGED <<kind, base, pres, dev, opts, pc, out>>

\* the lexemes an absent token slot / absent separator may be replaced by (exported for the conformance check)
LexTable == [k \in RunKinds |-> [i \in 1 .. N(k) |->
                IF Typ(k, i) = "tkn" THEN Lexeme(k, Nam(k, i))
                ELSE IF Typ(k, i) = "list" THEN {DefaultSep(k)} ELSE {}]]

Next == Choose \/ StartWalk \/ Step \/ Finish
Spec == Init /\ [][Next]_vars

\* ---- design-level properties of the walk, checked by TLC on every instance ----

Done == phase = "done"
Idx(s) == {j \in 1 .. Len(out) : out[j] = s}
Once(s) == Cardinality(Idx(s)) = 1
Pos(s) == CHOOSE j \in 1 .. Len(out) : out[j] = s

PresentChildren == {<<i, kk>> \in (1 .. N(kind)) \X (1 .. MaxLen) :
                      /\ Typ(kind, i) \in {"node", "list"} /\ kk <= pres[i]}
PresentTokens == {<<i, kk>> \in (1 .. N(kind)) \X (1 .. MaxLen) :
                      \/ (Typ(kind, i) = "tkn" /\ kk = 1 /\ pres[i] = 1)
                      \/ (Typ(kind, i) = "tknlist" /\ kk <= Holds(kind, pres, i))}

\* C12: every present child exactly once, the parent first, schema (= source) order, nothing else
TraverseOK == (Done /\ Mode = "traverse") =>
   /\ out[1] = "self" /\ Once("self")
   /\ \A c \in PresentChildren : Once(M("N", c[1], c[2]))
   /\ Len(out) = 1 + Cardinality(PresentChildren)
   /\ \A c, d \in PresentChildren :
        (c[1] < d[1] \/ (c[1] = d[1] /\ c[2] < d[2])) => Pos(M("N", c[1], c[2])) < Pos(M("N", d[1], d[2]))

\* C15: every present token (its free-floating token right before it) and every child exactly once, in source order
PrintOK == (Done /\ Mode = "print") =>
   /\ \A c \in PresentChildren : Once(M("N", c[1], c[2]))
   /\ \A t \in PresentTokens : /\ Once(M("T", t[1], t[2])) /\ Once(M("F", t[1], t[2]))
                               /\ Pos(M("F", t[1], t[2])) + 1 = Pos(M("T", t[1], t[2]))
   /\ \A c \in PresentChildren, t \in PresentTokens :
        (Typ(kind, t[1]) = "tkn" /\ c[1] < t[1]) => Pos(M("N", c[1], c[2])) < Pos(M("T", t[1], t[2]))
   /\ \A t \in PresentTokens : Typ(kind, t[1]) = "tknlist" =>   \* k-th separator right after the k-th item
        Pos(M("N", t[1] - 1, t[2])) + 1 = Pos(M("F", t[1], t[2]))

\* C16: one entry per non-empty slot, under the slot's own label (Val for values), nothing else
DumpOK == (Done /\ Mode = "dump") =>
   /\ \A j, l \in 1 .. Len(out) : (j # l) => out[j][1] # out[l][1]
   /\ \A i \in 1 .. N(kind) :
        (Typ(kind, i) = "node" /\ pres[i] = 1) => \E j \in 1 .. Len(out) : out[j] = <<Nam(kind, i), <<M("N", i, 1)>> >>
   /\ ("tokens" \notin opts) => \A j \in 1 .. Len(out) : \A i \in 1 .. N(kind) :
        (out[j][1] = Nam(kind, i)) => Typ(kind, i) \notin {"tkn", "tknlist"}
   /\ ("positions" \notin opts) => \A j \in 1 .. Len(out) : out[j][1] # "Position"
=============================================================================
