------------------------------ MODULE Version ------------------------------
(* C09.  Versions are pairs <<major, minor>> over an abstract, totally ordered  *)
(* domain D (the harness maps D order-preservingly into uint64, including       *)
(* 2^32+5 and 2^64-1).  The supported set is written once (Supported); the two  *)
(* textual copies of the ranges in the code (version.go: Validate, parser.go:   *)
(* Parse) are modelled as two separate definitions and TLC checks that both     *)
(* coincide with Supported on all of D x D.  The state machine is a client that *)
(* picks a version v and a second version o and observes validation, dispatch   *)
(* and comparison.                                                              *)
EXTENDS Naturals, Integers, Sequences, TLC, Json

CONSTANTS D          \* e.g. 0 .. 12

V == D \X D
Supported == ({5} \X (0 .. 6)) \cup ({7} \X (0 .. 4))

Sgn(a, b) == IF a < b THEN -1 ELSE IF a > b THEN 1 ELSE 0
Cmp(a, b) == IF Sgn(a[1], b[1]) # 0 THEN Sgn(a[1], b[1]) ELSE Sgn(a[2], b[2])
InRange(v, s, e) == Cmp(v, s) >= 0 /\ Cmp(v, e) <= 0

\* pkg/version/version.go: Validate
ValidateOK(v) == InRange(v, <<5, 0>>, <<5, 6>>) \/ InRange(v, <<7, 0>>, <<7, 4>>)
\* pkg/parser/parser.go: Parse
Dispatch(v) == IF InRange(v, <<5, 0>>, <<5, 6>>) THEN "php5"
               ELSE IF InRange(v, <<7, 0>>, <<7, 4>>) THEN "php7" ELSE "range_error"
Default == <<7, 4>>                       \* an omitted version
Flex(v) == Cmp(v, <<7, 3>>) >= 0           \* the only version-dependent lexing rule
Class(v) == <<Dispatch(v), Flex(v)>>       \* versions of one class must behave identically

VARIABLES v, o
vars == <<v, o>>
Init == v \in V /\ o \in V
Next == \E w \in V : v' = o /\ o' = w        \* the client moves on to another pair
Spec == Init /\ [][Next]_vars

Exact      == (ValidateOK(v) <=> v \in Supported) /\ (Dispatch(v) # "range_error" <=> v \in Supported)
Family     == (Dispatch(v) = "php5" => v[1] = 5) /\ (Dispatch(v) = "php7" => v[1] = 7)
DefaultOK  == Default \in Supported /\ Dispatch(Default) = "php7" /\ Flex(Default)
AntiSym    == Cmp(v, o) = -Cmp(o, v)
EqIffSame  == (Cmp(v, o) = 0) <=> (v = o)
TotalOrder == \A w \in V : (Cmp(v, o) <= 0 /\ Cmp(o, w) <= 0) => Cmp(v, w) <= 0
ClassSound == (v \in Supported /\ o \in Supported /\ Class(v) = Class(o)) => (v[1] = o[1] /\ Flex(v) = Flex(o))

\* exported for the conformance harness
Table == [x \in V |-> [valid |-> ValidateOK(x), dispatch |-> Dispatch(x), flex |-> Flex(x)]]
ExportTable == PrintT(ToJson([table |-> [i \in 1 .. 1 |-> [x \in V |-> <<x[1], x[2], ValidateOK(x), Dispatch(x), Flex(x)>>]]]))

-----------------------------------------------------------------------------
(* Version strings: sequences over a small alphabet of symbol classes.  A string *)
(* is a version iff it is digits '.' digits; its value is numeric, so 7.10 > 7.9  *)
(* and 07.04 = 7.4.                                                              *)
CONSTANTS Alphabet, MaxLen

Digits == {"0", "1", "7", "9"}
DigitVal(c) == CASE c = "0" -> 0 [] c = "1" -> 1 [] c = "7" -> 7 [] c = "9" -> 9

RECURSIVE NumVal(_)
NumVal(s) == IF s = <<>> THEN 0 ELSE 10 * NumVal(SubSeq(s, 1, Len(s) - 1)) + DigitVal(s[Len(s)])

AllDigits(s) == s # <<>> /\ \A i \in 1 .. Len(s) : s[i] \in Digits
Dots(s) == {i \in 1 .. Len(s) : s[i] = "."}
IsVersion(s) == \E i \in Dots(s) : AllDigits(SubSeq(s, 1, i - 1)) /\ AllDigits(SubSeq(s, i + 1, Len(s)))
DotAt(s) == CHOOSE i \in Dots(s) : AllDigits(SubSeq(s, 1, i - 1)) /\ AllDigits(SubSeq(s, i + 1, Len(s)))
Value(s) == <<NumVal(SubSeq(s, 1, DotAt(s) - 1)), NumVal(SubSeq(s, DotAt(s) + 1, Len(s)))>>

Strings == UNION {[1 .. n -> Alphabet] : n \in 0 .. MaxLen}
ExportStrings == PrintT(ToJson([strings |-> {<<s, IsVersion(s), IF IsVersion(s) THEN Value(s) ELSE <<0, 0>> >> : s \in Strings}]))
=============================================================================
