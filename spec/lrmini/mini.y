%{
package mini
%}
%union{ n int }
%token X
%%
start: list ;
list: list stmt
    | /* empty */
    ;
stmt: error
    | X ';'
    | '{' ilist '}'
    ;
ilist: ilist istmt
    | /* empty */
    ;
istmt: error
    | X ';'
    | '{' ilist '}'
    ;
%%
