------------------------------ MODULE LRDriver ------------------------------
(* goyacc's table-driven parser loop (yyParse in internal/php5/php5.go and      *)
(* internal/php7/php7.go) with its error recovery, as a state machine.  The     *)
(* tables themselves (which state shifts what, which rule is reduced) are left  *)
(* open: every table-dependent choice is a parameter of an action, so that the  *)
(* machine describes the DRIVER for any grammar; LRTrace.tla binds the          *)
(* parameters to what the real driver did.  What C01, C06 and C07 need from     *)
(* the driver is stated as invariants:                                          *)
(*   - a parse never aborts and never recovers without having reported an       *)
(*     error (C06: malformed input is always reported);                         *)
(*   - Error() is called exactly when an error is detected while Errflag = 0,   *)
(*     and Errflag counts three shifted tokens down before the next report;     *)
(*   - recovery only pops states and discards look-ahead tokens: it never       *)
(*     pushes anything but the "error" state and never touches the input        *)
(*     behind the look-ahead (C07: only the broken statement is lost);          *)
(*   - every recovery step consumes: it pops a state, or discards a token, or   *)
(*     ends the parse (C01: no endless recovery).                               *)
(* One action per label / branch of yyParse:                                    *)
(*   Lex          yylex1 is asked for the look-ahead                            *)
(*   Shift        "valid shift": look-ahead consumed, Errflag counted down      *)
(*   Reduce/Goto  reduction by a rule of right-hand-side length n, then the     *)
(*                goto state is pushed (yystack)                                *)
(*   Accept       $end in the accepting state: return 0                         *)
(*   DetectNew    error with Errflag = 0: Error() is called, Nerrs++            *)
(*   DetectAgain  error with Errflag in {1, 2}: no report                       *)
(*   Pop          "error recovery pops state"                                   *)
(*   ErrShift     a state that shifts "error" was found: push it                *)
(*   AbortEmpty   the stack ran empty: return 1                                 *)
(*   Discard      error with Errflag = 3: the look-ahead is dropped             *)
(*   AbortEof     ... but $end cannot be dropped: return 1                      *)
EXTENDS Naturals, Sequences, FiniteSets

CONSTANTS States,     \* parser states
          Toks,       \* terminal names
          Eof,        \* the name of $end
          None,       \* "no look-ahead held"
          RhsLen,     \* set of right-hand-side lengths that occur
          MaxStack, MaxInput     \* bounds for model checking only

VARIABLES stack,      \* sequence of states (bottom first)
          la,         \* look-ahead token or None
          errflag,    \* 0 .. 3
          nerrs,      \* errors detected with errflag = 0
          reports,    \* calls of yylex.Error
          phase,      \* "run" | "goto" (a reduction popped its right-hand side) | "recover" (looking for an error-shifting state)
          status,     \* "parsing" | "accepted" | "aborted"
          lexed,      \* tokens obtained from the lexer
          consumed    \* tokens shifted or discarded

vars == <<stack, la, errflag, nerrs, reports, phase, status, lexed, consumed>>

Init == /\ stack \in {<<s>> : s \in States}      \* yystack pushes the start state first
        /\ la = None /\ errflag = 0 /\ nerrs = 0 /\ reports = 0
        /\ phase = "run" /\ status = "parsing" /\ lexed = 0 /\ consumed = 0

Running == status = "parsing"
Push(s) == stack' = Append(stack, s)
Top == stack[Len(stack)]

Lex(t) == /\ Running /\ phase = "run" /\ la = None
          /\ la' = t /\ lexed' = lexed + 1
          /\ UNCHANGED <<stack, errflag, nerrs, reports, phase, status, consumed>>

Shift(s) == /\ Running /\ phase = "run" /\ la # None
            /\ Push(s) /\ la' = None /\ consumed' = consumed + 1
            /\ errflag' = IF errflag > 0 THEN errflag - 1 ELSE 0
            /\ UNCHANGED <<nerrs, reports, phase, status, lexed>>

Reduce(n) == /\ Running /\ phase = "run" /\ n < Len(stack)            \* $0 (the state below the right-hand side) stays
             /\ stack' = SubSeq(stack, 1, Len(stack) - n)
             /\ phase' = "goto"
             /\ UNCHANGED <<la, errflag, nerrs, reports, status, lexed, consumed>>

Goto(s) == /\ Running /\ phase = "goto"
           /\ Push(s) /\ phase' = "run"
           /\ UNCHANGED <<la, errflag, nerrs, reports, status, lexed, consumed>>

Accept == /\ Running /\ phase = "run" /\ la = Eof
          /\ status' = "accepted"
          /\ UNCHANGED <<stack, la, errflag, nerrs, reports, phase, lexed, consumed>>

DetectNew == /\ Running /\ phase = "run" /\ errflag = 0
             /\ nerrs' = nerrs + 1 /\ reports' = reports + 1            \* yylex.Error(...) is called here and only here
             /\ errflag' = 3 /\ phase' = "recover"
             /\ UNCHANGED <<stack, la, status, lexed, consumed>>

DetectAgain == /\ Running /\ phase = "run" /\ errflag \in {1, 2}
               /\ errflag' = 3 /\ phase' = "recover"
               /\ UNCHANGED <<stack, la, nerrs, reports, status, lexed, consumed>>

Pop == /\ Running /\ phase = "recover" /\ stack # <<>>
       /\ stack' = SubSeq(stack, 1, Len(stack) - 1)
       /\ UNCHANGED <<la, errflag, nerrs, reports, phase, status, lexed, consumed>>

ErrShift(s) == /\ Running /\ phase = "recover" /\ stack # <<>>
               /\ Push(s) /\ phase' = "run"
               /\ UNCHANGED <<la, errflag, nerrs, reports, status, lexed, consumed>>

AbortEmpty == /\ Running /\ phase = "recover" /\ stack = <<>>
              /\ status' = "aborted"
              /\ UNCHANGED <<stack, la, errflag, nerrs, reports, phase, lexed, consumed>>

Discard == /\ Running /\ phase = "run" /\ errflag = 3 /\ la \notin {None, Eof}
           /\ la' = None /\ consumed' = consumed + 1
           /\ UNCHANGED <<stack, errflag, nerrs, reports, phase, status, lexed>>

AbortEof == /\ Running /\ phase = "run" /\ errflag = 3 /\ la = Eof
            /\ status' = "aborted"
            /\ UNCHANGED <<stack, la, errflag, nerrs, reports, phase, lexed, consumed>>

Next == \/ \E t \in Toks : Lex(t)
        \/ \E s \in States : Shift(s) \/ Goto(s) \/ ErrShift(s)
        \/ \E n \in RhsLen : Reduce(n)
        \/ Accept \/ DetectNew \/ DetectAgain \/ Pop \/ AbortEmpty \/ Discard \/ AbortEof

Spec == Init /\ [][Next]_vars

\* ------------------------------------------------------------------ what the properties rely on
TypeOK == /\ errflag \in 0 .. 3 /\ phase \in {"run", "goto", "recover"} /\ status \in {"parsing", "accepted", "aborted"}
          /\ la \in Toks \cup {None}

\* C06: no abort, no recovery, no suppressed report without a delivered one
ReportedBeforeAbort == status = "aborted" => reports >= 1
ReportedBeforeRecovery == (phase = "recover" \/ errflag > 0) => reports >= 1
ReportsAreDetections == reports = nerrs

\* a parse that reported nothing ended by accepting, with everything it lexed shifted (C06: a silent parse is complete)
SilentMeansShifted == (status = "accepted" /\ reports = 0) => consumed + (IF la = None THEN 0 ELSE 1) = lexed

\* the value stack is never empty outside recovery ($0 of a reduction always exists)
StackKept == phase \in {"run", "goto"} => Len(stack) >= 1

\* C07: only Shift and Discard take tokens; what was lexed but not yet consumed is exactly the look-ahead
InputAccounting == lexed = consumed + (IF la = None THEN 0 ELSE 1)

\* C01: recovery consumes - while recovering, the pair (stack depth, tokens left) decreases lexicographically
\* (action property: every Pop shortens the stack, every Discard consumes; there is no other step that stays in trouble)
RecoveryConsumes == [][(phase = "recover" /\ phase' = "recover" /\ status' = "parsing") => Len(stack') < Len(stack)]_vars
DiscardConsumes == [][(errflag = 3 /\ errflag' = 3 /\ phase = "run" /\ phase' = "run" /\ la # None /\ la' = None /\ stack' = stack)
                        => consumed' = consumed + 1]_vars
ErrflagCountsDown == [][(errflag' < errflag) => (errflag' = errflag - 1 /\ consumed' = consumed + 1 /\ Len(stack') = Len(stack) + 1)]_vars
=============================================================================
