----------------------------- MODULE PoolProof ------------------------------
(* Unbounded counterpart of the TLC runs on Pool.tla: for EVERY block size     *)
(* Size >= 1 and any number of requests, the block allocator of                *)
(* pkg/token/pool.go / pkg/position/pool.go never hands out a handle twice     *)
(* (C18: "for every positive block size and any number of requests").          *)
(* Checked by the TLA+ proof system (tlapm), not by TLC.  The state is the     *)
(* allocator's own (current block number, next free index) plus the set of     *)
(* handles handed out; Get is the code's                                        *)
(*   if len(block) == off { block = make(...); off = 0 }; off++; return &block[off-1]   *)
EXTENDS Naturals, TLAPS

CONSTANT Size
ASSUME SizePos == Size \in Nat /\ Size >= 1

VARIABLES blk, off, live, last
vars == <<blk, off, live, last>>

Init == blk = 1 /\ off = 0 /\ live = {} /\ last = <<0, 0>>

Get == LET roll == (off = Size)
           b == IF roll THEN blk + 1 ELSE blk
           o == IF roll THEN 0 ELSE off
       IN /\ blk' = b /\ off' = o + 1
          /\ last' = <<b, o>>
          /\ live' = live \cup {<<b, o>>}

Next == Get
Spec == Init /\ [][Next]_vars

\* handles strictly below the cursor
Below(b, o) == {h \in Nat \X Nat : h[1] < b \/ (h[1] = b /\ h[2] < o)}

IndInv == /\ blk \in Nat /\ blk >= 1
          /\ off \in Nat /\ off <= Size
          /\ live \subseteq Below(blk, off)

\* the handle returned by a Get was never returned before
FreshStep == [][last' \notin live]_vars

THEOREM InitInv == Init => IndInv
  <1> SUFFICES ASSUME Init PROVE IndInv OBVIOUS
  <1> QED BY SizePos DEF Init, IndInv, Below

THEOREM StepInv == IndInv /\ [Next]_vars => IndInv'
  <1> SUFFICES ASSUME IndInv, [Next]_vars PROVE IndInv' OBVIOUS
  <1>1. CASE Get
    <2>1. CASE off = Size
      BY <1>1, <2>1, SizePos DEF Get, IndInv, Below
    <2>2. CASE off # Size
      BY <1>1, <2>2, SizePos DEF Get, IndInv, Below
    <2> QED BY <2>1, <2>2
  <1>2. CASE UNCHANGED vars
    BY <1>2 DEF vars, IndInv, Below
  <1> QED BY <1>1, <1>2 DEF Next

THEOREM StepFresh == IndInv /\ Get => last' \notin live
  <1> SUFFICES ASSUME IndInv, Get PROVE last' \notin live OBVIOUS
  <1>1. CASE off = Size
    BY <1>1, SizePos DEF Get, IndInv, Below
  <1>2. CASE off # Size
    BY <1>2, SizePos DEF Get, IndInv, Below
  <1> QED BY <1>1, <1>2

THEOREM Invariant == Spec => []IndInv
  BY InitInv, StepInv, PTL DEF Spec
=============================================================================
