------------------------------- MODULE Syntax -------------------------------
(* Reference abstract-to-concrete syntax of PHP 5.6 / 7.4, organised by AST node  *)
(* kind (pkg/ast), NOT derived from the goyacc grammars.  A VARIANT of a node kind *)
(* is a total description of one concrete form of that kind: for each slot of the  *)
(* kind's NodeSchema that the form uses, a filler                                   *)
(*    Tk(lexeme class)            a token (keyword / punctuation literally, or a    *)
(*                                symbolic class such as VAR, IDENT, LNUM, SQSTR)   *)
(*    Ch(category, minLevel)      a child of a category with a minimal precedence   *)
(*    Ls(category, lo, hi, separator slot, separator lexeme, trailing?)  a list     *)
(*    Nd(kind, fill)              a fixed inline child                              *)
(*    Vl(slot)                    the byte value = text of the token in that slot   *)
(*    Sq(<<fillers>>)             a list consisting of exactly these children       *)
(* Slots not mentioned are absent.  Since slot order is source order, the yield of  *)
(* a variant is the in-order walk of its slots; C02, C03, C05, C08, C10 and C17     *)
(* all rest on this one table.  Expression variants carry a precedence level taken  *)
(* from PHP's documented operator table; children carry minimal levels computed     *)
(* from it (left-assoc: left >= L, right >= L+1; right-assoc mirrored; non-assoc    *)
(* both >= L+1; prefix: operand >= L), so every generated program has exactly one   *)
(* PHP-prescribed tree.                                                             *)
EXTENDS NodeSchema, Naturals, Sequences, FiniteSets, TLC

\* a pseudo kind: two sibling statements produced by one variant ("?>" followed by inline HTML)
SchemaX == [k \in DOMAIN Schema \cup {"SEQ"} |-> IF k = "SEQ" THEN << <<"A", "node">>, <<"B", "node">> >> ELSE Schema[k]]

Tk(x)       == [f |-> "tk", lex |-> x, glue |-> ""]
TkG(x, g)   == [f |-> "tk", lex |-> x, glue |-> g]      \* g: "L" no trivia before, "R" none after, "LR" neither, "W" only white space after
Ch(c, m)    == [f |-> "ch", cat |-> c, min |-> m]
Ls(c, lo, hi, sepslot, sep, trail) ==
               [f |-> "ls", cat |-> c, min |-> 0, lo |-> lo, hi |-> hi, seps |-> sepslot, sep |-> sep, trail |-> trail]
LsM(c, m, lo, hi, sepslot, sep, trail) ==
               [f |-> "ls", cat |-> c, min |-> m, lo |-> lo, hi |-> hi, seps |-> sepslot, sep |-> sep, trail |-> trail]
Nd(k, fill) == [f |-> "nd", kind |-> k, fill |-> fill]
Vl(s)       == [f |-> "vl", of |-> s]
Sq(items)   == [f |-> "sq", items |-> items, seps |-> "", sep |-> ""]   \* a list made of exactly these fillers (Nd / Ch), in this order
SqS(items, sepslot, sep) == [f |-> "sq", items |-> items, seps |-> sepslot, sep |-> sep]   \* ... with a separator between neighbours

\* PHP's operator precedence (lowest first), https://www.php.net/manual/en/language.operators.precedence.php (7.4)
L == [ lor |-> 1, lxor |-> 2, land |-> 3, print |-> 4, yield |-> 5, assign |-> 6, ternary |-> 7, coalesce |-> 8,
       bor |-> 9, band |-> 10, bitor |-> 11, bitxor |-> 12, bitand |-> 13, eq |-> 14, cmp |-> 15, shift |-> 16,
       add |-> 17, mul |-> 18, not |-> 19, instof |-> 20, unary |-> 21, pow |-> 22, clone |-> 23, incdec |-> 24, atom |-> 30 ]
\* (++ and -- take a VARIABLE, so an increment is complete wherever it stands: "--$a ** 2" is (--$a) ** 2 although ** binds tighter
\* than the unary operators; hence their own level above pow and clone)

\* fam: "both" | "7" (PHP 7-only syntax: PHP 5 must reject it) | "73" (needs the flexible heredoc rule of >= 7.3) | "pre73" (valid only BEFORE 7.3) | "7g" (accepted by both, but PHP 5 groups it
\* differently: uniform variable syntax) | "5" (PHP 5 only)
V(id, kind, cats, fam, lvl, leaf, fill) ==
   [id |-> id, kind |-> kind, cats |-> cats, fam |-> fam, lvl |-> lvl, leaf |-> leaf, fill |-> fill]

Ident(cls)  == Nd("Identifier", [IdentifierTkn |-> Tk(cls), Value |-> Vl("IdentifierTkn")])
SimpleVar   == Nd("ExprVariable", [Name |-> Ident("VAR")])
NamePartN   == Nd("NamePart", [StringTkn |-> Tk("IDENT"), Value |-> Vl("StringTkn")])
Args        == LsM("arg", 0, 0, 2, "SeparatorTkns", ",", "no")
\* parts of interpolated strings (no trivia inside a string body)
StrText     == Nd("ScalarEncapsedStringPart", [EncapsedStrTkn |-> TkG("STRPART", "LR"), Value |-> Vl("EncapsedStrTkn")])
StrVar      == Nd("ExprVariable", [Name |-> Nd("Identifier", [IdentifierTkn |-> TkG("VAR", "LR"), Value |-> Vl("IdentifierTkn")])])

\* ---------------------------------------------------------------- expressions

BinL(kind, op, l) == V(kind, kind, {"expr"}, "both", l, FALSE, [Left |-> Ch("expr", l),     OpTkn |-> Tk(op), Right |-> Ch("expr", l + 1)])
BinR(kind, op, l) == V(kind, kind, {"expr"}, "both", l, FALSE, [Left |-> Ch("expr", l + 1), OpTkn |-> Tk(op), Right |-> Ch("expr", l)])
BinN(kind, op, l) == V(kind, kind, {"expr"}, "both", l, FALSE, [Left |-> Ch("expr", l + 1), OpTkn |-> Tk(op), Right |-> Ch("expr", l + 1)])
Fam(v, fm) == [v EXCEPT !.fam = fm]
Id(v, i) == [v EXCEPT !.id = i]

Binaries == <<
  BinL("ExprBinaryLogicalOr", "or", L.lor), BinL("ExprBinaryLogicalXor", "xor", L.lxor), BinL("ExprBinaryLogicalAnd", "and", L.land),
  Fam(BinR("ExprBinaryCoalesce", "??", L.coalesce), "7"),
  BinL("ExprBinaryBooleanOr", "||", L.bor), BinL("ExprBinaryBooleanAnd", "&&", L.band),
  BinL("ExprBinaryBitwiseOr", "|", L.bitor), BinL("ExprBinaryBitwiseXor", "^", L.bitxor), BinL("ExprBinaryBitwiseAnd", "&", L.bitand),
  BinN("ExprBinaryEqual", "==", L.eq), BinN("ExprBinaryNotEqual", "!=", L.eq), Id(BinN("ExprBinaryNotEqual", "<>", L.eq), "ExprBinaryNotEqual/ltgt"),
  BinN("ExprBinaryIdentical", "===", L.eq), BinN("ExprBinaryNotIdentical", "!==", L.eq), Fam(BinN("ExprBinarySpaceship", "<=>", L.eq), "7"),
  BinN("ExprBinarySmaller", "<", L.cmp), BinN("ExprBinarySmallerOrEqual", "<=", L.cmp),
  BinN("ExprBinaryGreater", ">", L.cmp), BinN("ExprBinaryGreaterOrEqual", ">=", L.cmp),
  BinL("ExprBinaryShiftLeft", "<<", L.shift), BinL("ExprBinaryShiftRight", ">>", L.shift),
  BinL("ExprBinaryPlus", "+", L.add), BinL("ExprBinaryMinus", "-", L.add), BinL("ExprBinaryConcat", ".", L.add),
  BinL("ExprBinaryMul", "*", L.mul), BinL("ExprBinaryDiv", "/", L.mul), BinL("ExprBinaryMod", "%", L.mul),
  BinR("ExprBinaryPow", "**", L.pow) >>

Asg(kind, op) == V(kind, kind, {"expr"}, "both", L.assign, FALSE, [Var |-> Ch("var", 0), EqualTkn |-> Tk(op), Expr |-> Ch("expr", L.assign)])
Assigns == <<
  Asg("ExprAssign", "="), Asg("ExprAssignPlus", "+="), Asg("ExprAssignMinus", "-="), Asg("ExprAssignMul", "*="), Asg("ExprAssignDiv", "/="),
  Asg("ExprAssignConcat", ".="), Asg("ExprAssignMod", "%="), Asg("ExprAssignBitwiseAnd", "&="), Asg("ExprAssignBitwiseOr", "|="),
  Asg("ExprAssignBitwiseXor", "^="), Asg("ExprAssignShiftLeft", "<<="), Asg("ExprAssignShiftRight", ">>="), Asg("ExprAssignPow", "**="),
  Fam(Asg("ExprAssignCoalesce", "??="), "7"),
  V("ExprAssignReference", "ExprAssignReference", {"expr"}, "both", L.assign, FALSE,
    [Var |-> Ch("var", 0), EqualTkn |-> Tk("="), AmpersandTkn |-> Tk("&"), Expr |-> Ch("var", 0)]) >>

Cast(kind, cls) == V(kind, kind, {"expr"}, "both", L.unary, FALSE, [CastTkn |-> Tk(cls), Expr |-> Ch("expr", L.unary)])
Unaries == <<
  V("ExprBooleanNot", "ExprBooleanNot", {"expr"}, "both", L.not, FALSE, [ExclamationTkn |-> Tk("!"), Expr |-> Ch("expr", L.not)]),
  V("ExprBitwiseNot", "ExprBitwiseNot", {"expr"}, "both", L.unary, FALSE, [TildaTkn |-> Tk("~"), Expr |-> Ch("expr", L.unary)]),
  V("ExprUnaryMinus", "ExprUnaryMinus", {"expr"}, "both", L.unary, FALSE, [MinusTkn |-> Tk("-"), Expr |-> Ch("expr", L.unary)]),
  V("ExprUnaryPlus", "ExprUnaryPlus", {"expr"}, "both", L.unary, FALSE, [PlusTkn |-> Tk("+"), Expr |-> Ch("expr", L.unary)]),
  V("ExprErrorSuppress", "ExprErrorSuppress", {"expr"}, "both", L.unary, FALSE, [AtTkn |-> Tk("@"), Expr |-> Ch("expr", L.unary)]),
  Cast("ExprCastArray", "CAST:array"), Cast("ExprCastBool", "CAST:bool"), Cast("ExprCastDouble", "CAST:double"), Cast("ExprCastInt", "CAST:int"),
  Cast("ExprCastObject", "CAST:object"), Cast("ExprCastString", "CAST:string"), Cast("ExprCastUnset", "CAST:unset"),
  V("ExprPreInc", "ExprPreInc", {"expr"}, "both", L.incdec, FALSE, [IncTkn |-> Tk("++"), Var |-> Ch("var", 0)]),
  V("ExprPreDec", "ExprPreDec", {"expr"}, "both", L.incdec, FALSE, [DecTkn |-> Tk("--"), Var |-> Ch("var", 0)]),
  V("ExprPostInc", "ExprPostInc", {"expr"}, "both", L.incdec, FALSE, [Var |-> Ch("var", 0), IncTkn |-> Tk("++")]),
  V("ExprPostDec", "ExprPostDec", {"expr"}, "both", L.incdec, FALSE, [Var |-> Ch("var", 0), DecTkn |-> Tk("--")]),
  V("ExprClone", "ExprClone", {"expr"}, "both", L.clone, FALSE, [CloneTkn |-> Tk("clone"), Expr |-> Ch("expr", L.clone)]),
  \* include/require take everything to their right as operand ("include 'a' or die()" includes ('a' or die()))
  V("ExprPrint", "ExprPrint", {"expr"}, "both", L.print, FALSE, [PrintTkn |-> Tk("print"), Expr |-> Ch("expr", L.print)]),
  V("ExprInclude", "ExprInclude", {"expr"}, "both", 0, FALSE, [IncludeTkn |-> Tk("include"), Expr |-> Ch("expr", 0)]),
  V("ExprIncludeOnce", "ExprIncludeOnce", {"expr"}, "both", 0, FALSE, [IncludeOnceTkn |-> Tk("include_once"), Expr |-> Ch("expr", 0)]),
  V("ExprRequire", "ExprRequire", {"expr"}, "both", 0, FALSE, [RequireTkn |-> Tk("require"), Expr |-> Ch("expr", 0)]),
  V("ExprRequireOnce", "ExprRequireOnce", {"expr"}, "both", 0, FALSE, [RequireOnceTkn |-> Tk("require_once"), Expr |-> Ch("expr", 0)]),
  V("ExprTernary", "ExprTernary", {"expr"}, "both", L.ternary, FALSE,
    [Cond |-> Ch("expr", L.ternary), QuestionTkn |-> Tk("?"), IfTrue |-> Ch("expr", L.assign), ColonTkn |-> Tk(":"), IfFalse |-> Ch("expr", L.ternary + 1)]),
  V("ExprTernary/short", "ExprTernary", {"expr"}, "both", L.ternary, FALSE,
    [Cond |-> Ch("expr", L.ternary), QuestionTkn |-> TkG("?", "R"), ColonTkn |-> Tk(":"), IfFalse |-> Ch("expr", L.ternary + 1)]),
  V("ExprInstanceOf", "ExprInstanceOf", {"expr"}, "both", L.instof, FALSE,
    [Expr |-> Ch("expr", L.instof + 1), InstanceOfTkn |-> Tk("instanceof"), Class |-> Ch("classref", 0)]) >>

\* atoms: everything that needs no parentheses anywhere
Atoms == <<
  V("ExprVariable", "ExprVariable", {"expr", "var", "callee", "classref", "deref"}, "both", L.atom, TRUE, [Name |-> Ident("VAR")]),
  V("ScalarLnumber", "ScalarLnumber", {"expr", "scalar"}, "both", L.atom, TRUE, [NumberTkn |-> Tk("LNUM"), Value |-> Vl("NumberTkn")]),
  V("ScalarDnumber", "ScalarDnumber", {"expr", "scalar"}, "both", L.atom, TRUE, [NumberTkn |-> Tk("DNUM"), Value |-> Vl("NumberTkn")]),
  V("ScalarString", "ScalarString", {"expr", "scalar"}, "both", L.atom, TRUE, [StringTkn |-> Tk("SQSTR"), Value |-> Vl("StringTkn")]),
  V("ScalarString/dq", "ScalarString", {"expr", "scalar"}, "both", L.atom, TRUE, [StringTkn |-> Tk("DQSTR"), Value |-> Vl("StringTkn")]),
  V("ScalarMagicConstant", "ScalarMagicConstant", {"expr", "scalar"}, "both", L.atom, TRUE, [MagicConstTkn |-> Tk("MAGIC"), Value |-> Vl("MagicConstTkn")]),
  V("ExprConstFetch", "ExprConstFetch", {"expr", "scalar"}, "both", L.atom, TRUE, [Const |-> Ch("name", 0)]),
  V("ExprBrackets", "ExprBrackets", {"expr"}, "both", L.atom, FALSE,
    [OpenParenthesisTkn |-> Tk("("), Expr |-> Ch("expr", 0), CloseParenthesisTkn |-> Tk(")")]),
  V("ExprArrayDimFetch", "ExprArrayDimFetch", {"expr", "var", "deref", "callee"}, "both", L.atom, FALSE,
    [Var |-> Ch("deref", 0), OpenBracketTkn |-> Tk("["), Dim |-> Ch("expr", 0), CloseBracketTkn |-> Tk("]")]),
  V("ExprArrayDimFetch/empty", "ExprArrayDimFetch", {"var"}, "both", L.atom, FALSE,
    [Var |-> Ch("deref", 0), OpenBracketTkn |-> Tk("["), CloseBracketTkn |-> Tk("]")]),
  V("ExprPropertyFetch", "ExprPropertyFetch", {"expr", "var", "deref", "callee"}, "both", L.atom, FALSE,
    [Var |-> Ch("deref", 0), ObjectOperatorTkn |-> Tk("->"), Prop |-> Ident("IDENT")]),
  V("ExprMethodCall", "ExprMethodCall", {"expr", "deref"}, "both", L.atom, FALSE,
    [Var |-> Ch("deref", 0), ObjectOperatorTkn |-> Tk("->"), Method |-> Ident("IDENT"), OpenParenthesisTkn |-> Tk("("), Args |-> Args, CloseParenthesisTkn |-> Tk(")")]),
  V("ExprFunctionCall", "ExprFunctionCall", {"expr", "deref"}, "both", L.atom, FALSE,
    [Function |-> Ch("name", 0), OpenParenthesisTkn |-> Tk("("), Args |-> Args, CloseParenthesisTkn |-> Tk(")")]),
  V("ExprFunctionCall/var", "ExprFunctionCall", {"expr", "deref"}, "both", L.atom, FALSE,
    [Function |-> SimpleVar, OpenParenthesisTkn |-> Tk("("), Args |-> Args, CloseParenthesisTkn |-> Tk(")")]),
  V("ExprStaticCall", "ExprStaticCall", {"expr", "deref"}, "both", L.atom, FALSE,
    [Class |-> Ch("name", 0), DoubleColonTkn |-> Tk("::"), Call |-> Ident("IDENT"), OpenParenthesisTkn |-> Tk("("), Args |-> Args, CloseParenthesisTkn |-> Tk(")")]),
  V("ExprStaticPropertyFetch", "ExprStaticPropertyFetch", {"expr", "var"}, "both", L.atom, FALSE,
    [Class |-> Ch("name", 0), DoubleColonTkn |-> Tk("::"), Prop |-> SimpleVar]),
  \* A::$b[0]: PHP 7 (uniform variable syntax) groups (A::$b)[0]; PHP 5's grammar attaches the dimension to $b
  V("ExprStaticPropertyFetch/base", "ExprStaticPropertyFetch", {"deref"}, "7g", L.atom, FALSE,
    [Class |-> Ch("name", 0), DoubleColonTkn |-> Tk("::"), Prop |-> SimpleVar]),
  V("ExprClassConstFetch", "ExprClassConstFetch", {"expr", "scalar"}, "both", L.atom, FALSE,
    [Class |-> Ch("name", 0), DoubleColonTkn |-> Tk("::"), Const |-> Ident("IDENT")]),
  V("ExprNew", "ExprNew", {"expr"}, "both", L.atom, FALSE,
    [NewTkn |-> Tk("new"), Class |-> Ch("classref", 0), OpenParenthesisTkn |-> Tk("("), Args |-> Args, CloseParenthesisTkn |-> Tk(")")]),
  V("ExprNew/noargs", "ExprNew", {"expr"}, "both", L.atom, FALSE, [NewTkn |-> Tk("new"), Class |-> Ch("classref", 0)]),
  V("ExprArray", "ExprArray", {"expr"}, "both", L.atom, TRUE,
    [ArrayTkn |-> Tk("array"), OpenBracketTkn |-> Tk("("), Items |-> Ls("arrayitem", 0, 2, "SeparatorTkns", ",", "no"), CloseBracketTkn |-> Tk(")")]),
  V("ExprArray/short", "ExprArray", {"expr", "litderef"}, "both", L.atom, TRUE,
    [OpenBracketTkn |-> Tk("["), Items |-> Ls("arrayitem", 0, 2, "SeparatorTkns", ",", "no"), CloseBracketTkn |-> Tk("]")]),
  \* arrays in constant-expression contexts (defaults, static initialisers): PHP 5 restricts them to static scalars
  V("ExprArray/static", "ExprArray", {"scalar"}, "both", L.atom, TRUE,
    [ArrayTkn |-> Tk("array"), OpenBracketTkn |-> Tk("("), Items |-> Ls("staticitem", 0, 2, "SeparatorTkns", ",", "no"), CloseBracketTkn |-> Tk(")")]),
  V("ExprArray/staticshort", "ExprArray", {"scalar"}, "both", L.atom, TRUE,
    [OpenBracketTkn |-> Tk("["), Items |-> Ls("staticitem", 0, 2, "SeparatorTkns", ",", "no"), CloseBracketTkn |-> Tk("]")]),
  V("ExprArrayItem/static", "ExprArrayItem", {"staticitem"}, "both", 0, FALSE, [Val |-> Ch("scalar", 0)]),
  V("ExprArrayItem/statickey", "ExprArrayItem", {"staticitem"}, "both", 0, FALSE, [Key |-> Ch("scalar", 0), DoubleArrowTkn |-> Tk("=>"), Val |-> Ch("scalar", 0)]),
  \* dereferencing a literal: an expression, not a variable ([1,2][0], "abc"[0])
  V("ExprArrayDimFetch/lit", "ExprArrayDimFetch", {"expr"}, "both", L.atom, FALSE,
    [Var |-> Ch("litderef", 0), OpenBracketTkn |-> Tk("["), Dim |-> Ch("expr", 0), CloseBracketTkn |-> Tk("]")]),
  V("ScalarString/litderef", "ScalarString", {"litderef"}, "both", L.atom, TRUE, [StringTkn |-> Tk("SQSTR"), Value |-> Vl("StringTkn")]),
  V("ExprIsset", "ExprIsset", {"expr"}, "both", L.atom, FALSE,
    [IssetTkn |-> Tk("isset"), OpenParenthesisTkn |-> Tk("("), Vars |-> LsM("var", 0, 1, 2, "SeparatorTkns", ",", "no"), CloseParenthesisTkn |-> Tk(")")]),
  V("ExprEmpty", "ExprEmpty", {"expr"}, "both", L.atom, FALSE,
    [EmptyTkn |-> Tk("empty"), OpenParenthesisTkn |-> Tk("("), Expr |-> Ch("expr", 0), CloseParenthesisTkn |-> Tk(")")]),
  V("ExprEval", "ExprEval", {"expr"}, "both", L.atom, FALSE,
    [EvalTkn |-> Tk("eval"), OpenParenthesisTkn |-> Tk("("), Expr |-> Ch("expr", 0), CloseParenthesisTkn |-> Tk(")")]),
  V("ExprExit", "ExprExit", {"expr"}, "both", L.atom, TRUE, [ExitTkn |-> Tk("EXIT")]),
  V("ExprExit/parens", "ExprExit", {"expr"}, "both", L.atom, TRUE, [ExitTkn |-> Tk("EXIT"), OpenParenthesisTkn |-> Tk("("), CloseParenthesisTkn |-> Tk(")")]),
  V("ExprExit/expr", "ExprExit", {"expr"}, "both", L.atom, FALSE,
    [ExitTkn |-> Tk("EXIT"), OpenParenthesisTkn |-> Tk("("), Expr |-> Ch("expr", 0), CloseParenthesisTkn |-> Tk(")")]),
  V("ExprClosure", "ExprClosure", {"expr"}, "both", L.atom, TRUE,
    [FunctionTkn |-> Tk("function"), OpenParenthesisTkn |-> Tk("("), Params |-> Ls("param", 0, 2, "SeparatorTkns", ",", "no"), CloseParenthesisTkn |-> Tk(")"),
     OpenCurlyBracketTkn |-> Tk("{"), Stmts |-> Ls("inner", 0, 2, "", "", "no"), CloseCurlyBracketTkn |-> Tk("}")]),
  V("ExprClosure/use", "ExprClosure", {"expr"}, "both", L.atom, FALSE,
    [StaticTkn |-> Tk("static"), FunctionTkn |-> Tk("function"), AmpersandTkn |-> Tk("&"), OpenParenthesisTkn |-> Tk("("),
     Params |-> Ls("param", 0, 1, "SeparatorTkns", ",", "no"), CloseParenthesisTkn |-> Tk(")"),
     UseTkn |-> Tk("use"), UseOpenParenthesisTkn |-> Tk("("), Uses |-> Ls("closureuse", 1, 2, "UseSeparatorTkns", ",", "no"), UseCloseParenthesisTkn |-> Tk(")"),
     OpenCurlyBracketTkn |-> Tk("{"), Stmts |-> Ls("inner", 0, 1, "", "", "no"), CloseCurlyBracketTkn |-> Tk("}")]),
  V("ExprShellExec", "ExprShellExec", {"expr"}, "both", L.atom, TRUE, [OpenBacktickTkn |-> TkG("`", "R"), CloseBacktickTkn |-> TkG("`", "L")]),
  V("ExprShellExec/text", "ExprShellExec", {"expr"}, "both", L.atom, TRUE,
    [OpenBacktickTkn |-> TkG("`", "R"), Parts |-> Sq(<<StrText>>), CloseBacktickTkn |-> TkG("`", "L")]),
  V("ExprShellExec/var", "ExprShellExec", {"expr"}, "both", L.atom, TRUE,
    [OpenBacktickTkn |-> TkG("`", "R"), Parts |-> Sq(<<StrText, StrVar, StrText>>), CloseBacktickTkn |-> TkG("`", "L")]),
  V("ScalarEncapsed/var", "ScalarEncapsed", {"expr"}, "both", L.atom, TRUE,
    [OpenQuoteTkn |-> TkG("\"", "R"), Parts |-> Sq(<<StrVar>>), CloseQuoteTkn |-> TkG("\"", "L")]),
  V("ScalarEncapsed/textvar", "ScalarEncapsed", {"expr"}, "both", L.atom, TRUE,
    [OpenQuoteTkn |-> TkG("\"", "R"), Parts |-> Sq(<<StrText, StrVar>>), CloseQuoteTkn |-> TkG("\"", "L")]),
  V("ScalarEncapsed/vartextvar", "ScalarEncapsed", {"expr"}, "both", L.atom, TRUE,
    [OpenQuoteTkn |-> TkG("\"", "R"), Parts |-> Sq(<<StrVar, StrText, StrVar, StrVar>>), CloseQuoteTkn |-> TkG("\"", "L")]),
  V("ScalarEncapsed/brackets", "ScalarEncapsed", {"expr"}, "both", L.atom, FALSE,
    [OpenQuoteTkn |-> TkG("\"", "R"), Parts |-> Sq(<<StrText, Ch("strbrackets", 0), StrText>>), CloseQuoteTkn |-> TkG("\"", "L")]),
  V("ScalarEncapsed/brackets2", "ScalarEncapsed", {"expr"}, "both", L.atom, FALSE,
    [OpenQuoteTkn |-> TkG("\"", "R"), Parts |-> Sq(<<Ch("strbrackets", 0), StrVar>>), CloseQuoteTkn |-> TkG("\"", "L")]) >>

Others == <<
  V("Argument", "Argument", {"arg"}, "both", 0, FALSE, [Expr |-> Ch("expr", 0)]),
  V("Argument/variadic", "Argument", {"arg"}, "both", 0, FALSE, [VariadicTkn |-> Tk("..."), Expr |-> Ch("expr", 0)]),
  V("ExprArrayItem", "ExprArrayItem", {"arrayitem"}, "both", 0, FALSE, [Val |-> Ch("expr", L.yield)]),
  V("ExprArrayItem/key", "ExprArrayItem", {"arrayitem"}, "both", 0, FALSE, [Key |-> Ch("expr", L.yield), DoubleArrowTkn |-> Tk("=>"), Val |-> Ch("expr", L.yield)]),
  V("ExprArrayItem/ref", "ExprArrayItem", {"arrayitem"}, "both", 0, FALSE, [AmpersandTkn |-> Tk("&"), Val |-> Ch("var", 0)]),
  V("ExprArrayItem/keyref", "ExprArrayItem", {"arrayitem"}, "both", 0, FALSE,
    [Key |-> Ch("expr", L.yield), DoubleArrowTkn |-> Tk("=>"), AmpersandTkn |-> Tk("&"), Val |-> Ch("var", 0)]),
  V("ExprClosureUse", "ExprClosureUse", {"closureuse"}, "both", 0, TRUE, [Var |-> SimpleVar]),
  V("ExprClosureUse/ref", "ExprClosureUse", {"closureuse"}, "both", 0, TRUE, [AmpersandTkn |-> Tk("&"), Var |-> SimpleVar]),
  V("Parameter", "Parameter", {"param"}, "both", 0, TRUE, [Var |-> SimpleVar]),
  V("Parameter/typed", "Parameter", {"param"}, "both", 0, FALSE, [Type |-> Ch("type", 0), Var |-> SimpleVar]),
  V("Parameter/ref", "Parameter", {"param"}, "both", 0, TRUE, [AmpersandTkn |-> Tk("&"), Var |-> SimpleVar]),
  V("Parameter/variadic", "Parameter", {"param"}, "both", 0, TRUE, [VariadicTkn |-> Tk("..."), Var |-> SimpleVar]),
  V("Parameter/refvariadic", "Parameter", {"param"}, "both", 0, TRUE, [AmpersandTkn |-> Tk("&"), VariadicTkn |-> Tk("..."), Var |-> SimpleVar]),
  V("Parameter/default", "Parameter", {"param"}, "both", 0, FALSE, [Var |-> SimpleVar, EqualTkn |-> Tk("="), DefaultValue |-> Ch("scalar", 0)]),
  V("Parameter/full", "Parameter", {"param"}, "both", 0, FALSE,
    [Type |-> Ch("type", 0), AmpersandTkn |-> Tk("&"), Var |-> SimpleVar, EqualTkn |-> Tk("="), DefaultValue |-> Ch("scalar", 0)]),
  V("Name", "Name", {"name", "classref", "type"}, "both", 0, TRUE, [Parts |-> Ls("namepart", 1, 2, "SeparatorTkns", "\\", "no")]),
  V("NameFullyQualified", "NameFullyQualified", {"name", "classref", "type"}, "both", 0, TRUE,
    [NsSeparatorTkn |-> TkG("\\", "R"), Parts |-> Ls("namepart", 1, 2, "SeparatorTkns", "\\", "no")]),
  V("NameRelative", "NameRelative", {"name", "classref", "type"}, "both", 0, TRUE,
    [NsTkn |-> TkG("namespace", "R"), NsSeparatorTkn |-> TkG("\\", "R"), Parts |-> Ls("namepart", 1, 2, "SeparatorTkns", "\\", "no")]),
  V("NamePart", "NamePart", {"namepart"}, "both", 0, TRUE, [StringTkn |-> Tk("IDENT"), Value |-> Vl("StringTkn")]),
  V("Identifier/arraytype", "Identifier", {"type"}, "both", 0, TRUE, [IdentifierTkn |-> Tk("array"), Value |-> Vl("IdentifierTkn")]),
  V("Identifier/callabletype", "Identifier", {"type"}, "both", 0, TRUE, [IdentifierTkn |-> Tk("callable"), Value |-> Vl("IdentifierTkn")]),
  V("Identifier/static", "Identifier", {"classref"}, "both", 0, TRUE, [IdentifierTkn |-> Tk("static"), Value |-> Vl("IdentifierTkn")]),
  V("Nullable", "Nullable", {"type"}, "7", 0, FALSE, [QuestionTkn |-> Tk("?"), Expr |-> Ch("name", 0)]),
  \* "{$var ...}" inside an interpolated string
  V("ScalarEncapsedStringBrackets", "ScalarEncapsedStringBrackets", {"strbrackets"}, "both", 0, FALSE,
    [OpenCurlyBracketTkn |-> TkG("{", "LR"), Var |-> Ch("var", 0), CloseCurlyBracketTkn |-> TkG("}", "R")])
>>

\* ---------------------------------------------------------------- statements

Block == Nd("StmtStmtList", [OpenCurlyBracketTkn |-> Tk("{"), Stmts |-> Ls("inner", 0, 2, "", "", "no"), CloseCurlyBracketTkn |-> Tk("}")])
Bare  == Nd("StmtStmtList", [Stmts |-> Ls("inner", 0, 2, "", "", "no")])
\* a body that is followed by elseif / else of the enclosing alternative-syntax if must not end in an open "if"
BareClosed == Nd("StmtStmtList", [Stmts |-> Ls("closed", 0, 2, "", "", "no")])

Statements == <<
  V("StmtExpression", "StmtExpression", {"stmt", "closed"}, "both", 0, FALSE, [Expr |-> Ch("expr", 0), SemiColonTkn |-> Tk(";")]),
  V("StmtEcho", "StmtEcho", {"stmt", "closed"}, "both", 0, FALSE,
    [EchoTkn |-> Tk("echo"), Exprs |-> LsM("expr", L.yield, 1, 2, "SeparatorTkns", ",", "no"), SemiColonTkn |-> Tk(";")]),
  V("StmtNop", "StmtNop", {"stmt", "closed"}, "both", 0, TRUE, [SemiColonTkn |-> Tk(";")]),
  V("StmtStmtList", "StmtStmtList", {"stmt", "closed"}, "both", 0, TRUE,
    [OpenCurlyBracketTkn |-> Tk("{"), Stmts |-> Ls("inner", 0, 2, "", "", "no"), CloseCurlyBracketTkn |-> Tk("}")]),
  V("StmtReturn", "StmtReturn", {"stmt", "closed"}, "both", 0, TRUE, [ReturnTkn |-> Tk("return"), SemiColonTkn |-> Tk(";")]),
  V("StmtReturn/expr", "StmtReturn", {"stmt", "closed"}, "both", 0, FALSE, [ReturnTkn |-> Tk("return"), Expr |-> Ch("expr", 0), SemiColonTkn |-> Tk(";")]),
  V("StmtBreak", "StmtBreak", {"stmt", "closed"}, "both", 0, TRUE, [BreakTkn |-> Tk("break"), SemiColonTkn |-> Tk(";")]),
  V("StmtBreak/expr", "StmtBreak", {"stmt", "closed"}, "both", 0, TRUE,
    [BreakTkn |-> Tk("break"), Expr |-> Nd("ScalarLnumber", [NumberTkn |-> Tk("LNUM"), Value |-> Vl("NumberTkn")]), SemiColonTkn |-> Tk(";")]),
  V("StmtContinue", "StmtContinue", {"stmt", "closed"}, "both", 0, TRUE, [ContinueTkn |-> Tk("continue"), SemiColonTkn |-> Tk(";")]),
  V("StmtThrow", "StmtThrow", {"stmt", "closed"}, "both", 0, FALSE, [ThrowTkn |-> Tk("throw"), Expr |-> Ch("expr", 0), SemiColonTkn |-> Tk(";")]),
  V("StmtGlobal", "StmtGlobal", {"stmt", "closed"}, "both", 0, TRUE,
    [GlobalTkn |-> Tk("global"), Vars |-> Ls("simplevar", 1, 2, "SeparatorTkns", ",", "no"), SemiColonTkn |-> Tk(";")]),
  V("simplevar", "ExprVariable", {"simplevar"}, "both", 0, TRUE, [Name |-> Ident("VAR")]),
  V("StmtStatic", "StmtStatic", {"stmt", "closed"}, "both", 0, TRUE,
    [StaticTkn |-> Tk("static"), Vars |-> Ls("staticvar", 1, 2, "SeparatorTkns", ",", "no"), SemiColonTkn |-> Tk(";")]),
  V("StmtStaticVar", "StmtStaticVar", {"staticvar"}, "both", 0, TRUE, [Var |-> SimpleVar]),
  V("StmtStaticVar/init", "StmtStaticVar", {"staticvar"}, "both", 0, FALSE, [Var |-> SimpleVar, EqualTkn |-> Tk("="), Expr |-> Ch("scalar", 0)]),
  V("StmtUnset", "StmtUnset", {"stmt", "closed"}, "both", 0, FALSE,
    [UnsetTkn |-> Tk("unset"), OpenParenthesisTkn |-> Tk("("), Vars |-> LsM("var", 0, 1, 2, "SeparatorTkns", ",", "no"), CloseParenthesisTkn |-> Tk(")"), SemiColonTkn |-> Tk(";")]),
  V("StmtGoto", "StmtGoto", {"stmt", "closed"}, "both", 0, TRUE, [GotoTkn |-> Tk("goto"), Label |-> Ident("IDENT"), SemiColonTkn |-> Tk(";")]),
  V("StmtLabel", "StmtLabel", {"stmt", "closed"}, "both", 0, TRUE, [Name |-> Ident("IDENT"), ColonTkn |-> Tk(":")]),
  V("StmtIf", "StmtIf", {"stmt"}, "both", 0, FALSE,
    [IfTkn |-> Tk("if"), OpenParenthesisTkn |-> Tk("("), Cond |-> Ch("expr", 0), CloseParenthesisTkn |-> Tk(")"), Stmt |-> Ch("stmt", 0)]),
  V("StmtIf/else", "StmtIf", {"stmt", "closed"}, "both", 0, FALSE,
    [IfTkn |-> Tk("if"), OpenParenthesisTkn |-> Tk("("), Cond |-> Ch("expr", 0), CloseParenthesisTkn |-> Tk(")"), Stmt |-> Ch("closed", 0),
     ElseIf |-> Ls("elseif", 0, 2, "", "", "no"), Else |-> Ch("else", 0)]),
  V("StmtIf/elseif", "StmtIf", {"stmt"}, "both", 0, FALSE,
    [IfTkn |-> Tk("if"), OpenParenthesisTkn |-> Tk("("), Cond |-> Ch("expr", 0), CloseParenthesisTkn |-> Tk(")"), Stmt |-> Ch("closed", 0),
     ElseIf |-> Ls("elseif_last", 1, 1, "", "", "no")]),
  V("StmtElseIf", "StmtElseIf", {"elseif"}, "both", 0, FALSE,
    [ElseIfTkn |-> Tk("elseif"), OpenParenthesisTkn |-> Tk("("), Cond |-> Ch("expr", 0), CloseParenthesisTkn |-> Tk(")"), Stmt |-> Ch("closed", 0)]),
  V("StmtElseIf/last", "StmtElseIf", {"elseif_last"}, "both", 0, FALSE,
    [ElseIfTkn |-> Tk("elseif"), OpenParenthesisTkn |-> Tk("("), Cond |-> Ch("expr", 0), CloseParenthesisTkn |-> Tk(")"), Stmt |-> Ch("stmt", 0)]),
  V("StmtElse", "StmtElse", {"else"}, "both", 0, FALSE, [ElseTkn |-> Tk("else"), Stmt |-> Ch("closed", 0)]),
  V("StmtIf/alt", "StmtIf", {"stmt", "closed"}, "both", 0, FALSE,
    [IfTkn |-> Tk("if"), OpenParenthesisTkn |-> Tk("("), Cond |-> Ch("expr", 0), CloseParenthesisTkn |-> Tk(")"), ColonTkn |-> Tk(":"), Stmt |-> BareClosed,
     ElseIf |-> Ls("elseif_alt", 0, 2, "", "", "no"), Else |-> Ch("else_alt", 0), EndIfTkn |-> Tk("endif"), SemiColonTkn |-> Tk(";")]),
  V("StmtIf/alt_noelse", "StmtIf", {"stmt", "closed"}, "both", 0, TRUE,
    [IfTkn |-> Tk("if"), OpenParenthesisTkn |-> Tk("("), Cond |-> SimpleVar, CloseParenthesisTkn |-> Tk(")"), ColonTkn |-> Tk(":"), Stmt |-> Bare,
     EndIfTkn |-> Tk("endif"), SemiColonTkn |-> Tk(";")]),
  V("StmtElseIf/alt", "StmtElseIf", {"elseif_alt"}, "both", 0, FALSE,
    [ElseIfTkn |-> Tk("elseif"), OpenParenthesisTkn |-> Tk("("), Cond |-> Ch("expr", 0), CloseParenthesisTkn |-> Tk(")"), ColonTkn |-> Tk(":"), Stmt |-> BareClosed]),
  V("StmtElse/alt", "StmtElse", {"else_alt"}, "both", 0, TRUE, [ElseTkn |-> Tk("else"), ColonTkn |-> Tk(":"), Stmt |-> Bare]),
  V("StmtWhile", "StmtWhile", {"stmt"}, "both", 0, FALSE,
    [WhileTkn |-> Tk("while"), OpenParenthesisTkn |-> Tk("("), Cond |-> Ch("expr", 0), CloseParenthesisTkn |-> Tk(")"), Stmt |-> Ch("stmt", 0)]),
  V("StmtWhile/alt", "StmtWhile", {"stmt", "closed"}, "both", 0, FALSE,
    [WhileTkn |-> Tk("while"), OpenParenthesisTkn |-> Tk("("), Cond |-> Ch("expr", 0), CloseParenthesisTkn |-> Tk(")"), ColonTkn |-> Tk(":"), Stmt |-> Bare,
     EndWhileTkn |-> Tk("endwhile"), SemiColonTkn |-> Tk(";")]),
  V("StmtDo", "StmtDo", {"stmt", "closed"}, "both", 0, FALSE,
    [DoTkn |-> Tk("do"), Stmt |-> Ch("closed", 0), WhileTkn |-> Tk("while"), OpenParenthesisTkn |-> Tk("("), Cond |-> Ch("expr", 0), CloseParenthesisTkn |-> Tk(")"), SemiColonTkn |-> Tk(";")]),
  V("StmtFor", "StmtFor", {"stmt"}, "both", 0, FALSE,
    [ForTkn |-> Tk("for"), OpenParenthesisTkn |-> Tk("("), Init |-> LsM("expr", L.yield, 0, 2, "InitSeparatorTkns", ",", "no"), InitSemiColonTkn |-> Tk(";"),
     Cond |-> LsM("expr", L.yield, 0, 2, "CondSeparatorTkns", ",", "no"), CondSemiColonTkn |-> Tk(";"),
     Loop |-> LsM("expr", L.yield, 0, 2, "LoopSeparatorTkns", ",", "no"), CloseParenthesisTkn |-> Tk(")"), Stmt |-> Ch("stmt", 0)]),
  V("StmtFor/alt", "StmtFor", {"stmt", "closed"}, "both", 0, TRUE,
    [ForTkn |-> Tk("for"), OpenParenthesisTkn |-> Tk("("), InitSemiColonTkn |-> Tk(";"), CondSemiColonTkn |-> Tk(";"), CloseParenthesisTkn |-> Tk(")"),
     ColonTkn |-> Tk(":"), Stmt |-> Bare, EndForTkn |-> Tk("endfor"), SemiColonTkn |-> Tk(";")]),
  V("StmtForeach", "StmtForeach", {"stmt"}, "both", 0, FALSE,
    [ForeachTkn |-> Tk("foreach"), OpenParenthesisTkn |-> Tk("("), Expr |-> Ch("expr", L.yield), AsTkn |-> Tk("as"), Var |-> Ch("var", 0),
     CloseParenthesisTkn |-> Tk(")"), Stmt |-> Ch("stmt", 0)]),
  V("StmtForeach/key", "StmtForeach", {"stmt"}, "both", 0, FALSE,
    [ForeachTkn |-> Tk("foreach"), OpenParenthesisTkn |-> Tk("("), Expr |-> Ch("expr", L.yield), AsTkn |-> Tk("as"), Key |-> Ch("var", 0), DoubleArrowTkn |-> Tk("=>"),
     AmpersandTkn |-> Tk("&"), Var |-> Ch("var", 0), CloseParenthesisTkn |-> Tk(")"), Stmt |-> Ch("stmt", 0)]),
  V("StmtForeach/alt", "StmtForeach", {"stmt", "closed"}, "both", 0, FALSE,
    [ForeachTkn |-> Tk("foreach"), OpenParenthesisTkn |-> Tk("("), Expr |-> Ch("expr", L.yield), AsTkn |-> Tk("as"), Var |-> Ch("var", 0),
     CloseParenthesisTkn |-> Tk(")"), ColonTkn |-> Tk(":"), Stmt |-> Bare, EndForeachTkn |-> Tk("endforeach"), SemiColonTkn |-> Tk(";")]),
  V("StmtSwitch", "StmtSwitch", {"stmt", "closed"}, "both", 0, FALSE,
    [SwitchTkn |-> Tk("switch"), OpenParenthesisTkn |-> Tk("("), Cond |-> Ch("expr", 0), CloseParenthesisTkn |-> Tk(")"),
     OpenCurlyBracketTkn |-> Tk("{"), Cases |-> Ls("case", 0, 3, "", "", "no"), CloseCurlyBracketTkn |-> Tk("}")]),
  V("StmtSwitch/alt", "StmtSwitch", {"stmt", "closed"}, "both", 0, FALSE,
    [SwitchTkn |-> Tk("switch"), OpenParenthesisTkn |-> Tk("("), Cond |-> Ch("expr", 0), CloseParenthesisTkn |-> Tk(")"),
     ColonTkn |-> Tk(":"), Cases |-> Ls("case", 0, 2, "", "", "no"), EndSwitchTkn |-> Tk("endswitch"), SemiColonTkn |-> Tk(";")]),
  V("StmtSwitch/leadsemi", "StmtSwitch", {"stmt", "closed"}, "both", 0, FALSE,
    [SwitchTkn |-> Tk("switch"), OpenParenthesisTkn |-> Tk("("), Cond |-> Ch("expr", 0), CloseParenthesisTkn |-> Tk(")"),
     OpenCurlyBracketTkn |-> Tk("{"), CaseSeparatorTkn |-> Tk(";"), Cases |-> Ls("case", 0, 2, "", "", "no"), CloseCurlyBracketTkn |-> Tk("}")]),
  V("StmtCase", "StmtCase", {"case"}, "both", 0, FALSE,
    [CaseTkn |-> Tk("case"), Cond |-> Ch("expr", 0), CaseSeparatorTkn |-> Tk(":"), Stmts |-> Ls("inner", 0, 2, "", "", "no")]),
  V("StmtCase/semi", "StmtCase", {"case"}, "both", 0, FALSE,
    [CaseTkn |-> Tk("case"), Cond |-> Ch("scalar", 0), CaseSeparatorTkn |-> Tk(";"), Stmts |-> Ls("inner", 0, 1, "", "", "no")]),
  V("StmtDefault", "StmtDefault", {"case"}, "both", 0, TRUE, [DefaultTkn |-> Tk("default"), CaseSeparatorTkn |-> Tk(":"), Stmts |-> Ls("inner", 0, 2, "", "", "no")]),
  V("StmtTry", "StmtTry", {"stmt", "closed"}, "both", 0, FALSE,
    [TryTkn |-> Tk("try"), OpenCurlyBracketTkn |-> Tk("{"), Stmts |-> Ls("inner", 0, 2, "", "", "no"), CloseCurlyBracketTkn |-> Tk("}"),
     Catches |-> Ls("catch", 1, 2, "", "", "no")]),
  V("StmtTry/finally", "StmtTry", {"stmt", "closed"}, "both", 0, FALSE,
    [TryTkn |-> Tk("try"), OpenCurlyBracketTkn |-> Tk("{"), Stmts |-> Ls("inner", 0, 1, "", "", "no"), CloseCurlyBracketTkn |-> Tk("}"),
     Catches |-> Ls("catch", 0, 1, "", "", "no"), Finally |-> Ch("finally", 0)]),
  V("StmtCatch", "StmtCatch", {"catch"}, "both", 0, TRUE,
    [CatchTkn |-> Tk("catch"), OpenParenthesisTkn |-> Tk("("), Types |-> Ls("name", 1, 1, "SeparatorTkns", "|", "no"), Var |-> SimpleVar, CloseParenthesisTkn |-> Tk(")"),
     OpenCurlyBracketTkn |-> Tk("{"), Stmts |-> Ls("inner", 0, 2, "", "", "no"), CloseCurlyBracketTkn |-> Tk("}")]),
  V("StmtCatch/multi", "StmtCatch", {"catch"}, "7", 0, TRUE,
    [CatchTkn |-> Tk("catch"), OpenParenthesisTkn |-> Tk("("), Types |-> Ls("name", 2, 3, "SeparatorTkns", "|", "no"), Var |-> SimpleVar, CloseParenthesisTkn |-> Tk(")"),
     OpenCurlyBracketTkn |-> Tk("{"), Stmts |-> Ls("inner", 0, 1, "", "", "no"), CloseCurlyBracketTkn |-> Tk("}")]),
  V("StmtFinally", "StmtFinally", {"finally"}, "both", 0, TRUE,
    [FinallyTkn |-> Tk("finally"), OpenCurlyBracketTkn |-> Tk("{"), Stmts |-> Ls("inner", 0, 2, "", "", "no"), CloseCurlyBracketTkn |-> Tk("}")]),
  V("StmtFunction", "StmtFunction", {"inner"}, "both", 0, TRUE,
    [FunctionTkn |-> Tk("function"), Name |-> Ident("IDENT"), OpenParenthesisTkn |-> Tk("("), Params |-> Ls("param", 0, 2, "SeparatorTkns", ",", "no"),
     CloseParenthesisTkn |-> Tk(")"), OpenCurlyBracketTkn |-> Tk("{"), Stmts |-> Ls("inner", 0, 2, "", "", "no"), CloseCurlyBracketTkn |-> Tk("}")]),
  V("StmtFunction/ref", "StmtFunction", {"inner"}, "both", 0, TRUE,
    [FunctionTkn |-> Tk("function"), AmpersandTkn |-> Tk("&"), Name |-> Ident("IDENT"), OpenParenthesisTkn |-> Tk("("), Params |-> Ls("param", 0, 1, "SeparatorTkns", ",", "no"),
     CloseParenthesisTkn |-> Tk(")"), OpenCurlyBracketTkn |-> Tk("{"), Stmts |-> Ls("inner", 0, 1, "", "", "no"), CloseCurlyBracketTkn |-> Tk("}")]),
  V("StmtFunction/rettype", "StmtFunction", {"inner"}, "7", 0, FALSE,
    [FunctionTkn |-> Tk("function"), Name |-> Ident("IDENT"), OpenParenthesisTkn |-> Tk("("), Params |-> Ls("param", 0, 1, "SeparatorTkns", ",", "no"),
     CloseParenthesisTkn |-> Tk(")"), ColonTkn |-> Tk(":"), ReturnType |-> Ch("type", 0),
     OpenCurlyBracketTkn |-> Tk("{"), Stmts |-> Ls("inner", 0, 1, "", "", "no"), CloseCurlyBracketTkn |-> Tk("}")])
>>


\* ---------------------------------------------------------------- more expressions and variables

Mod(kw) == Nd("Identifier", [IdentifierTkn |-> Tk(kw), Value |-> Vl("IdentifierTkn")])

More == <<
  V("ExprYield", "ExprYield", {"expr"}, "7g", L.yield, TRUE, [YieldTkn |-> Tk("yield")]),
  V("ExprYield/val", "ExprYield", {"expr"}, "7g", L.yield, FALSE, [YieldTkn |-> Tk("yield"), Val |-> Ch("expr", L.ternary)]),
  V("ExprYield/key", "ExprYield", {"expr"}, "7g", L.yield, FALSE,
    [YieldTkn |-> Tk("yield"), Key |-> Ch("expr", L.ternary), DoubleArrowTkn |-> Tk("=>"), Val |-> Ch("expr", L.ternary)]),
  \* (PHP 5.5/5.6 accept yield as an operand only in some contexts: marked "7g", not "7")
  \* PHP 5.5/5.6 accept yield only as a statement, as the right side of an assignment or in parentheses
  V("StmtExpression/yield", "StmtExpression", {"stmt", "closed"}, "both", 0, FALSE,
    [Expr |-> Nd("ExprYield", [YieldTkn |-> Tk("yield"), Val |-> Ch("expr", L.ternary)]), SemiColonTkn |-> Tk(";")]),
  V("StmtExpression/yieldkey", "StmtExpression", {"stmt", "closed"}, "both", 0, FALSE,
    [Expr |-> Nd("ExprYield", [YieldTkn |-> Tk("yield"), Key |-> Ch("expr", L.ternary), DoubleArrowTkn |-> Tk("=>"), Val |-> Ch("expr", L.ternary)]), SemiColonTkn |-> Tk(";")]),
  V("StmtExpression/yieldassign", "StmtExpression", {"stmt", "closed"}, "7g", 0, FALSE,     \* PHP 5 needs parentheses here
    [Expr |-> Nd("ExprAssign", [Var |-> Ch("var", 0), EqualTkn |-> Tk("="), Expr |-> Nd("ExprYield", [YieldTkn |-> Tk("yield"), Val |-> Ch("expr", L.ternary)])]), SemiColonTkn |-> Tk(";")]),
  V("ExprYieldFrom", "ExprYieldFrom", {"expr"}, "7", L.yield, FALSE, [YieldFromTkn |-> Tk("yield from"), Expr |-> Ch("expr", L.ternary)]),
  V("ExprArrowFunction", "ExprArrowFunction", {"expr"}, "7", 0, FALSE,
    [FnTkn |-> Tk("fn"), OpenParenthesisTkn |-> Tk("("), Params |-> Ls("param", 0, 2, "SeparatorTkns", ",", "no"), CloseParenthesisTkn |-> Tk(")"),
     DoubleArrowTkn |-> Tk("=>"), Expr |-> Ch("expr", L.assign)]),
  V("ExprArrowFunction/full", "ExprArrowFunction", {"expr"}, "7", 0, FALSE,
    [StaticTkn |-> Tk("static"), FnTkn |-> Tk("fn"), AmpersandTkn |-> Tk("&"), OpenParenthesisTkn |-> Tk("("), Params |-> Ls("param", 0, 1, "SeparatorTkns", ",", "no"),
     CloseParenthesisTkn |-> Tk(")"), ColonTkn |-> Tk(":"), ReturnType |-> Ch("type", 0), DoubleArrowTkn |-> Tk("=>"), Expr |-> Ch("expr", L.assign)]),
  V("ExprClosure/rettype", "ExprClosure", {"expr"}, "7", L.atom, FALSE,
    [FunctionTkn |-> Tk("function"), OpenParenthesisTkn |-> Tk("("), Params |-> Ls("param", 0, 1, "SeparatorTkns", ",", "no"), CloseParenthesisTkn |-> Tk(")"),
     ColonTkn |-> Tk(":"), ReturnType |-> Ch("type", 0), OpenCurlyBracketTkn |-> Tk("{"), Stmts |-> Ls("inner", 0, 1, "", "", "no"), CloseCurlyBracketTkn |-> Tk("}")]),
  \* variable variables and dynamic member names
  V("ExprVariable/varvar", "ExprVariable", {"expr", "var"}, "both", L.atom, TRUE, [DollarTkn |-> TkG("$", "R"), Name |-> SimpleVar]),
  V("ExprVariable/curly", "ExprVariable", {"expr", "var"}, "both", L.atom, FALSE,
    [DollarTkn |-> TkG("$", "R"), OpenCurlyBracketTkn |-> Tk("{"), Name |-> Ch("expr", 0), CloseCurlyBracketTkn |-> Tk("}")]),
  V("ExprPropertyFetch/var", "ExprPropertyFetch", {"expr", "var"}, "both", L.atom, FALSE,
    [Var |-> Ch("deref", 0), ObjectOperatorTkn |-> Tk("->"), Prop |-> SimpleVar]),
  V("ExprPropertyFetch/curly", "ExprPropertyFetch", {"expr", "var", "deref"}, "both", L.atom, FALSE,
    [Var |-> Ch("deref", 0), ObjectOperatorTkn |-> Tk("->"), OpenCurlyBracketTkn |-> Tk("{"), Prop |-> Ch("expr", 0), CloseCurlyBracketTkn |-> Tk("}")]),
  V("ExprMethodCall/var", "ExprMethodCall", {"expr", "deref"}, "both", L.atom, FALSE,
    [Var |-> Ch("deref", 0), ObjectOperatorTkn |-> Tk("->"), Method |-> SimpleVar, OpenParenthesisTkn |-> Tk("("), Args |-> Args, CloseParenthesisTkn |-> Tk(")")]),
  V("ExprStaticCall/static", "ExprStaticCall", {"expr", "deref"}, "both", L.atom, FALSE,
    [Class |-> Mod("static"), DoubleColonTkn |-> Tk("::"), Call |-> Ident("IDENT"), OpenParenthesisTkn |-> Tk("("), Args |-> Args, CloseParenthesisTkn |-> Tk(")")]),
  V("ExprStaticCall/varclass", "ExprStaticCall", {"expr", "deref"}, "both", L.atom, FALSE,
    [Class |-> SimpleVar, DoubleColonTkn |-> Tk("::"), Call |-> Ident("IDENT"), OpenParenthesisTkn |-> Tk("("), Args |-> Args, CloseParenthesisTkn |-> Tk(")")]),
  V("ExprStaticPropertyFetch/varclass", "ExprStaticPropertyFetch", {"expr", "var"}, "both", L.atom, FALSE,
    [Class |-> SimpleVar, DoubleColonTkn |-> Tk("::"), Prop |-> SimpleVar]),
  V("ExprClassConstFetch/class", "ExprClassConstFetch", {"expr", "scalar"}, "both", L.atom, FALSE,
    [Class |-> Ch("name", 0), DoubleColonTkn |-> Tk("::"), Const |-> Mod("class")]),
  V("ExprClassConstFetch/static", "ExprClassConstFetch", {"expr"}, "both", L.atom, TRUE,
    [Class |-> Mod("static"), DoubleColonTkn |-> Tk("::"), Const |-> Ident("IDENT")]),
  \* list() / [] destructuring
  V("ExprAssign/list", "ExprAssign", {"expr"}, "both", L.assign, FALSE, [Var |-> Ch("listexpr", 0), EqualTkn |-> Tk("="), Expr |-> Ch("expr", L.assign)]),
  V("ExprList", "ExprList", {"listexpr"}, "both", 0, FALSE,
    [ListTkn |-> Tk("list"), OpenBracketTkn |-> Tk("("), Items |-> Ls("listitem", 1, 3, "SeparatorTkns", ",", "no"), CloseBracketTkn |-> Tk(")")]),
  V("ExprList/skip", "ExprList", {"listexpr"}, "both", 0, FALSE,
    [ListTkn |-> Tk("list"), OpenBracketTkn |-> Tk("("),
     Items |-> SqS(<<Ch("listitem", 0), Nd("ExprArrayItem", [f |-> "empty"]), Ch("listitem", 0)>>, "SeparatorTkns", ","), CloseBracketTkn |-> Tk(")")]),
  V("ExprList/short", "ExprList", {"listexpr"}, "7", 0, FALSE,
    [OpenBracketTkn |-> Tk("["), Items |-> Ls("listitem7", 1, 3, "SeparatorTkns", ",", "no"), CloseBracketTkn |-> Tk("]")]),
  V("listitem", "ExprArrayItem", {"listitem", "listitem7"}, "both", 0, FALSE, [Val |-> Ch("var", 0)]),
  V("listitem/nested", "ExprArrayItem", {"listitem"}, "both", 0, FALSE,
    [Val |-> Nd("ExprList", [ListTkn |-> Tk("list"), OpenBracketTkn |-> Tk("("), Items |-> Ls("listitem", 1, 2, "SeparatorTkns", ",", "no"), CloseBracketTkn |-> Tk(")")])]),
  V("listitem/keyed", "ExprArrayItem", {"listitem7"}, "7", 0, FALSE, [Key |-> Ch("scalar", 0), DoubleArrowTkn |-> Tk("=>"), Val |-> Ch("var", 0)]),
  V("StmtForeach/list", "StmtForeach", {"stmt"}, "both", 0, FALSE,
    [ForeachTkn |-> Tk("foreach"), OpenParenthesisTkn |-> Tk("("), Expr |-> Ch("expr", L.yield), AsTkn |-> Tk("as"), Var |-> Ch("listexpr", 0),
     CloseParenthesisTkn |-> Tk(")"), Stmt |-> Ch("stmt", 0)]),
  \* anonymous classes
  V("ExprNew/anon", "ExprNew", {"expr"}, "7", L.atom, FALSE,
    [NewTkn |-> Tk("new"), Class |-> Nd("StmtClass",
       [ClassTkn |-> Tk("class"), OpenParenthesisTkn |-> Tk("("), Args |-> Args, CloseParenthesisTkn |-> Tk(")"), ExtendsTkn |-> Tk("extends"), Extends |-> Ch("name", 0),
        OpenCurlyBracketTkn |-> Tk("{"), Stmts |-> Ls("member", 0, 2, "", "", "no"), CloseCurlyBracketTkn |-> Tk("}")])]),
  V("ExprNew/anon_plain", "ExprNew", {"expr"}, "7", L.atom, TRUE,
    [NewTkn |-> Tk("new"), Class |-> Nd("StmtClass",
       [ClassTkn |-> Tk("class"), OpenCurlyBracketTkn |-> Tk("{"), Stmts |-> Ls("member", 0, 1, "", "", "no"), CloseCurlyBracketTkn |-> Tk("}")])])
>>

\* ---------------------------------------------------------------- heredoc / nowdoc, inline HTML

HdText == Nd("ScalarEncapsedStringPart", [EncapsedStrTkn |-> TkG("HDTEXT", "LR"), Value |-> Vl("EncapsedStrTkn")])
NdText == Nd("ScalarEncapsedStringPart", [EncapsedStrTkn |-> TkG("NDTEXT", "LR"), Value |-> Vl("EncapsedStrTkn")])
HdTextLabelLine == Nd("ScalarEncapsedStringPart", [EncapsedStrTkn |-> TkG("HDTEXT_LABELLINE", "LR"), Value |-> Vl("EncapsedStrTkn")])
HdTextIndent == Nd("ScalarEncapsedStringPart", [EncapsedStrTkn |-> TkG("HDTEXT_INDENT", "LR"), Value |-> Vl("EncapsedStrTkn")])
Heredoc(start, parts) == Nd("ScalarHeredoc", [OpenHeredocTkn |-> TkG(start, "R"), Parts |-> Sq(parts), CloseHeredocTkn |-> TkG("HEREDOC_END", "LR")])
HeredocEmpty(start) == Nd("ScalarHeredoc", [OpenHeredocTkn |-> TkG(start, "R"), CloseHeredocTkn |-> TkG("HEREDOC_END", "LR")])
\* before 7.3 the closing label must be followed by ';' or a newline, and ';' by a newline: glue "N" = a newline comes first in the next gap
EchoHd(id, fam, h) == V(id, "StmtEcho", {"stmt", "closed"}, fam, 0, TRUE, [EchoTkn |-> Tk("echo"), Exprs |-> Sq(<<h>>), SemiColonTkn |-> TkG(";", "LN")])

Heredocs == <<
  EchoHd("heredoc/text", "both", Heredoc("HEREDOC_START", <<HdText>>)),
  EchoHd("heredoc/quoted", "both", Heredoc("HEREDOC_START_DQ", <<HdText>>)),
  EchoHd("heredoc/var", "both", Heredoc("HEREDOC_START", <<HdText, StrVar, HdText>>)),
  EchoHd("heredoc/varfirst", "both", Heredoc("HEREDOC_START", <<StrVar, HdText>>)),
  EchoHd("heredoc/empty", "both", HeredocEmpty("HEREDOC_START")),
  EchoHd("nowdoc/text", "both", Heredoc("NOWDOC_START", <<NdText>>)),
  EchoHd("nowdoc/empty", "both", HeredocEmpty("NOWDOC_START")),
  \* inside "{$ ... }" the scanner is in PHP mode: a line that starts with the heredoc's own label there (a constant named like
  \* the label, after a line break) does not end the body
  EchoHd("heredoc/labelinside", "both",
         Heredoc("HEREDOC_START", <<HdText,
            Nd("ScalarEncapsedStringBrackets",
               [OpenCurlyBracketTkn |-> TkG("{", "LR"),
                Var |-> Nd("ExprArrayDimFetch",
                   [Var |-> Nd("ExprVariable", [Name |-> Nd("Identifier", [IdentifierTkn |-> TkG("VAR", "L"), Value |-> Vl("IdentifierTkn")])]),
                    OpenBracketTkn |-> Tk("["),
                    Dim |-> Nd("ExprConstFetch", [Const |-> Nd("Name", [Parts |-> Sq(<<Nd("NamePart", [StringTkn |-> Tk("HDLABEL_NAME"), Value |-> Vl("StringTkn")])>>)])]),
                    CloseBracketTkn |-> Tk("]")]),
                CloseCurlyBracketTkn |-> TkG("}", "R")]),
            HdText>>)),
  \* the other side of the 7.3 change: a body line that begins with the label followed by more text is body text before 7.3
  \* (valid, one string part) and ends the heredoc from 7.3 on (the rest of the line is then a syntax error)
  EchoHd("heredoc/labelline", "pre73", Heredoc("HEREDOC_START", <<HdTextLabelLine>>)),
  \* flexible heredoc (>= 7.3): indented closing label (the indentation stays in the last text part), heredoc inside an argument list
  EchoHd("heredoc/indented", "73", Heredoc("HEREDOC_START", <<HdTextIndent>>)),
  V("heredoc/arg", "ExprFunctionCall", {"expr"}, "73", L.atom, TRUE,
    [Function |-> Nd("Name", [Parts |-> Sq(<<NamePartN>>)]), OpenParenthesisTkn |-> Tk("("),
     Args |-> SqS(<<Nd("Argument", [Expr |-> Heredoc("HEREDOC_START", <<HdText>>)]), Nd("Argument", [Expr |-> SimpleVar])>>, "SeparatorTkns", ","),
     CloseParenthesisTkn |-> Tk(")")]),
  \* __halt_compiler ( ) ; ends the program: everything after the ';' is raw data (glue "P": the payload follows), kept as the
  \* T_HALT_COMPILER free-floating token of the root's end token.  PHP allows white space and comments between its four tokens.
  V("stmt+halt", "SEQ", {"toplast"}, "both", 0, FALSE,
    [A |-> Ch("stmt", 0),
     B |-> Nd("StmtHaltCompiler", [HaltCompilerTkn |-> Tk("__halt_compiler"), OpenParenthesisTkn |-> Tk("("), CloseParenthesisTkn |-> Tk(")"),
                                   SemiColonTkn |-> TkG(";", "P")])]),
  \* "?>" ends a statement; inline HTML is a statement of its own; the next PHP token needs a new open tag (glue "O")
  V("closetag+html", "SEQ", {"inner"}, "both", 0, TRUE,
    [A |-> Nd("StmtNop", [SemiColonTkn |-> TkG("?>", "R")]), B |-> Nd("StmtInlineHtml", [InlineHtmlTkn |-> TkG("HTML", "LO"), Value |-> Vl("InlineHtmlTkn")])]),
  V("echo+closetag+html", "SEQ", {"inner"}, "both", 0, FALSE,
    [A |-> Nd("StmtEcho", [EchoTkn |-> Tk("echo"), Exprs |-> LsM("expr", L.yield, 1, 2, "SeparatorTkns", ",", "no"), SemiColonTkn |-> TkG("?>", "R")]),
     B |-> Nd("StmtInlineHtml", [InlineHtmlTkn |-> TkG("HTML", "LO"), Value |-> Vl("InlineHtmlTkn")])])
>>

\* ---------------------------------------------------------------- declarations

ConstDecl == Ls("constdecl", 1, 2, "SeparatorTkns", ",", "no")
MethodBody == Nd("StmtStmtList", [OpenCurlyBracketTkn |-> Tk("{"), Stmts |-> Ls("inner", 0, 2, "", "", "no"), CloseCurlyBracketTkn |-> Tk("}")])

Decls == <<
  V("StmtClass", "StmtClass", {"inner"}, "both", 0, TRUE,
    [ClassTkn |-> Tk("class"), Name |-> Ident("IDENT"), OpenCurlyBracketTkn |-> Tk("{"), Stmts |-> Ls("member", 0, 3, "", "", "no"), CloseCurlyBracketTkn |-> Tk("}")]),
  V("StmtClass/full", "StmtClass", {"inner"}, "both", 0, FALSE,
    [Modifiers |-> Ls("classmod", 1, 1, "", "", "no"), ClassTkn |-> Tk("class"), Name |-> Ident("IDENT"), ExtendsTkn |-> Tk("extends"), Extends |-> Ch("name", 0),
     ImplementsTkn |-> Tk("implements"), Implements |-> Ls("name", 1, 2, "ImplementsSeparatorTkns", ",", "no"),
     OpenCurlyBracketTkn |-> Tk("{"), Stmts |-> Ls("member", 0, 2, "", "", "no"), CloseCurlyBracketTkn |-> Tk("}")]),
  V("StmtClass/extends", "StmtClass", {"inner"}, "both", 0, FALSE,
    [ClassTkn |-> Tk("class"), Name |-> Ident("IDENT"), ExtendsTkn |-> Tk("extends"), Extends |-> Ch("name", 0),
     OpenCurlyBracketTkn |-> Tk("{"), Stmts |-> Ls("member", 0, 1, "", "", "no"), CloseCurlyBracketTkn |-> Tk("}")]),
  V("classmod/abstract", "Identifier", {"classmod"}, "both", 0, TRUE, [IdentifierTkn |-> Tk("abstract"), Value |-> Vl("IdentifierTkn")]),
  V("classmod/final", "Identifier", {"classmod"}, "both", 0, TRUE, [IdentifierTkn |-> Tk("final"), Value |-> Vl("IdentifierTkn")]),
  V("StmtInterface", "StmtInterface", {"inner"}, "both", 0, TRUE,
    [InterfaceTkn |-> Tk("interface"), Name |-> Ident("IDENT"), OpenCurlyBracketTkn |-> Tk("{"), Stmts |-> Ls("imember", 0, 2, "", "", "no"), CloseCurlyBracketTkn |-> Tk("}")]),
  V("StmtInterface/extends", "StmtInterface", {"inner"}, "both", 0, FALSE,
    [InterfaceTkn |-> Tk("interface"), Name |-> Ident("IDENT"), ExtendsTkn |-> Tk("extends"), Extends |-> Ls("name", 1, 2, "ExtendsSeparatorTkns", ",", "no"),
     OpenCurlyBracketTkn |-> Tk("{"), Stmts |-> Ls("imember", 0, 1, "", "", "no"), CloseCurlyBracketTkn |-> Tk("}")]),
  V("StmtTrait", "StmtTrait", {"inner"}, "both", 0, TRUE,
    [TraitTkn |-> Tk("trait"), Name |-> Ident("IDENT"), OpenCurlyBracketTkn |-> Tk("{"), Stmts |-> Ls("member", 0, 2, "", "", "no"), CloseCurlyBracketTkn |-> Tk("}")]),
  \* members
  V("vis/public", "Identifier", {"vis", "mmod"}, "both", 0, TRUE, [IdentifierTkn |-> Tk("public"), Value |-> Vl("IdentifierTkn")]),
  V("vis/protected", "Identifier", {"vis", "mmod"}, "both", 0, TRUE, [IdentifierTkn |-> Tk("protected"), Value |-> Vl("IdentifierTkn")]),
  V("vis/private", "Identifier", {"vis", "mmod"}, "both", 0, TRUE, [IdentifierTkn |-> Tk("private"), Value |-> Vl("IdentifierTkn")]),
  V("mmod/static", "Identifier", {"mmod"}, "both", 0, TRUE, [IdentifierTkn |-> Tk("static"), Value |-> Vl("IdentifierTkn")]),
  V("mmod/final", "Identifier", {"mmod"}, "both", 0, TRUE, [IdentifierTkn |-> Tk("final"), Value |-> Vl("IdentifierTkn")]),
  V("StmtClassConstList", "StmtClassConstList", {"member", "imember"}, "both", 0, FALSE, [ConstTkn |-> Tk("const"), Consts |-> ConstDecl, SemiColonTkn |-> Tk(";")]),
  V("StmtClassConstList/vis", "StmtClassConstList", {"member"}, "7", 0, FALSE,
    [Modifiers |-> Ls("vis", 1, 1, "", "", "no"), ConstTkn |-> Tk("const"), Consts |-> ConstDecl, SemiColonTkn |-> Tk(";")]),
  V("StmtConstant", "StmtConstant", {"constdecl"}, "both", 0, FALSE, [Name |-> Ident("IDENT"), EqualTkn |-> Tk("="), Expr |-> Ch("scalar", 0)]),
  V("StmtPropertyList", "StmtPropertyList", {"member"}, "both", 0, TRUE,
    [Modifiers |-> Ls("vis", 1, 1, "", "", "no"), Props |-> Ls("prop", 1, 2, "SeparatorTkns", ",", "no"), SemiColonTkn |-> Tk(";")]),
  V("StmtPropertyList/static", "StmtPropertyList", {"member"}, "both", 0, TRUE,
    [Modifiers |-> SqS(<<Mod("public"), Mod("static")>>, "", ""), Props |-> Ls("prop", 1, 1, "SeparatorTkns", ",", "no"), SemiColonTkn |-> Tk(";")]),
  V("StmtPropertyList/var", "StmtPropertyList", {"member"}, "both", 0, TRUE,
    [Modifiers |-> SqS(<<Mod("var")>>, "", ""), Props |-> Ls("prop", 1, 2, "SeparatorTkns", ",", "no"), SemiColonTkn |-> Tk(";")]),
  V("StmtPropertyList/typed", "StmtPropertyList", {"member"}, "7", 0, FALSE,
    [Modifiers |-> Ls("vis", 1, 1, "", "", "no"), Type |-> Ch("type", 0), Props |-> Ls("prop", 1, 1, "SeparatorTkns", ",", "no"), SemiColonTkn |-> Tk(";")]),
  V("StmtProperty", "StmtProperty", {"prop"}, "both", 0, TRUE, [Var |-> SimpleVar]),
  V("StmtProperty/init", "StmtProperty", {"prop"}, "both", 0, FALSE, [Var |-> SimpleVar, EqualTkn |-> Tk("="), Expr |-> Ch("scalar", 0)]),
  V("StmtClassMethod", "StmtClassMethod", {"member"}, "both", 0, TRUE,
    [FunctionTkn |-> Tk("function"), Name |-> Ident("IDENT"), OpenParenthesisTkn |-> Tk("("), Params |-> Ls("param", 0, 2, "SeparatorTkns", ",", "no"),
     CloseParenthesisTkn |-> Tk(")"), Stmt |-> MethodBody]),
  V("StmtClassMethod/mods", "StmtClassMethod", {"member"}, "both", 0, TRUE,
    [Modifiers |-> Ls("mmod", 1, 2, "", "", "no"), FunctionTkn |-> Tk("function"), AmpersandTkn |-> Tk("&"), Name |-> Ident("IDENT"), OpenParenthesisTkn |-> Tk("("),
     Params |-> Ls("param", 0, 1, "SeparatorTkns", ",", "no"), CloseParenthesisTkn |-> Tk(")"), Stmt |-> MethodBody]),
  V("StmtClassMethod/abstract", "StmtClassMethod", {"member"}, "both", 0, TRUE,
    [Modifiers |-> SqS(<<Mod("abstract"), Mod("protected")>>, "", ""), FunctionTkn |-> Tk("function"), Name |-> Ident("IDENT"), OpenParenthesisTkn |-> Tk("("),
     Params |-> Ls("param", 0, 1, "SeparatorTkns", ",", "no"), CloseParenthesisTkn |-> Tk(")"), Stmt |-> Nd("StmtNop", [SemiColonTkn |-> Tk(";")])]),
  V("StmtClassMethod/iface", "StmtClassMethod", {"imember"}, "both", 0, TRUE,
    [Modifiers |-> SqS(<<Mod("public")>>, "", ""), FunctionTkn |-> Tk("function"), Name |-> Ident("IDENT"), OpenParenthesisTkn |-> Tk("("),
     Params |-> Ls("param", 0, 2, "SeparatorTkns", ",", "no"), CloseParenthesisTkn |-> Tk(")"), Stmt |-> Nd("StmtNop", [SemiColonTkn |-> Tk(";")])]),
  V("StmtClassMethod/rettype", "StmtClassMethod", {"member"}, "7", 0, FALSE,
    [Modifiers |-> Ls("vis", 1, 1, "", "", "no"), FunctionTkn |-> Tk("function"), Name |-> Ident("IDENT"), OpenParenthesisTkn |-> Tk("("),
     Params |-> Ls("param", 0, 1, "SeparatorTkns", ",", "no"), CloseParenthesisTkn |-> Tk(")"), ColonTkn |-> Tk(":"), ReturnType |-> Ch("type", 0), Stmt |-> MethodBody]),
  V("StmtTraitUse", "StmtTraitUse", {"member"}, "both", 0, TRUE,
    [UseTkn |-> Tk("use"), Traits |-> Ls("name", 1, 2, "SeparatorTkns", ",", "no"), SemiColonTkn |-> Tk(";")]),
  V("StmtTraitUse/adapt", "StmtTraitUse", {"member"}, "both", 0, FALSE,
    [UseTkn |-> Tk("use"), Traits |-> Ls("name", 1, 2, "SeparatorTkns", ",", "no"), OpenCurlyBracketTkn |-> Tk("{"),
     Adaptations |-> Ls("adaptation", 0, 2, "", "", "no"), CloseCurlyBracketTkn |-> Tk("}")]),
  V("StmtTraitUsePrecedence", "StmtTraitUsePrecedence", {"adaptation"}, "both", 0, TRUE,
    [Trait |-> Ch("name", 0), DoubleColonTkn |-> Tk("::"), Method |-> Ident("IDENT"), InsteadofTkn |-> Tk("insteadof"),
     Insteadof |-> Ls("name", 1, 2, "SeparatorTkns", ",", "no"), SemiColonTkn |-> Tk(";")]),
  V("StmtTraitUseAlias", "StmtTraitUseAlias", {"adaptation"}, "both", 0, TRUE,
    [Trait |-> Ch("name", 0), DoubleColonTkn |-> Tk("::"), Method |-> Ident("IDENT"), AsTkn |-> Tk("as"), Modifier |-> Mod("protected"), Alias |-> Ident("IDENT"), SemiColonTkn |-> Tk(";")]),
  V("StmtTraitUseAlias/name", "StmtTraitUseAlias", {"adaptation"}, "both", 0, TRUE,
    [Method |-> Ident("IDENT"), AsTkn |-> Tk("as"), Alias |-> Ident("IDENT"), SemiColonTkn |-> Tk(";")]),
  V("StmtTraitUseAlias/vis", "StmtTraitUseAlias", {"adaptation"}, "both", 0, TRUE,
    [Method |-> Ident("IDENT"), AsTkn |-> Tk("as"), Modifier |-> Mod("private"), SemiColonTkn |-> Tk(";")]),
  \* top-level statements
  V("StmtNamespace", "StmtNamespace", {"toponly"}, "both", 0, TRUE, [NsTkn |-> Tk("namespace"), Name |-> Ch("plainname", 0), SemiColonTkn |-> Tk(";")]),
  V("StmtNamespace/braced", "StmtNamespace", {"toponly_first"}, "both", 0, TRUE,
    [NsTkn |-> Tk("namespace"), Name |-> Ch("plainname", 0), OpenCurlyBracketTkn |-> Tk("{"), Stmts |-> Ls("nsitem", 0, 2, "", "", "no"), CloseCurlyBracketTkn |-> Tk("}")]),
  V("StmtNamespace/global", "StmtNamespace", {"toponly_first"}, "both", 0, TRUE,
    [NsTkn |-> Tk("namespace"), OpenCurlyBracketTkn |-> Tk("{"), Stmts |-> Ls("nsitem", 0, 2, "", "", "no"), CloseCurlyBracketTkn |-> Tk("}")]),
  V("plainname", "Name", {"plainname"}, "both", 0, TRUE, [Parts |-> Ls("namepart", 1, 2, "SeparatorTkns", "\\", "no")]),
  V("StmtUseList", "StmtUseList", {"toponly", "nsitem"}, "both", 0, TRUE,
    [UseTkn |-> Tk("use"), Uses |-> Ls("useclause", 1, 2, "SeparatorTkns", ",", "no"), SemiColonTkn |-> Tk(";")]),
  V("StmtUseList/function", "StmtUseList", {"toponly", "nsitem"}, "both", 0, TRUE,
    [UseTkn |-> Tk("use"), Type |-> Mod("function"), Uses |-> Ls("useclause", 1, 2, "SeparatorTkns", ",", "no"), SemiColonTkn |-> Tk(";")]),
  V("StmtUseList/const", "StmtUseList", {"toponly", "nsitem"}, "both", 0, TRUE,
    [UseTkn |-> Tk("use"), Type |-> Mod("const"), Uses |-> Ls("useclause", 1, 1, "SeparatorTkns", ",", "no"), SemiColonTkn |-> Tk(";")]),
  V("StmtUse", "StmtUse", {"useclause", "groupclause"}, "both", 0, TRUE, [Use |-> Ch("plainname", 0)]),
  V("StmtUse/alias", "StmtUse", {"useclause", "groupclause"}, "both", 0, TRUE, [Use |-> Ch("plainname", 0), AsTkn |-> Tk("as"), Alias |-> Ident("IDENT")]),
  V("StmtUse/typed", "StmtUse", {"groupclause"}, "7", 0, TRUE, [Type |-> Mod("function"), Use |-> Ch("plainname", 0)]),
  V("StmtGroupUseList", "StmtGroupUseList", {"toponly", "nsitem"}, "7", 0, TRUE,
    [UseTkn |-> Tk("use"), Prefix |-> Ch("plainname", 0), NsSeparatorTkn |-> TkG("\\", "LR"), OpenCurlyBracketTkn |-> TkG("{", "L"),
     Uses |-> Ls("groupclause", 1, 2, "SeparatorTkns", ",", "no"), CloseCurlyBracketTkn |-> Tk("}"), SemiColonTkn |-> Tk(";")]),
  V("StmtGroupUseList/typed", "StmtGroupUseList", {"toponly", "nsitem"}, "7", 0, TRUE,
    [UseTkn |-> Tk("use"), Type |-> Mod("const"), LeadingNsSeparatorTkn |-> TkG("\\", "R"), Prefix |-> Ch("plainname", 0), NsSeparatorTkn |-> TkG("\\", "LR"),
     OpenCurlyBracketTkn |-> TkG("{", "L"), Uses |-> Ls("useclause", 1, 2, "SeparatorTkns", ",", "no"), CloseCurlyBracketTkn |-> Tk("}"), SemiColonTkn |-> Tk(";")]),
  V("StmtConstList", "StmtConstList", {"toponly", "nsitem"}, "both", 0, FALSE, [ConstTkn |-> Tk("const"), Consts |-> ConstDecl, SemiColonTkn |-> Tk(";")]),
  V("StmtDeclare", "StmtDeclare", {"stmt", "closed"}, "both", 0, TRUE,
    [DeclareTkn |-> Tk("declare"), OpenParenthesisTkn |-> Tk("("), Consts |-> Ls("declconst", 1, 2, "SeparatorTkns", ",", "no"), CloseParenthesisTkn |-> Tk(")"),
     Stmt |-> Nd("StmtNop", [SemiColonTkn |-> Tk(";")])]),
  V("StmtDeclare/block", "StmtDeclare", {"stmt", "closed"}, "both", 0, TRUE,
    [DeclareTkn |-> Tk("declare"), OpenParenthesisTkn |-> Tk("("), Consts |-> Ls("declconst", 1, 1, "SeparatorTkns", ",", "no"), CloseParenthesisTkn |-> Tk(")"), Stmt |-> Block]),
  V("StmtDeclare/alt", "StmtDeclare", {"stmt", "closed"}, "both", 0, TRUE,
    [DeclareTkn |-> Tk("declare"), OpenParenthesisTkn |-> Tk("("), Consts |-> Ls("declconst", 1, 1, "SeparatorTkns", ",", "no"), CloseParenthesisTkn |-> Tk(")"),
     ColonTkn |-> Tk(":"), Stmt |-> Bare, EndDeclareTkn |-> Tk("enddeclare"), SemiColonTkn |-> Tk(";")]),
  V("declconst", "StmtConstant", {"declconst"}, "both", 0, TRUE,
    [Name |-> Ident("IDENT"), EqualTkn |-> Tk("="), Expr |-> Nd("ScalarLnumber", [NumberTkn |-> Tk("LNUM"), Value |-> Vl("NumberTkn")])])
>>

\* ---------------------------------------------------------------- further access chains, destructuring and string offsets

VarOf(n) == Nd("ExprVariable", [DollarTkn |-> TkG("$", "R"), Name |-> n])
IdxStr(lexcls) == Nd("ScalarString", [StringTkn |-> TkG(lexcls, "LR"), Value |-> Vl("StringTkn")])
IdxNum == Nd("ScalarLnumber", [NumberTkn |-> TkG("NUMSTR", "LR"), Value |-> Vl("NumberTkn")])
StrDim(d) == Nd("ExprArrayDimFetch", [Var |-> StrVar, OpenBracketTkn |-> TkG("[", "LR"), Dim |-> d, CloseBracketTkn |-> TkG("]", "L")])
KeyedList == Nd("ExprList", [ListTkn |-> Tk("list"), OpenBracketTkn |-> Tk("("), Items |-> Ls("listitemk", 1, 2, "SeparatorTkns", ",", "no"), CloseBracketTkn |-> Tk(")")])

More2 == <<
  \* $$$a, $$$$a: every '$' is a node of its own
  V("ExprVariable/varvar3", "ExprVariable", {"expr", "var"}, "both", L.atom, TRUE, [DollarTkn |-> TkG("$", "R"), Name |-> VarOf(SimpleVar)]),
  V("ExprVariable/varvar4", "ExprVariable", {"expr", "var"}, "both", L.atom, TRUE, [DollarTkn |-> TkG("$", "R"), Name |-> VarOf(VarOf(SimpleVar))]),
  \* calling an element of a property chain:  $a->b->c[1]($x)
  V("ExprPropertyFetch/chain", "ExprPropertyFetch", {"propchain"}, "both", L.atom, FALSE,
    [Var |-> Ch("propchain", 0), ObjectOperatorTkn |-> Tk("->"), Prop |-> Ident("IDENT")]),
  V("ExprVariable/chainbase", "ExprVariable", {"propchain"}, "both", L.atom, TRUE, [Name |-> Ident("VAR")]),
  V("ExprFunctionCall/dim", "ExprFunctionCall", {"expr", "deref"}, "both", L.atom, FALSE,
    [Function |-> Nd("ExprArrayDimFetch", [Var |-> Ch("propchain", 0), OpenBracketTkn |-> Tk("["), Dim |-> Ch("expr", 0), CloseBracketTkn |-> Tk("]")]),
     OpenParenthesisTkn |-> Tk("("), Args |-> Args, CloseParenthesisTkn |-> Tk(")")]),
  V("ExprFunctionCall/dim2", "ExprFunctionCall", {"expr", "deref"}, "both", L.atom, TRUE,
    [Function |-> Nd("ExprArrayDimFetch",
        [Var |-> Nd("ExprPropertyFetch", [Var |-> Nd("ExprPropertyFetch", [Var |-> SimpleVar, ObjectOperatorTkn |-> Tk("->"), Prop |-> Ident("IDENT")]),
                                          ObjectOperatorTkn |-> Tk("->"), Prop |-> Ident("IDENT")]),
         OpenBracketTkn |-> Tk("["), Dim |-> Nd("ScalarLnumber", [NumberTkn |-> Tk("LNUM"), Value |-> Vl("NumberTkn")]), CloseBracketTkn |-> Tk("]")]),
     OpenParenthesisTkn |-> Tk("("), Args |-> Args, CloseParenthesisTkn |-> Tk(")")]),
  V("ExprFunctionCall/dim3", "ExprFunctionCall", {"expr", "deref"}, "both", L.atom, TRUE,
    [Function |-> Nd("ExprArrayDimFetch",
        [Var |-> Nd("ExprPropertyFetch", [Var |-> Nd("ExprMethodCall", [Var |-> Nd("ExprPropertyFetch", [Var |-> SimpleVar, ObjectOperatorTkn |-> Tk("->"), Prop |-> Ident("IDENT")]),
                                                      ObjectOperatorTkn |-> Tk("->"), Method |-> Ident("IDENT"), OpenParenthesisTkn |-> Tk("("), CloseParenthesisTkn |-> Tk(")")]),
                                          ObjectOperatorTkn |-> Tk("->"), Prop |-> Ident("IDENT")]),
         OpenBracketTkn |-> Tk("["), Dim |-> SimpleVar, CloseBracketTkn |-> Tk("]")]),
     OpenParenthesisTkn |-> Tk("("), Args |-> Args, CloseParenthesisTkn |-> Tk(")")]),
  \* class references that are member accesses:  new $a::$b, new $a->b($x), $x instanceof $a->b
  V("ExprStaticPropertyFetch/classref", "ExprStaticPropertyFetch", {"classref"}, "both", L.atom, TRUE,
    [Class |-> SimpleVar, DoubleColonTkn |-> Tk("::"), Prop |-> SimpleVar]),
  V("ExprPropertyFetch/classref", "ExprPropertyFetch", {"classref"}, "both", L.atom, TRUE,
    [Var |-> SimpleVar, ObjectOperatorTkn |-> Tk("->"), Prop |-> Ident("IDENT")]),
  V("ExprPropertyFetch/classref2", "ExprPropertyFetch", {"classref"}, "both", L.atom, TRUE,
    [Var |-> Nd("ExprPropertyFetch", [Var |-> SimpleVar, ObjectOperatorTkn |-> Tk("->"), Prop |-> Ident("IDENT")]), ObjectOperatorTkn |-> Tk("->"), Prop |-> Ident("IDENT")]),
  \* keyed destructuring with the list keyword (7.1), nested
  V("ExprList/keyed", "ExprList", {"listexpr"}, "7", 0, FALSE,
    [ListTkn |-> Tk("list"), OpenBracketTkn |-> Tk("("), Items |-> Ls("listitemk", 1, 2, "SeparatorTkns", ",", "no"), CloseBracketTkn |-> Tk(")")]),
  V("listitemk/var", "ExprArrayItem", {"listitemk"}, "7", 0, TRUE, [Key |-> Ch("scalar", 0), DoubleArrowTkn |-> Tk("=>"), Val |-> SimpleVar]),
  V("listitemk/nested", "ExprArrayItem", {"listitemk"}, "7", 0, FALSE, [Key |-> Ch("scalar", 0), DoubleArrowTkn |-> Tk("=>"), Val |-> KeyedList]),
  \* (a nested short list  [2 => [$a]] = $x  is deliberately absent: the parser keeps the inner brackets as ExprArray and only
  \*  converts the outermost one to ExprList; whether that is "the corresponding node kind" is not settled by PHP's grammar)
  \* simple interpolation with an offset: "$a[3]" (number), "$a[0x1A]" / "$a[0b11]" / "$a[key]" (strings), "$a[$i]"
  V("ScalarEncapsed/idxnum", "ScalarEncapsed", {"expr"}, "both", L.atom, TRUE,
    [OpenQuoteTkn |-> TkG("\"", "R"), Parts |-> Sq(<<StrText, StrDim(IdxNum)>>), CloseQuoteTkn |-> TkG("\"", "L")]),
  V("ScalarEncapsed/idxhex", "ScalarEncapsed", {"expr"}, "both", L.atom, TRUE,
    [OpenQuoteTkn |-> TkG("\"", "R"), Parts |-> Sq(<<StrDim(IdxStr("NUMSTR_HEX")), StrText>>), CloseQuoteTkn |-> TkG("\"", "L")]),
  V("ScalarEncapsed/idxbin", "ScalarEncapsed", {"expr"}, "both", L.atom, TRUE,
    [OpenQuoteTkn |-> TkG("\"", "R"), Parts |-> Sq(<<StrDim(IdxStr("NUMSTR_BIN"))>>), CloseQuoteTkn |-> TkG("\"", "L")]),
  V("ScalarEncapsed/idxkey", "ScalarEncapsed", {"expr"}, "both", L.atom, TRUE,
    [OpenQuoteTkn |-> TkG("\"", "R"), Parts |-> Sq(<<StrDim(IdxStr("IDXKEY")), StrVar>>), CloseQuoteTkn |-> TkG("\"", "L")]),
  V("ScalarEncapsed/idxvar", "ScalarEncapsed", {"expr"}, "both", L.atom, TRUE,
    [OpenQuoteTkn |-> TkG("\"", "R"), Parts |-> Sq(<<StrDim(StrVar), StrText>>), CloseQuoteTkn |-> TkG("\"", "L")]),
  V("heredoc/idx", "StmtEcho", {"stmt", "closed"}, "both", 0, TRUE,
    [EchoTkn |-> Tk("echo"), Exprs |-> Sq(<<Heredoc("HEREDOC_START", <<HdText, StrDim(IdxNum), HdText, StrDim(IdxStr("NUMSTR_HEX")), HdText>>)>>), SemiColonTkn |-> TkG(";", "LN")])
>>

\* ---------------------------------------------------------------- productions the first groups never reached
\* (found with the rule coverage of the real grammars recorded in evidence/C03.json)

IdentRes == Nd("Identifier", [IdentifierTkn |-> Tk("IDENT_RES"), Value |-> Vl("IdentifierTkn")])     \* a (semi-)reserved word as a member name
StaticBin(id, kind, op, l) == V(id, kind, {"scalar"}, "both", l, FALSE, [Left |-> Ch("scalar", l), OpTkn |-> Tk(op), Right |-> Ch("scalar", l + 1)])
StaticBinN(id, kind, op, l) == V(id, kind, {"scalar"}, "both", l, FALSE, [Left |-> Ch("scalar", l + 1), OpTkn |-> Tk(op), Right |-> Ch("scalar", l + 1)])
EncVar(fill) == Nd("ScalarEncapsedStringVar", fill)
VarName == Nd("Identifier", [IdentifierTkn |-> TkG("IDENT", "LR"), Value |-> Vl("IdentifierTkn")])

More3 == <<
  \* keywords as member names: after "->" every label is a name (both grammars); after "::" and in declarations from PHP 7 on
  V("ExprPropertyFetch/reserved", "ExprPropertyFetch", {"expr", "var", "deref"}, "both", L.atom, FALSE,
    [Var |-> Ch("deref", 0), ObjectOperatorTkn |-> TkG("->", "W"), Prop |-> IdentRes]),
  V("ExprMethodCall/reserved", "ExprMethodCall", {"expr", "deref"}, "both", L.atom, FALSE,
    [Var |-> Ch("deref", 0), ObjectOperatorTkn |-> TkG("->", "W"), Method |-> IdentRes, OpenParenthesisTkn |-> Tk("("), Args |-> Args, CloseParenthesisTkn |-> Tk(")")]),
  V("ExprStaticCall/reserved", "ExprStaticCall", {"expr", "deref"}, "7", L.atom, FALSE,
    [Class |-> Ch("name", 0), DoubleColonTkn |-> Tk("::"), Call |-> IdentRes, OpenParenthesisTkn |-> Tk("("), Args |-> Args, CloseParenthesisTkn |-> Tk(")")]),
  V("ExprClassConstFetch/reserved", "ExprClassConstFetch", {"expr", "scalar"}, "7", L.atom, FALSE,
    [Class |-> Ch("name", 0), DoubleColonTkn |-> Tk("::"), Const |-> IdentRes]),
  V("StmtClassMethod/reserved", "StmtClassMethod", {"member"}, "7", 0, TRUE,
    [Modifiers |-> SqS(<<Mod("public")>>, "", ""), FunctionTkn |-> Tk("function"), Name |-> IdentRes, OpenParenthesisTkn |-> Tk("("), CloseParenthesisTkn |-> Tk(")"), Stmt |-> MethodBody]),
  V("StmtConstant/reserved", "StmtConstant", {"classconstdecl"}, "7", 0, FALSE, [Name |-> IdentRes, EqualTkn |-> Tk("="), Expr |-> Ch("scalar", 0)]),
  V("StmtClassConstList/reserved", "StmtClassConstList", {"member"}, "7", 0, FALSE,
    [ConstTkn |-> Tk("const"), Consts |-> Ls("classconstdecl", 1, 2, "SeparatorTkns", ",", "no"), SemiColonTkn |-> Tk(";")]),
  \* member access on things other than names and plain variables
  V("ExprClassConstFetch/varclass", "ExprClassConstFetch", {"expr"}, "both", L.atom, TRUE, [Class |-> SimpleVar, DoubleColonTkn |-> Tk("::"), Const |-> Ident("IDENT")]),
  V("ExprStaticCall/varname", "ExprStaticCall", {"expr", "deref"}, "both", L.atom, FALSE,
    [Class |-> Ch("name", 0), DoubleColonTkn |-> Tk("::"), Call |-> SimpleVar, OpenParenthesisTkn |-> Tk("("), Args |-> Args, CloseParenthesisTkn |-> Tk(")")]),
  V("ExprStaticCall/curly", "ExprStaticCall", {"expr", "deref"}, "both", L.atom, FALSE,
    [Class |-> Ch("name", 0), DoubleColonTkn |-> Tk("::"), OpenCurlyBracketTkn |-> Tk("{"), Call |-> Ch("expr", 0), CloseCurlyBracketTkn |-> Tk("}"),
     OpenParenthesisTkn |-> Tk("("), Args |-> Args, CloseParenthesisTkn |-> Tk(")")]),
  V("ExprArrayDimFetch/curly", "ExprArrayDimFetch", {"expr", "var", "deref"}, "both", L.atom, FALSE,
    [Var |-> Ch("propchain", 0), OpenBracketTkn |-> Tk("{"), Dim |-> Ch("expr", 0), CloseBracketTkn |-> Tk("}")]),
  V("ExprArrayDimFetch/const", "ExprArrayDimFetch", {"expr"}, "both", L.atom, FALSE,
    [Var |-> Nd("ExprConstFetch", [Const |-> Ch("name", 0)]), OpenBracketTkn |-> Tk("["), Dim |-> Ch("expr", 0), CloseBracketTkn |-> Tk("]")]),
  \* PHP 7: any parenthesised expression can be dereferenced or called
  V("ExprArrayDimFetch/paren", "ExprArrayDimFetch", {"expr", "deref"}, "7", L.atom, FALSE,
    [Var |-> Nd("ExprBrackets", [OpenParenthesisTkn |-> Tk("("), Expr |-> Ch("expr", 0), CloseParenthesisTkn |-> Tk(")")]),
     OpenBracketTkn |-> Tk("["), Dim |-> Ch("expr", 0), CloseBracketTkn |-> Tk("]")]),
  V("ExprFunctionCall/paren", "ExprFunctionCall", {"expr", "deref"}, "7", L.atom, FALSE,
    [Function |-> Nd("ExprBrackets", [OpenParenthesisTkn |-> Tk("("), Expr |-> Ch("expr", 0), CloseParenthesisTkn |-> Tk(")")]),
     OpenParenthesisTkn |-> Tk("("), Args |-> Args, CloseParenthesisTkn |-> Tk(")")]),
  V("ExprFunctionCall/string", "ExprFunctionCall", {"expr", "deref"}, "7", L.atom, FALSE,
    [Function |-> Nd("ScalarString", [StringTkn |-> Tk("SQSTR"), Value |-> Vl("StringTkn")]), OpenParenthesisTkn |-> Tk("("), Args |-> Args, CloseParenthesisTkn |-> Tk(")")]),
  \* (new A)->m()  - both grammars (an expression, not a variable, before PHP 7: it cannot be dereferenced further in unset() etc.)
  V("ExprMethodCall/newparen", "ExprMethodCall", {"expr"}, "both", L.atom, FALSE,
    [Var |-> Nd("ExprBrackets", [OpenParenthesisTkn |-> Tk("("), Expr |-> Nd("ExprNew", [NewTkn |-> Tk("new"), Class |-> Ch("name", 0)]), CloseParenthesisTkn |-> Tk(")")]),
     ObjectOperatorTkn |-> Tk("->"), Method |-> Ident("IDENT"), OpenParenthesisTkn |-> Tk("("), Args |-> Args, CloseParenthesisTkn |-> Tk(")")]),
  V("ExprPropertyFetch/newparen", "ExprPropertyFetch", {"expr"}, "both", L.atom, FALSE,
    [Var |-> Nd("ExprBrackets", [OpenParenthesisTkn |-> Tk("("), Expr |-> Nd("ExprNew", [NewTkn |-> Tk("new"), Class |-> Ch("name", 0), OpenParenthesisTkn |-> Tk("("), Args |-> Args,
                                                                                   CloseParenthesisTkn |-> Tk(")")]), CloseParenthesisTkn |-> Tk(")")]),
     ObjectOperatorTkn |-> Tk("->"), Prop |-> Ident("IDENT")]),
  \* more class references
  V("ExprStaticPropertyFetch/classref2", "ExprStaticPropertyFetch", {"classref"}, "both", L.atom, TRUE, [Class |-> Ch("name", 0), DoubleColonTkn |-> Tk("::"), Prop |-> SimpleVar]),
  V("ExprArrayDimFetch/classref", "ExprArrayDimFetch", {"classref"}, "both", L.atom, FALSE,
    [Var |-> SimpleVar, OpenBracketTkn |-> Tk("["), Dim |-> Ch("expr", 0), CloseBracketTkn |-> Tk("]")]),
  \* statements
  V("StmtContinue/expr", "StmtContinue", {"stmt", "closed"}, "both", 0, TRUE,
    [ContinueTkn |-> Tk("continue"), Expr |-> Nd("ScalarLnumber", [NumberTkn |-> Tk("LNUM"), Value |-> Vl("NumberTkn")]), SemiColonTkn |-> Tk(";")]),
  V("StmtGlobal/varvar", "StmtGlobal", {"stmt", "closed"}, "both", 0, FALSE,
    [GlobalTkn |-> Tk("global"), Vars |-> SqS(<<SimpleVar, VarOf(SimpleVar),
                                               Nd("ExprVariable", [DollarTkn |-> TkG("$", "R"), OpenCurlyBracketTkn |-> Tk("{"), Name |-> Ch("expr", 0), CloseCurlyBracketTkn |-> Tk("}")])>>,
                                             "SeparatorTkns", ","), SemiColonTkn |-> Tk(";")]),
  V("StmtSwitch/altleadsemi", "StmtSwitch", {"stmt", "closed"}, "both", 0, FALSE,
    [SwitchTkn |-> Tk("switch"), OpenParenthesisTkn |-> Tk("("), Cond |-> Ch("expr", 0), CloseParenthesisTkn |-> Tk(")"),
     ColonTkn |-> Tk(":"), CaseSeparatorTkn |-> Tk(";"), Cases |-> Ls("case", 0, 2, "", "", "no"), EndSwitchTkn |-> Tk("endswitch"), SemiColonTkn |-> Tk(";")]),
  V("StmtTry/many", "StmtTry", {"stmt", "closed"}, "both", 0, FALSE,
    [TryTkn |-> Tk("try"), OpenCurlyBracketTkn |-> Tk("{"), Stmts |-> Ls("inner", 0, 1, "", "", "no"), CloseCurlyBracketTkn |-> Tk("}"),
     Catches |-> Ls("catch", 3, 4, "", "", "no")]),
  \* use declarations with a leading separator; group use with a trailing comma (7.2)
  V("StmtUse/lead", "StmtUse", {"useclauseL"}, "both", 0, TRUE, [NsSeparatorTkn |-> TkG("\\", "R"), Use |-> Ch("plainname", 0)]),
  V("StmtUse/plainL", "StmtUse", {"useclauseL"}, "both", 0, TRUE, [Use |-> Ch("plainname", 0)]),
  V("StmtUseList/lead", "StmtUseList", {"toponly", "nsitem"}, "both", 0, TRUE,
    [UseTkn |-> Tk("use"), Uses |-> Ls("useclauseL", 1, 3, "SeparatorTkns", ",", "no"), SemiColonTkn |-> Tk(";")]),
  V("StmtUseList/leadfunction", "StmtUseList", {"toponly", "nsitem"}, "both", 0, TRUE,
    [UseTkn |-> Tk("use"), Type |-> Mod("function"), Uses |-> Ls("useclauseL", 1, 2, "SeparatorTkns", ",", "no"), SemiColonTkn |-> Tk(";")]),
  V("StmtUseList/leadconst", "StmtUseList", {"toponly", "nsitem"}, "both", 0, TRUE,
    [UseTkn |-> Tk("use"), Type |-> Mod("const"), Uses |-> Ls("useclauseL", 1, 2, "SeparatorTkns", ",", "no"), SemiColonTkn |-> Tk(";")]),
  V("StmtUse/leadalias", "StmtUse", {"useclauseL"}, "both", 0, TRUE,
    [NsSeparatorTkn |-> TkG("\\", "R"), Use |-> Ch("plainname", 0), AsTkn |-> Tk("as"), Alias |-> Ident("IDENT")]),
  V("StmtUseList/const3", "StmtUseList", {"toponly", "nsitem"}, "both", 0, TRUE,
    [UseTkn |-> Tk("use"), Type |-> Mod("const"), Uses |-> Ls("useclause", 2, 3, "SeparatorTkns", ",", "no"), SemiColonTkn |-> Tk(";")]),
  V("StmtGroupUseList/trailing", "StmtGroupUseList", {"toponly", "nsitem"}, "7", 0, TRUE,
    [UseTkn |-> Tk("use"), Prefix |-> Ch("plainname", 0), NsSeparatorTkn |-> TkG("\\", "LR"), OpenCurlyBracketTkn |-> TkG("{", "L"),
     Uses |-> Ls("groupclause", 1, 2, "SeparatorTkns", ",", "yes"), CloseCurlyBracketTkn |-> Tk("}"), SemiColonTkn |-> Tk(";")]),
  V("StmtGroupUseList/leadmixed", "StmtGroupUseList", {"toponly", "nsitem"}, "7", 0, TRUE,
    [UseTkn |-> Tk("use"), LeadingNsSeparatorTkn |-> TkG("\\", "R"), Prefix |-> Ch("plainname", 0), NsSeparatorTkn |-> TkG("\\", "LR"), OpenCurlyBracketTkn |-> TkG("{", "L"),
     Uses |-> Ls("groupclause", 1, 2, "SeparatorTkns", ",", "opt"), CloseCurlyBracketTkn |-> Tk("}"), SemiColonTkn |-> Tk(";")]),
  \* a file made of bracketed namespaces only
  V("StmtNamespace/bracedonly", "StmtNamespace", {"nsonly"}, "both", 0, TRUE,
    [NsTkn |-> Tk("namespace"), Name |-> Ch("plainname", 0), OpenCurlyBracketTkn |-> Tk("{"), Stmts |-> Ls("nsitem", 0, 3, "", "", "no"), CloseCurlyBracketTkn |-> Tk("}")]),
  V("StmtNamespace/globalonly", "StmtNamespace", {"nsonly"}, "both", 0, TRUE,
    [NsTkn |-> Tk("namespace"), OpenCurlyBracketTkn |-> Tk("{"), Stmts |-> Ls("nsitem", 0, 3, "", "", "no"), CloseCurlyBracketTkn |-> Tk("}")]),
  \* array unpacking (7.4), trait alias to a reserved word
  V("ExprArrayItem/spread", "ExprArrayItem", {"arrayitem"}, "7", 0, FALSE, [EllipsisTkn |-> Tk("..."), Val |-> Ch("expr", L.yield)]),
  \* constant expressions (5.6): operators in defaults, constants and static initialisers
  StaticBin("static/plus", "ExprBinaryPlus", "+", L.add), StaticBin("static/minus", "ExprBinaryMinus", "-", L.add), StaticBin("static/concat", "ExprBinaryConcat", ".", L.add),
  StaticBin("static/mul", "ExprBinaryMul", "*", L.mul), StaticBin("static/div", "ExprBinaryDiv", "/", L.mul), StaticBin("static/mod", "ExprBinaryMod", "%", L.mul),
  StaticBin("static/bitor", "ExprBinaryBitwiseOr", "|", L.bitor), StaticBin("static/bitand", "ExprBinaryBitwiseAnd", "&", L.bitand), StaticBin("static/bitxor", "ExprBinaryBitwiseXor", "^", L.bitxor),
  StaticBin("static/shl", "ExprBinaryShiftLeft", "<<", L.shift), StaticBin("static/shr", "ExprBinaryShiftRight", ">>", L.shift),
  StaticBin("static/lor", "ExprBinaryLogicalOr", "or", L.lor), StaticBin("static/lxor", "ExprBinaryLogicalXor", "xor", L.lxor), StaticBin("static/land", "ExprBinaryLogicalAnd", "and", L.land),
  StaticBin("static/bor", "ExprBinaryBooleanOr", "||", L.bor), StaticBin("static/band", "ExprBinaryBooleanAnd", "&&", L.band),
  StaticBinN("static/eq", "ExprBinaryEqual", "==", L.eq), StaticBinN("static/neq", "ExprBinaryNotEqual", "!=", L.eq), StaticBinN("static/ident", "ExprBinaryIdentical", "===", L.eq),
  StaticBinN("static/nident", "ExprBinaryNotIdentical", "!==", L.eq), StaticBinN("static/lt", "ExprBinarySmaller", "<", L.cmp), StaticBinN("static/gt", "ExprBinaryGreater", ">", L.cmp),
  StaticBinN("static/le", "ExprBinarySmallerOrEqual", "<=", L.cmp), StaticBinN("static/ge", "ExprBinaryGreaterOrEqual", ">=", L.cmp),
  V("static/pow", "ExprBinaryPow", {"scalar"}, "both", L.pow, FALSE, [Left |-> Ch("scalar", L.pow + 1), OpTkn |-> Tk("**"), Right |-> Ch("scalar", L.pow)]),
  V("static/not", "ExprBooleanNot", {"scalar"}, "both", L.not, FALSE, [ExclamationTkn |-> Tk("!"), Expr |-> Ch("scalar", L.not)]),
  V("static/bitnot", "ExprBitwiseNot", {"scalar"}, "both", L.unary, FALSE, [TildaTkn |-> Tk("~"), Expr |-> Ch("scalar", L.unary)]),
  \* PHP 5.6's grammar gives the sign rules of constant expressions no %prec: they take the precedence of binary '+' / '-', so
  \* "-1 * 2" is -(1 * 2) there and (-1) * 2 from PHP 7 on (where constant expressions are ordinary expressions)
  V("static/uminus", "ExprUnaryMinus", {"scalar"}, "7g", L.unary, FALSE, [MinusTkn |-> Tk("-"), Expr |-> Ch("scalar", L.unary)]),
  V("static/uplus", "ExprUnaryPlus", {"scalar"}, "7g", L.unary, FALSE, [PlusTkn |-> Tk("+"), Expr |-> Ch("scalar", L.unary)]),
  V("static/uminus5", "ExprUnaryMinus", {"scalar"}, "5", L.add, FALSE, [MinusTkn |-> Tk("-"), Expr |-> Ch("scalar", L.add + 1)]),
  V("static/uplus5", "ExprUnaryPlus", {"scalar"}, "5", L.add, FALSE, [PlusTkn |-> Tk("+"), Expr |-> Ch("scalar", L.add + 1)]),
  V("static/ternary", "ExprTernary", {"scalar"}, "both", L.ternary, FALSE,
    [Cond |-> Ch("scalar", L.ternary), QuestionTkn |-> Tk("?"), IfTrue |-> Ch("scalar", L.ternary), ColonTkn |-> Tk(":"), IfFalse |-> Ch("scalar", L.ternary + 1)]),
  V("static/shortternary", "ExprTernary", {"scalar"}, "both", L.ternary, FALSE,
    [Cond |-> Ch("scalar", L.ternary), QuestionTkn |-> TkG("?", "R"), ColonTkn |-> Tk(":"), IfFalse |-> Ch("scalar", L.ternary + 1)]),
  V("static/brackets", "ExprBrackets", {"scalar"}, "both", L.atom, FALSE, [OpenParenthesisTkn |-> Tk("("), Expr |-> Ch("scalar", 0), CloseParenthesisTkn |-> Tk(")")]),
  V("static/dim", "ExprArrayDimFetch", {"scalar"}, "both", L.atom, FALSE,
    [Var |-> Nd("ExprConstFetch", [Const |-> Ch("name", 0)]), OpenBracketTkn |-> Tk("["), Dim |-> Ch("scalar", 0), CloseBracketTkn |-> Tk("]")]),
  \* string interpolation: "$a->b", "${name}", "${expr}"; negative offsets (7.1)
  V("ScalarEncapsed/prop", "ScalarEncapsed", {"expr"}, "both", L.atom, TRUE,
    [OpenQuoteTkn |-> TkG("\"", "R"),
     Parts |-> Sq(<<StrText, Nd("ExprPropertyFetch", [Var |-> StrVar, ObjectOperatorTkn |-> TkG("->", "LR"), Prop |-> VarName]), StrText>>),
     CloseQuoteTkn |-> TkG("\"", "L")]),
  V("ScalarEncapsed/dollarcurly", "ScalarEncapsed", {"expr"}, "both", L.atom, TRUE,
    [OpenQuoteTkn |-> TkG("\"", "R"),
     Parts |-> Sq(<<EncVar([DollarOpenCurlyBracketTkn |-> TkG("${", "LR"), Name |-> VarName, CloseCurlyBracketTkn |-> TkG("}", "R")]), StrText>>),
     CloseQuoteTkn |-> TkG("\"", "L")]),
  V("ScalarEncapsed/dollarcurlyexpr", "ScalarEncapsed", {"expr"}, "both", L.atom, FALSE,
    [OpenQuoteTkn |-> TkG("\"", "R"),
     Parts |-> Sq(<<StrText, EncVar([DollarOpenCurlyBracketTkn |-> TkG("${", "L"), Name |-> Ch("parenfree", 0), CloseCurlyBracketTkn |-> TkG("}", "R")])>>),
     CloseQuoteTkn |-> TkG("\"", "L")]),
  V("parenfree/call", "ExprFunctionCall", {"parenfree"}, "both", L.atom, TRUE,
    [Function |-> Nd("Name", [Parts |-> Sq(<<NamePartN>>)]), OpenParenthesisTkn |-> Tk("("), Args |-> Args, CloseParenthesisTkn |-> Tk(")")]),
  V("parenfree/var", "ExprVariable", {"parenfree"}, "both", L.atom, TRUE, [Name |-> Ident("VAR")]),
  \* a negative offset that is no decimal number is a string key: the node's value is the sign followed by the token's text
  V("ScalarEncapsed/idxneghex", "ScalarEncapsed", {"expr"}, "7", L.atom, TRUE,
    [OpenQuoteTkn |-> TkG("\"", "R"),
     Parts |-> Sq(<<StrText, StrDim(Nd("ScalarString", [MinusTkn |-> TkG("-", "LR"), StringTkn |-> TkG("NUMSTR_HEX", "LR"), Value |-> Vl("MinusTkn+StringTkn")]))>>),
     CloseQuoteTkn |-> TkG("\"", "L")]),
  V("ScalarEncapsed/idxnegbin", "ScalarEncapsed", {"expr"}, "7", L.atom, TRUE,
    [OpenQuoteTkn |-> TkG("\"", "R"),
     Parts |-> Sq(<<StrDim(Nd("ScalarString", [MinusTkn |-> TkG("-", "LR"), StringTkn |-> TkG("NUMSTR_BIN", "LR"), Value |-> Vl("MinusTkn+StringTkn")])), StrVar>>),
     CloseQuoteTkn |-> TkG("\"", "L")]),
  V("ScalarEncapsed/idxneg", "ScalarEncapsed", {"expr"}, "7", L.atom, TRUE,
    [OpenQuoteTkn |-> TkG("\"", "R"),
     Parts |-> Sq(<<StrDim(Nd("ExprUnaryMinus", [MinusTkn |-> TkG("-", "LR"), Expr |-> IdxNum])), StrText>>),
     CloseQuoteTkn |-> TkG("\"", "L")])
>>

More4 == <<
  V("ScalarEncapsed/dollarcurlydim", "ScalarEncapsed", {"expr"}, "both", L.atom, FALSE,
    [OpenQuoteTkn |-> TkG("\"", "R"),
     Parts |-> Sq(<<StrText, EncVar([DollarOpenCurlyBracketTkn |-> TkG("${", "LR"), Name |-> VarName, OpenSquareBracketTkn |-> TkG("[", "L"), Dim |-> Ch("parenfree", 0),
                                     CloseSquareBracketTkn |-> Tk("]"), CloseCurlyBracketTkn |-> TkG("}", "R")]), StrText>>),
     CloseQuoteTkn |-> TkG("\"", "L")]),
  V("StmtTraitUseAlias/reserved", "StmtTraitUseAlias", {"adaptation"}, "7", 0, TRUE,
    [Method |-> Ident("IDENT"), AsTkn |-> Tk("as"), Alias |-> Nd("Identifier", [IdentifierTkn |-> Tk("IDENT_RES_NM"), Value |-> Vl("IdentifierTkn")]), SemiColonTkn |-> Tk(";")]),
  V("StmtGroupUseList/typedtrailing", "StmtGroupUseList", {"toponly", "nsitem"}, "7", 0, TRUE,
    [UseTkn |-> Tk("use"), Type |-> Mod("function"), Prefix |-> Ch("plainname", 0), NsSeparatorTkn |-> TkG("\\", "LR"),
     OpenCurlyBracketTkn |-> TkG("{", "L"), Uses |-> Ls("useclause", 1, 2, "SeparatorTkns", ",", "yes"), CloseCurlyBracketTkn |-> Tk("}"), SemiColonTkn |-> Tk(";")]),
  V("ExprArrayDimFetch/classrefcurly", "ExprArrayDimFetch", {"classref"}, "both", L.atom, FALSE,
    [Var |-> SimpleVar, OpenBracketTkn |-> Tk("{"), Dim |-> Ch("expr", 0), CloseBracketTkn |-> Tk("}")]),
  V("ExprStaticPropertyFetch/varvar", "ExprStaticPropertyFetch", {"expr", "var"}, "both", L.atom, TRUE,
    [Class |-> Ch("name", 0), DoubleColonTkn |-> Tk("::"), Prop |-> VarOf(SimpleVar)]),
  \* variable variables of two and three levels as member names (the PHP 5 grammar has a production of its own for them:
  \* variable_without_objects)
  V("ExprStaticPropertyFetch/varvar3", "ExprStaticPropertyFetch", {"expr", "var"}, "both", L.atom, TRUE,
    [Class |-> Ch("name", 0), DoubleColonTkn |-> Tk("::"), Prop |-> VarOf(VarOf(SimpleVar))]),
  V("ExprPropertyFetch/varvar", "ExprPropertyFetch", {"expr", "var"}, "both", L.atom, FALSE,
    [Var |-> SimpleVar, ObjectOperatorTkn |-> Tk("->"), Prop |-> VarOf(SimpleVar)]),
  V("ExprPropertyFetch/varvar3", "ExprPropertyFetch", {"expr", "var"}, "both", L.atom, FALSE,
    [Var |-> SimpleVar, ObjectOperatorTkn |-> Tk("->"), Prop |-> VarOf(VarOf(SimpleVar))]),
  V("ExprStaticCall/varvarname3", "ExprStaticCall", {"expr", "deref"}, "both", L.atom, FALSE,
    [Class |-> Ch("name", 0), DoubleColonTkn |-> Tk("::"), Call |-> VarOf(VarOf(SimpleVar)), OpenParenthesisTkn |-> Tk("("), Args |-> Args, CloseParenthesisTkn |-> Tk(")")]),
  V("ExprStaticCall/varvar", "ExprStaticCall", {"expr", "deref"}, "both", L.atom, FALSE,
    [Class |-> SimpleVar, DoubleColonTkn |-> Tk("::"), Call |-> SimpleVar, OpenParenthesisTkn |-> Tk("("), Args |-> Args, CloseParenthesisTkn |-> Tk(")")]),
  V("ExprBrackets/yield", "ExprBrackets", {"expr"}, "both", L.atom, FALSE,
    [OpenParenthesisTkn |-> Tk("("), Expr |-> Nd("ExprYield", [YieldTkn |-> Tk("yield"), Val |-> Ch("expr", L.ternary)]), CloseParenthesisTkn |-> Tk(")")]),
  V("ExprBrackets/yieldkey", "ExprBrackets", {"expr"}, "both", L.atom, FALSE,
    [OpenParenthesisTkn |-> Tk("("), Expr |-> Nd("ExprYield", [YieldTkn |-> Tk("yield"), Key |-> Ch("expr", L.ternary), DoubleArrowTkn |-> Tk("=>"), Val |-> Ch("expr", L.ternary)]),
     CloseParenthesisTkn |-> Tk(")")]),
  V("ExprBrackets/yieldbare", "ExprBrackets", {"expr"}, "both", L.atom, TRUE,
    [OpenParenthesisTkn |-> Tk("("), Expr |-> Nd("ExprYield", [YieldTkn |-> Tk("yield")]), CloseParenthesisTkn |-> Tk(")")]),
  V("ExprAssignReference/new", "ExprAssignReference", {"expr"}, "5", L.assign, FALSE,
    [Var |-> Ch("var", 0), EqualTkn |-> Tk("="), AmpersandTkn |-> Tk("&"), Expr |-> Nd("ExprNew", [NewTkn |-> Tk("new"), Class |-> Ch("name", 0)])]),
  V("ExprPropertyFetch/newparen2", "ExprPropertyFetch", {"expr"}, "both", L.atom, FALSE,
    [Var |-> Nd("ExprPropertyFetch",
        [Var |-> Nd("ExprBrackets", [OpenParenthesisTkn |-> Tk("("), Expr |-> Nd("ExprNew", [NewTkn |-> Tk("new"), Class |-> Ch("name", 0)]), CloseParenthesisTkn |-> Tk(")")]),
         ObjectOperatorTkn |-> Tk("->"), Prop |-> Ident("IDENT")]),
     ObjectOperatorTkn |-> Tk("->"), Prop |-> Ident("IDENT")]),
  V("ExprArrayDimFetch/newparen", "ExprArrayDimFetch", {"expr"}, "both", L.atom, FALSE,
    [Var |-> Nd("ExprBrackets", [OpenParenthesisTkn |-> Tk("("), Expr |-> Nd("ExprNew", [NewTkn |-> Tk("new"), Class |-> Ch("name", 0)]), CloseParenthesisTkn |-> Tk(")")]),
     OpenBracketTkn |-> Tk("["), Dim |-> Ch("expr", 0), CloseBracketTkn |-> Tk("]")]),
  V("ExprMethodCall/newparendim", "ExprMethodCall", {"expr"}, "both", L.atom, FALSE,
    [Var |-> Nd("ExprArrayDimFetch",
        [Var |-> Nd("ExprBrackets", [OpenParenthesisTkn |-> Tk("("), Expr |-> Nd("ExprNew", [NewTkn |-> Tk("new"), Class |-> Ch("name", 0)]), CloseParenthesisTkn |-> Tk(")")]),
         OpenBracketTkn |-> Tk("["), Dim |-> Ch("expr", 0), CloseBracketTkn |-> Tk("]")]),
     ObjectOperatorTkn |-> Tk("->"), Method |-> Ident("IDENT"), OpenParenthesisTkn |-> Tk("("), Args |-> Args, CloseParenthesisTkn |-> Tk(")")])
>>

More5 == <<
  \* list() with two skipped slots; arrays and calls with a trailing comma (the grammars add an empty item for it in arrays)
  V("ExprList/skip2", "ExprList", {"listexpr"}, "both", 0, FALSE,
    [ListTkn |-> Tk("list"), OpenBracketTkn |-> Tk("("),
     Items |-> SqS(<<Nd("ExprArrayItem", [f |-> "empty"]), Ch("listitem", 0), Nd("ExprArrayItem", [f |-> "empty"]), Ch("listitem", 0)>>, "SeparatorTkns", ","), CloseBracketTkn |-> Tk(")")]),
  V("ExprArray/trailing", "ExprArray", {"expr"}, "both", L.atom, FALSE,
    [OpenBracketTkn |-> Tk("["), Items |-> SqS(<<Ch("arrayitem", 0), Ch("arrayitem", 0), Nd("ExprArrayItem", [f |-> "empty"])>>, "SeparatorTkns", ","), CloseBracketTkn |-> Tk("]")]),
  \* the same in constant expressions (property defaults, static variables: PHP 5 has a grammar of its own for them)
  V("ExprArray/statictrailing", "ExprArray", {"scalar"}, "both", L.atom, FALSE,
    [OpenBracketTkn |-> Tk("["), Items |-> SqS(<<Ch("staticitem", 0), Ch("staticitem", 0), Nd("ExprArrayItem", [f |-> "empty"])>>, "SeparatorTkns", ","), CloseBracketTkn |-> Tk("]")]),
  V("ExprArray/statictrailing1", "ExprArray", {"scalar"}, "both", L.atom, FALSE,
    [ArrayTkn |-> Tk("array"), OpenBracketTkn |-> Tk("("), Items |-> SqS(<<Ch("staticitem", 0), Nd("ExprArrayItem", [f |-> "empty"])>>, "SeparatorTkns", ","), CloseBracketTkn |-> Tk(")")]),
  V("ExprArray/trailing1", "ExprArray", {"expr"}, "both", L.atom, FALSE,
    [ArrayTkn |-> Tk("array"), OpenBracketTkn |-> Tk("("), Items |-> SqS(<<Ch("arrayitem", 0), Nd("ExprArrayItem", [f |-> "empty"])>>, "SeparatorTkns", ","), CloseBracketTkn |-> Tk(")")]),
  \* a braced property name inside a class reference:  new $a->{$b}
  V("ExprPropertyFetch/classrefcurly", "ExprPropertyFetch", {"classref"}, "both", L.atom, FALSE,
    [Var |-> SimpleVar, ObjectOperatorTkn |-> Tk("->"), OpenCurlyBracketTkn |-> Tk("{"), Prop |-> Ch("expr", 0), CloseCurlyBracketTkn |-> Tk("}")]),
  \* a close tag directly followed by an open tag: no inline HTML in between (glue "O": an open tag comes first in the next gap)
  V("closetag+opentag", "StmtNop", {"inner"}, "both", 0, TRUE, [SemiColonTkn |-> TkG("?>", "RO")]),
  V("closetagnl+opentag", "StmtNop", {"inner"}, "both", 0, TRUE, [SemiColonTkn |-> TkG("?>NL", "RO")]),
  V("echo+closetag+opentag", "StmtEcho", {"inner"}, "both", 0, FALSE,
    [EchoTkn |-> Tk("echo"), Exprs |-> LsM("expr", L.yield, 1, 2, "SeparatorTkns", ",", "no"), SemiColonTkn |-> TkG("?>", "RO")])
>>

Variants == Binaries \o Assigns \o Unaries \o Atoms \o Others \o Statements \o More \o Heredocs \o Decls \o More2 \o More3 \o More4 \o More5

\* the root: a file is a statement list (the harness prefixes the open tag as free-floating text of the first token)
RootFill == [Stmts |-> Ls("top", 0, 3, "", "", "no")]

NV == Len(Variants)
\* inner statements = statements + function/class declarations; top statements = inner + namespace/use/const/halt
InCat(v, c) == \/ c \in Variants[v].cats
               \/ (c = "inner" /\ "stmt" \in Variants[v].cats)
               \/ (c = "nsitem" /\ ({"stmt", "inner"} \cap Variants[v].cats) # {})
               \/ (c = "top" /\ ({"stmt", "inner", "toponly"} \cap Variants[v].cats) # {})
               \/ (c = "top1" /\ ({"stmt", "inner", "toponly", "toponly_first"} \cap Variants[v].cats) # {})
=============================================================================
