------------------------------- MODULE Syntax -------------------------------
(* Reference abstract-to-concrete syntax of PHP 5.6 / 7.4, organised by AST node  *)
(* kind (pkg/ast), NOT derived from the goyacc grammars.  A VARIANT of a node kind *)
(* is a total description of one concrete form of that kind: for each slot of the  *)
(* kind's NodeSchema that the form uses, a filler                                   *)
(*    Tk(lexeme class)            a token (keyword / punctuation literally, or a    *)
(*                                symbolic class such as VAR, IDENT, LNUM, SQSTR)   *)
(*    Ch(category, minLevel)      a child of a category with a minimal precedence   *)
(*    Ls(category, lo, hi, separator slot, separator lexeme, trailing?)  a list     *)
(*    Nd(kind, fill)              a fixed inline child                              *)
(*    Vl(slot)                    the byte value = text of the token in that slot   *)
(*    Sq(<<fillers>>)             a list consisting of exactly these children       *)
(* Slots not mentioned are absent.  Since slot order is source order, the yield of  *)
(* a variant is the in-order walk of its slots; C02, C03, C05, C08, C10 and C17     *)
(* all rest on this one table.  Expression variants carry a precedence level taken  *)
(* from PHP's documented operator table; children carry minimal levels computed     *)
(* from it (left-assoc: left >= L, right >= L+1; right-assoc mirrored; non-assoc    *)
(* both >= L+1; prefix: operand >= L), so every generated program has exactly one   *)
(* PHP-prescribed tree.                                                             *)
EXTENDS NodeSchema, Naturals, Sequences, FiniteSets, TLC

Tk(x)       == [f |-> "tk", lex |-> x, glue |-> ""]
TkG(x, g)   == [f |-> "tk", lex |-> x, glue |-> g]      \* g: "L" no trivia before, "R" none after, "LR" neither
Ch(c, m)    == [f |-> "ch", cat |-> c, min |-> m]
Ls(c, lo, hi, sepslot, sep, trail) ==
               [f |-> "ls", cat |-> c, min |-> 0, lo |-> lo, hi |-> hi, seps |-> sepslot, sep |-> sep, trail |-> trail]
LsM(c, m, lo, hi, sepslot, sep, trail) ==
               [f |-> "ls", cat |-> c, min |-> m, lo |-> lo, hi |-> hi, seps |-> sepslot, sep |-> sep, trail |-> trail]
Nd(k, fill) == [f |-> "nd", kind |-> k, fill |-> fill]
Vl(s)       == [f |-> "vl", of |-> s]
Sq(items)   == [f |-> "sq", items |-> items]             \* a list made of exactly these fillers (Nd / Ch), in this order

\* PHP's operator precedence (lowest first), https://www.php.net/manual/en/language.operators.precedence.php (7.4)
L == [ lor |-> 1, lxor |-> 2, land |-> 3, print |-> 4, yield |-> 5, assign |-> 6, ternary |-> 7, coalesce |-> 8,
       bor |-> 9, band |-> 10, bitor |-> 11, bitxor |-> 12, bitand |-> 13, eq |-> 14, cmp |-> 15, shift |-> 16,
       add |-> 17, mul |-> 18, not |-> 19, instof |-> 20, unary |-> 21, pow |-> 22, clone |-> 23, atom |-> 30 ]

\* fam: "both" | "7" (PHP 7-only syntax: PHP 5 must reject it) | "7g" (accepted by both, but PHP 5 groups it
\* differently: uniform variable syntax) | "5" (PHP 5 only)
V(id, kind, cats, fam, lvl, leaf, fill) ==
   [id |-> id, kind |-> kind, cats |-> cats, fam |-> fam, lvl |-> lvl, leaf |-> leaf, fill |-> fill]

Ident(cls)  == Nd("Identifier", [IdentifierTkn |-> Tk(cls), Value |-> Vl("IdentifierTkn")])
SimpleVar   == Nd("ExprVariable", [Name |-> Ident("VAR")])
NamePartN   == Nd("NamePart", [StringTkn |-> Tk("IDENT"), Value |-> Vl("StringTkn")])
Args        == LsM("arg", 0, 0, 2, "SeparatorTkns", ",", "no")
\* parts of interpolated strings (no trivia inside a string body)
StrText     == Nd("ScalarEncapsedStringPart", [EncapsedStrTkn |-> TkG("STRPART", "LR"), Value |-> Vl("EncapsedStrTkn")])
StrVar      == Nd("ExprVariable", [Name |-> Nd("Identifier", [IdentifierTkn |-> TkG("VAR", "LR"), Value |-> Vl("IdentifierTkn")])])

\* ---------------------------------------------------------------- expressions

BinL(kind, op, l) == V(kind, kind, {"expr"}, "both", l, FALSE, [Left |-> Ch("expr", l),     OpTkn |-> Tk(op), Right |-> Ch("expr", l + 1)])
BinR(kind, op, l) == V(kind, kind, {"expr"}, "both", l, FALSE, [Left |-> Ch("expr", l + 1), OpTkn |-> Tk(op), Right |-> Ch("expr", l)])
BinN(kind, op, l) == V(kind, kind, {"expr"}, "both", l, FALSE, [Left |-> Ch("expr", l + 1), OpTkn |-> Tk(op), Right |-> Ch("expr", l + 1)])
Fam(v, fm) == [v EXCEPT !.fam = fm]
Id(v, i) == [v EXCEPT !.id = i]

Binaries == <<
  BinL("ExprBinaryLogicalOr", "or", L.lor), BinL("ExprBinaryLogicalXor", "xor", L.lxor), BinL("ExprBinaryLogicalAnd", "and", L.land),
  Fam(BinR("ExprBinaryCoalesce", "??", L.coalesce), "7"),
  BinL("ExprBinaryBooleanOr", "||", L.bor), BinL("ExprBinaryBooleanAnd", "&&", L.band),
  BinL("ExprBinaryBitwiseOr", "|", L.bitor), BinL("ExprBinaryBitwiseXor", "^", L.bitxor), BinL("ExprBinaryBitwiseAnd", "&", L.bitand),
  BinN("ExprBinaryEqual", "==", L.eq), BinN("ExprBinaryNotEqual", "!=", L.eq), Id(BinN("ExprBinaryNotEqual", "<>", L.eq), "ExprBinaryNotEqual/ltgt"),
  BinN("ExprBinaryIdentical", "===", L.eq), BinN("ExprBinaryNotIdentical", "!==", L.eq), Fam(BinN("ExprBinarySpaceship", "<=>", L.eq), "7"),
  BinN("ExprBinarySmaller", "<", L.cmp), BinN("ExprBinarySmallerOrEqual", "<=", L.cmp),
  BinN("ExprBinaryGreater", ">", L.cmp), BinN("ExprBinaryGreaterOrEqual", ">=", L.cmp),
  BinL("ExprBinaryShiftLeft", "<<", L.shift), BinL("ExprBinaryShiftRight", ">>", L.shift),
  BinL("ExprBinaryPlus", "+", L.add), BinL("ExprBinaryMinus", "-", L.add), BinL("ExprBinaryConcat", ".", L.add),
  BinL("ExprBinaryMul", "*", L.mul), BinL("ExprBinaryDiv", "/", L.mul), BinL("ExprBinaryMod", "%", L.mul),
  BinR("ExprBinaryPow", "**", L.pow) >>

Asg(kind, op) == V(kind, kind, {"expr"}, "both", L.assign, FALSE, [Var |-> Ch("var", 0), EqualTkn |-> Tk(op), Expr |-> Ch("expr", L.assign)])
Assigns == <<
  Asg("ExprAssign", "="), Asg("ExprAssignPlus", "+="), Asg("ExprAssignMinus", "-="), Asg("ExprAssignMul", "*="), Asg("ExprAssignDiv", "/="),
  Asg("ExprAssignConcat", ".="), Asg("ExprAssignMod", "%="), Asg("ExprAssignBitwiseAnd", "&="), Asg("ExprAssignBitwiseOr", "|="),
  Asg("ExprAssignBitwiseXor", "^="), Asg("ExprAssignShiftLeft", "<<="), Asg("ExprAssignShiftRight", ">>="), Asg("ExprAssignPow", "**="),
  Fam(Asg("ExprAssignCoalesce", "??="), "7"),
  V("ExprAssignReference", "ExprAssignReference", {"expr"}, "both", L.assign, FALSE,
    [Var |-> Ch("var", 0), EqualTkn |-> Tk("="), AmpersandTkn |-> Tk("&"), Expr |-> Ch("var", 0)]) >>

Cast(kind, cls) == V(kind, kind, {"expr"}, "both", L.unary, FALSE, [CastTkn |-> Tk(cls), Expr |-> Ch("expr", L.unary)])
Unaries == <<
  V("ExprBooleanNot", "ExprBooleanNot", {"expr"}, "both", L.not, FALSE, [ExclamationTkn |-> Tk("!"), Expr |-> Ch("expr", L.not)]),
  V("ExprBitwiseNot", "ExprBitwiseNot", {"expr"}, "both", L.unary, FALSE, [TildaTkn |-> Tk("~"), Expr |-> Ch("expr", L.unary)]),
  V("ExprUnaryMinus", "ExprUnaryMinus", {"expr"}, "both", L.unary, FALSE, [MinusTkn |-> Tk("-"), Expr |-> Ch("expr", L.unary)]),
  V("ExprUnaryPlus", "ExprUnaryPlus", {"expr"}, "both", L.unary, FALSE, [PlusTkn |-> Tk("+"), Expr |-> Ch("expr", L.unary)]),
  V("ExprErrorSuppress", "ExprErrorSuppress", {"expr"}, "both", L.unary, FALSE, [AtTkn |-> Tk("@"), Expr |-> Ch("expr", L.unary)]),
  Cast("ExprCastArray", "CAST:array"), Cast("ExprCastBool", "CAST:bool"), Cast("ExprCastDouble", "CAST:double"), Cast("ExprCastInt", "CAST:int"),
  Cast("ExprCastObject", "CAST:object"), Cast("ExprCastString", "CAST:string"), Cast("ExprCastUnset", "CAST:unset"),
  V("ExprPreInc", "ExprPreInc", {"expr"}, "both", L.unary, FALSE, [IncTkn |-> Tk("++"), Var |-> Ch("var", 0)]),
  V("ExprPreDec", "ExprPreDec", {"expr"}, "both", L.unary, FALSE, [DecTkn |-> Tk("--"), Var |-> Ch("var", 0)]),
  V("ExprPostInc", "ExprPostInc", {"expr"}, "both", L.unary, FALSE, [Var |-> Ch("var", 0), IncTkn |-> Tk("++")]),
  V("ExprPostDec", "ExprPostDec", {"expr"}, "both", L.unary, FALSE, [Var |-> Ch("var", 0), DecTkn |-> Tk("--")]),
  V("ExprClone", "ExprClone", {"expr"}, "both", L.clone, FALSE, [CloneTkn |-> Tk("clone"), Expr |-> Ch("expr", L.clone)]),
  \* include/require take everything to their right as operand ("include 'a' or die()" includes ('a' or die()))
  V("ExprPrint", "ExprPrint", {"expr"}, "both", L.print, FALSE, [PrintTkn |-> Tk("print"), Expr |-> Ch("expr", L.print)]),
  V("ExprInclude", "ExprInclude", {"expr"}, "both", 0, FALSE, [IncludeTkn |-> Tk("include"), Expr |-> Ch("expr", 0)]),
  V("ExprIncludeOnce", "ExprIncludeOnce", {"expr"}, "both", 0, FALSE, [IncludeOnceTkn |-> Tk("include_once"), Expr |-> Ch("expr", 0)]),
  V("ExprRequire", "ExprRequire", {"expr"}, "both", 0, FALSE, [RequireTkn |-> Tk("require"), Expr |-> Ch("expr", 0)]),
  V("ExprRequireOnce", "ExprRequireOnce", {"expr"}, "both", 0, FALSE, [RequireOnceTkn |-> Tk("require_once"), Expr |-> Ch("expr", 0)]),
  V("ExprTernary", "ExprTernary", {"expr"}, "both", L.ternary, FALSE,
    [Cond |-> Ch("expr", L.ternary), QuestionTkn |-> Tk("?"), IfTrue |-> Ch("expr", L.assign), ColonTkn |-> Tk(":"), IfFalse |-> Ch("expr", L.ternary + 1)]),
  V("ExprTernary/short", "ExprTernary", {"expr"}, "both", L.ternary, FALSE,
    [Cond |-> Ch("expr", L.ternary), QuestionTkn |-> TkG("?", "R"), ColonTkn |-> Tk(":"), IfFalse |-> Ch("expr", L.ternary + 1)]),
  V("ExprInstanceOf", "ExprInstanceOf", {"expr"}, "both", L.instof, FALSE,
    [Expr |-> Ch("expr", L.instof + 1), InstanceOfTkn |-> Tk("instanceof"), Class |-> Ch("classref", 0)]) >>

\* atoms: everything that needs no parentheses anywhere
Atoms == <<
  V("ExprVariable", "ExprVariable", {"expr", "var", "callee", "classref", "deref"}, "both", L.atom, TRUE, [Name |-> Ident("VAR")]),
  V("ScalarLnumber", "ScalarLnumber", {"expr", "scalar"}, "both", L.atom, TRUE, [NumberTkn |-> Tk("LNUM"), Value |-> Vl("NumberTkn")]),
  V("ScalarDnumber", "ScalarDnumber", {"expr", "scalar"}, "both", L.atom, TRUE, [NumberTkn |-> Tk("DNUM"), Value |-> Vl("NumberTkn")]),
  V("ScalarString", "ScalarString", {"expr", "scalar"}, "both", L.atom, TRUE, [StringTkn |-> Tk("SQSTR"), Value |-> Vl("StringTkn")]),
  V("ScalarString/dq", "ScalarString", {"expr", "scalar"}, "both", L.atom, TRUE, [StringTkn |-> Tk("DQSTR"), Value |-> Vl("StringTkn")]),
  V("ScalarMagicConstant", "ScalarMagicConstant", {"expr", "scalar"}, "both", L.atom, TRUE, [MagicConstTkn |-> Tk("MAGIC"), Value |-> Vl("MagicConstTkn")]),
  V("ExprConstFetch", "ExprConstFetch", {"expr", "scalar"}, "both", L.atom, TRUE, [Const |-> Ch("name", 0)]),
  V("ExprBrackets", "ExprBrackets", {"expr"}, "both", L.atom, FALSE,
    [OpenParenthesisTkn |-> Tk("("), Expr |-> Ch("expr", 0), CloseParenthesisTkn |-> Tk(")")]),
  V("ExprArrayDimFetch", "ExprArrayDimFetch", {"expr", "var", "deref", "callee"}, "both", L.atom, FALSE,
    [Var |-> Ch("deref", 0), OpenBracketTkn |-> Tk("["), Dim |-> Ch("expr", 0), CloseBracketTkn |-> Tk("]")]),
  V("ExprArrayDimFetch/empty", "ExprArrayDimFetch", {"var"}, "both", L.atom, FALSE,
    [Var |-> Ch("deref", 0), OpenBracketTkn |-> Tk("["), CloseBracketTkn |-> Tk("]")]),
  V("ExprPropertyFetch", "ExprPropertyFetch", {"expr", "var", "deref", "callee"}, "both", L.atom, FALSE,
    [Var |-> Ch("deref", 0), ObjectOperatorTkn |-> Tk("->"), Prop |-> Ident("IDENT")]),
  V("ExprMethodCall", "ExprMethodCall", {"expr", "deref"}, "both", L.atom, FALSE,
    [Var |-> Ch("deref", 0), ObjectOperatorTkn |-> Tk("->"), Method |-> Ident("IDENT"), OpenParenthesisTkn |-> Tk("("), Args |-> Args, CloseParenthesisTkn |-> Tk(")")]),
  V("ExprFunctionCall", "ExprFunctionCall", {"expr", "deref"}, "both", L.atom, FALSE,
    [Function |-> Ch("name", 0), OpenParenthesisTkn |-> Tk("("), Args |-> Args, CloseParenthesisTkn |-> Tk(")")]),
  V("ExprFunctionCall/var", "ExprFunctionCall", {"expr", "deref"}, "both", L.atom, FALSE,
    [Function |-> SimpleVar, OpenParenthesisTkn |-> Tk("("), Args |-> Args, CloseParenthesisTkn |-> Tk(")")]),
  V("ExprStaticCall", "ExprStaticCall", {"expr", "deref"}, "both", L.atom, FALSE,
    [Class |-> Ch("name", 0), DoubleColonTkn |-> Tk("::"), Call |-> Ident("IDENT"), OpenParenthesisTkn |-> Tk("("), Args |-> Args, CloseParenthesisTkn |-> Tk(")")]),
  V("ExprStaticPropertyFetch", "ExprStaticPropertyFetch", {"expr", "var"}, "both", L.atom, FALSE,
    [Class |-> Ch("name", 0), DoubleColonTkn |-> Tk("::"), Prop |-> SimpleVar]),
  \* A::$b[0]: PHP 7 (uniform variable syntax) groups (A::$b)[0]; PHP 5's grammar attaches the dimension to $b
  V("ExprStaticPropertyFetch/base", "ExprStaticPropertyFetch", {"deref"}, "7g", L.atom, FALSE,
    [Class |-> Ch("name", 0), DoubleColonTkn |-> Tk("::"), Prop |-> SimpleVar]),
  V("ExprClassConstFetch", "ExprClassConstFetch", {"expr", "scalar"}, "both", L.atom, FALSE,
    [Class |-> Ch("name", 0), DoubleColonTkn |-> Tk("::"), Const |-> Ident("IDENT")]),
  V("ExprNew", "ExprNew", {"expr"}, "both", L.atom, FALSE,
    [NewTkn |-> Tk("new"), Class |-> Ch("classref", 0), OpenParenthesisTkn |-> Tk("("), Args |-> Args, CloseParenthesisTkn |-> Tk(")")]),
  V("ExprNew/noargs", "ExprNew", {"expr"}, "both", L.atom, FALSE, [NewTkn |-> Tk("new"), Class |-> Ch("classref", 0)]),
  V("ExprArray", "ExprArray", {"expr"}, "both", L.atom, TRUE,
    [ArrayTkn |-> Tk("array"), OpenBracketTkn |-> Tk("("), Items |-> Ls("arrayitem", 0, 2, "SeparatorTkns", ",", "no"), CloseBracketTkn |-> Tk(")")]),
  V("ExprArray/short", "ExprArray", {"expr", "litderef"}, "both", L.atom, TRUE,
    [OpenBracketTkn |-> Tk("["), Items |-> Ls("arrayitem", 0, 2, "SeparatorTkns", ",", "no"), CloseBracketTkn |-> Tk("]")]),
  \* arrays in constant-expression contexts (defaults, static initialisers): PHP 5 restricts them to static scalars
  V("ExprArray/static", "ExprArray", {"scalar"}, "both", L.atom, TRUE,
    [ArrayTkn |-> Tk("array"), OpenBracketTkn |-> Tk("("), Items |-> Ls("staticitem", 0, 2, "SeparatorTkns", ",", "no"), CloseBracketTkn |-> Tk(")")]),
  V("ExprArray/staticshort", "ExprArray", {"scalar"}, "both", L.atom, TRUE,
    [OpenBracketTkn |-> Tk("["), Items |-> Ls("staticitem", 0, 2, "SeparatorTkns", ",", "no"), CloseBracketTkn |-> Tk("]")]),
  V("ExprArrayItem/static", "ExprArrayItem", {"staticitem"}, "both", 0, FALSE, [Val |-> Ch("scalar", 0)]),
  V("ExprArrayItem/statickey", "ExprArrayItem", {"staticitem"}, "both", 0, FALSE, [Key |-> Ch("scalar", 0), DoubleArrowTkn |-> Tk("=>"), Val |-> Ch("scalar", 0)]),
  \* dereferencing a literal: an expression, not a variable ([1,2][0], "abc"[0])
  V("ExprArrayDimFetch/lit", "ExprArrayDimFetch", {"expr"}, "both", L.atom, FALSE,
    [Var |-> Ch("litderef", 0), OpenBracketTkn |-> Tk("["), Dim |-> Ch("expr", 0), CloseBracketTkn |-> Tk("]")]),
  V("ScalarString/litderef", "ScalarString", {"litderef"}, "both", L.atom, TRUE, [StringTkn |-> Tk("SQSTR"), Value |-> Vl("StringTkn")]),
  V("ExprIsset", "ExprIsset", {"expr"}, "both", L.atom, FALSE,
    [IssetTkn |-> Tk("isset"), OpenParenthesisTkn |-> Tk("("), Vars |-> LsM("var", 0, 1, 2, "SeparatorTkns", ",", "no"), CloseParenthesisTkn |-> Tk(")")]),
  V("ExprEmpty", "ExprEmpty", {"expr"}, "both", L.atom, FALSE,
    [EmptyTkn |-> Tk("empty"), OpenParenthesisTkn |-> Tk("("), Expr |-> Ch("expr", 0), CloseParenthesisTkn |-> Tk(")")]),
  V("ExprEval", "ExprEval", {"expr"}, "both", L.atom, FALSE,
    [EvalTkn |-> Tk("eval"), OpenParenthesisTkn |-> Tk("("), Expr |-> Ch("expr", 0), CloseParenthesisTkn |-> Tk(")")]),
  V("ExprExit", "ExprExit", {"expr"}, "both", L.atom, TRUE, [ExitTkn |-> Tk("EXIT")]),
  V("ExprExit/parens", "ExprExit", {"expr"}, "both", L.atom, TRUE, [ExitTkn |-> Tk("EXIT"), OpenParenthesisTkn |-> Tk("("), CloseParenthesisTkn |-> Tk(")")]),
  V("ExprExit/expr", "ExprExit", {"expr"}, "both", L.atom, FALSE,
    [ExitTkn |-> Tk("EXIT"), OpenParenthesisTkn |-> Tk("("), Expr |-> Ch("expr", 0), CloseParenthesisTkn |-> Tk(")")]),
  V("ExprClosure", "ExprClosure", {"expr"}, "both", L.atom, TRUE,
    [FunctionTkn |-> Tk("function"), OpenParenthesisTkn |-> Tk("("), Params |-> Ls("param", 0, 2, "SeparatorTkns", ",", "no"), CloseParenthesisTkn |-> Tk(")"),
     OpenCurlyBracketTkn |-> Tk("{"), Stmts |-> Ls("inner", 0, 2, "", "", "no"), CloseCurlyBracketTkn |-> Tk("}")]),
  V("ExprClosure/use", "ExprClosure", {"expr"}, "both", L.atom, FALSE,
    [StaticTkn |-> Tk("static"), FunctionTkn |-> Tk("function"), AmpersandTkn |-> Tk("&"), OpenParenthesisTkn |-> Tk("("),
     Params |-> Ls("param", 0, 1, "SeparatorTkns", ",", "no"), CloseParenthesisTkn |-> Tk(")"),
     UseTkn |-> Tk("use"), UseOpenParenthesisTkn |-> Tk("("), Uses |-> Ls("closureuse", 1, 2, "UseSeparatorTkns", ",", "no"), UseCloseParenthesisTkn |-> Tk(")"),
     OpenCurlyBracketTkn |-> Tk("{"), Stmts |-> Ls("inner", 0, 1, "", "", "no"), CloseCurlyBracketTkn |-> Tk("}")]),
  V("ExprShellExec", "ExprShellExec", {"expr"}, "both", L.atom, TRUE, [OpenBacktickTkn |-> TkG("`", "R"), CloseBacktickTkn |-> TkG("`", "L")]),
  V("ExprShellExec/text", "ExprShellExec", {"expr"}, "both", L.atom, TRUE,
    [OpenBacktickTkn |-> TkG("`", "R"), Parts |-> Sq(<<StrText>>), CloseBacktickTkn |-> TkG("`", "L")]),
  V("ExprShellExec/var", "ExprShellExec", {"expr"}, "both", L.atom, TRUE,
    [OpenBacktickTkn |-> TkG("`", "R"), Parts |-> Sq(<<StrText, StrVar, StrText>>), CloseBacktickTkn |-> TkG("`", "L")]),
  V("ScalarEncapsed/var", "ScalarEncapsed", {"expr"}, "both", L.atom, TRUE,
    [OpenQuoteTkn |-> TkG("\"", "R"), Parts |-> Sq(<<StrVar>>), CloseQuoteTkn |-> TkG("\"", "L")]),
  V("ScalarEncapsed/textvar", "ScalarEncapsed", {"expr"}, "both", L.atom, TRUE,
    [OpenQuoteTkn |-> TkG("\"", "R"), Parts |-> Sq(<<StrText, StrVar>>), CloseQuoteTkn |-> TkG("\"", "L")]),
  V("ScalarEncapsed/vartextvar", "ScalarEncapsed", {"expr"}, "both", L.atom, TRUE,
    [OpenQuoteTkn |-> TkG("\"", "R"), Parts |-> Sq(<<StrVar, StrText, StrVar, StrVar>>), CloseQuoteTkn |-> TkG("\"", "L")]),
  V("ScalarEncapsed/brackets", "ScalarEncapsed", {"expr"}, "both", L.atom, FALSE,
    [OpenQuoteTkn |-> TkG("\"", "R"), Parts |-> Sq(<<StrText, Ch("strbrackets", 0), StrText>>), CloseQuoteTkn |-> TkG("\"", "L")]),
  V("ScalarEncapsed/brackets2", "ScalarEncapsed", {"expr"}, "both", L.atom, FALSE,
    [OpenQuoteTkn |-> TkG("\"", "R"), Parts |-> Sq(<<Ch("strbrackets", 0), StrVar>>), CloseQuoteTkn |-> TkG("\"", "L")]) >>

Others == <<
  V("Argument", "Argument", {"arg"}, "both", 0, FALSE, [Expr |-> Ch("expr", L.yield)]),
  V("Argument/variadic", "Argument", {"arg"}, "both", 0, FALSE, [VariadicTkn |-> Tk("..."), Expr |-> Ch("expr", L.yield)]),
  V("ExprArrayItem", "ExprArrayItem", {"arrayitem"}, "both", 0, FALSE, [Val |-> Ch("expr", L.yield)]),
  V("ExprArrayItem/key", "ExprArrayItem", {"arrayitem"}, "both", 0, FALSE, [Key |-> Ch("expr", L.yield), DoubleArrowTkn |-> Tk("=>"), Val |-> Ch("expr", L.yield)]),
  V("ExprArrayItem/ref", "ExprArrayItem", {"arrayitem"}, "both", 0, FALSE, [AmpersandTkn |-> Tk("&"), Val |-> Ch("var", 0)]),
  V("ExprArrayItem/keyref", "ExprArrayItem", {"arrayitem"}, "both", 0, FALSE,
    [Key |-> Ch("expr", L.yield), DoubleArrowTkn |-> Tk("=>"), AmpersandTkn |-> Tk("&"), Val |-> Ch("var", 0)]),
  V("ExprClosureUse", "ExprClosureUse", {"closureuse"}, "both", 0, TRUE, [Var |-> SimpleVar]),
  V("ExprClosureUse/ref", "ExprClosureUse", {"closureuse"}, "both", 0, TRUE, [AmpersandTkn |-> Tk("&"), Var |-> SimpleVar]),
  V("Parameter", "Parameter", {"param"}, "both", 0, TRUE, [Var |-> SimpleVar]),
  V("Parameter/typed", "Parameter", {"param"}, "both", 0, FALSE, [Type |-> Ch("type", 0), Var |-> SimpleVar]),
  V("Parameter/ref", "Parameter", {"param"}, "both", 0, TRUE, [AmpersandTkn |-> Tk("&"), Var |-> SimpleVar]),
  V("Parameter/variadic", "Parameter", {"param"}, "both", 0, TRUE, [VariadicTkn |-> Tk("..."), Var |-> SimpleVar]),
  V("Parameter/default", "Parameter", {"param"}, "both", 0, FALSE, [Var |-> SimpleVar, EqualTkn |-> Tk("="), DefaultValue |-> Ch("scalar", 0)]),
  V("Parameter/full", "Parameter", {"param"}, "both", 0, FALSE,
    [Type |-> Ch("type", 0), AmpersandTkn |-> Tk("&"), Var |-> SimpleVar, EqualTkn |-> Tk("="), DefaultValue |-> Ch("scalar", 0)]),
  V("Name", "Name", {"name", "classref", "type"}, "both", 0, TRUE, [Parts |-> Ls("namepart", 1, 2, "SeparatorTkns", "\\", "no")]),
  V("NameFullyQualified", "NameFullyQualified", {"name", "classref", "type"}, "both", 0, TRUE,
    [NsSeparatorTkn |-> TkG("\\", "R"), Parts |-> Ls("namepart", 1, 2, "SeparatorTkns", "\\", "no")]),
  V("NameRelative", "NameRelative", {"name", "classref", "type"}, "both", 0, TRUE,
    [NsTkn |-> TkG("namespace", "R"), NsSeparatorTkn |-> TkG("\\", "R"), Parts |-> Ls("namepart", 1, 2, "SeparatorTkns", "\\", "no")]),
  V("NamePart", "NamePart", {"namepart"}, "both", 0, TRUE, [StringTkn |-> Tk("IDENT"), Value |-> Vl("StringTkn")]),
  V("Identifier/arraytype", "Identifier", {"type"}, "both", 0, TRUE, [IdentifierTkn |-> Tk("array"), Value |-> Vl("IdentifierTkn")]),
  V("Identifier/callabletype", "Identifier", {"type"}, "both", 0, TRUE, [IdentifierTkn |-> Tk("callable"), Value |-> Vl("IdentifierTkn")]),
  V("Identifier/static", "Identifier", {"classref"}, "both", 0, TRUE, [IdentifierTkn |-> Tk("static"), Value |-> Vl("IdentifierTkn")]),
  V("Nullable", "Nullable", {"type"}, "7", 0, FALSE, [QuestionTkn |-> Tk("?"), Expr |-> Ch("name", 0)]),
  \* "{$var ...}" inside an interpolated string
  V("ScalarEncapsedStringBrackets", "ScalarEncapsedStringBrackets", {"strbrackets"}, "both", 0, FALSE,
    [OpenCurlyBracketTkn |-> TkG("{", "LR"), Var |-> Ch("var", 0), CloseCurlyBracketTkn |-> TkG("}", "R")])
>>

\* ---------------------------------------------------------------- statements

Block == Nd("StmtStmtList", [OpenCurlyBracketTkn |-> Tk("{"), Stmts |-> Ls("inner", 0, 2, "", "", "no"), CloseCurlyBracketTkn |-> Tk("}")])
Bare  == Nd("StmtStmtList", [Stmts |-> Ls("inner", 0, 2, "", "", "no")])
\* a body that is followed by elseif / else of the enclosing alternative-syntax if must not end in an open "if"
BareClosed == Nd("StmtStmtList", [Stmts |-> Ls("closed", 0, 2, "", "", "no")])

Statements == <<
  V("StmtExpression", "StmtExpression", {"stmt", "closed"}, "both", 0, FALSE, [Expr |-> Ch("expr", 0), SemiColonTkn |-> Tk(";")]),
  V("StmtEcho", "StmtEcho", {"stmt", "closed"}, "both", 0, FALSE,
    [EchoTkn |-> Tk("echo"), Exprs |-> LsM("expr", L.yield, 1, 2, "SeparatorTkns", ",", "no"), SemiColonTkn |-> Tk(";")]),
  V("StmtNop", "StmtNop", {"stmt", "closed"}, "both", 0, TRUE, [SemiColonTkn |-> Tk(";")]),
  V("StmtStmtList", "StmtStmtList", {"stmt", "closed"}, "both", 0, TRUE,
    [OpenCurlyBracketTkn |-> Tk("{"), Stmts |-> Ls("inner", 0, 2, "", "", "no"), CloseCurlyBracketTkn |-> Tk("}")]),
  V("StmtReturn", "StmtReturn", {"stmt", "closed"}, "both", 0, TRUE, [ReturnTkn |-> Tk("return"), SemiColonTkn |-> Tk(";")]),
  V("StmtReturn/expr", "StmtReturn", {"stmt", "closed"}, "both", 0, FALSE, [ReturnTkn |-> Tk("return"), Expr |-> Ch("expr", 0), SemiColonTkn |-> Tk(";")]),
  V("StmtBreak", "StmtBreak", {"stmt", "closed"}, "both", 0, TRUE, [BreakTkn |-> Tk("break"), SemiColonTkn |-> Tk(";")]),
  V("StmtBreak/expr", "StmtBreak", {"stmt", "closed"}, "both", 0, TRUE,
    [BreakTkn |-> Tk("break"), Expr |-> Nd("ScalarLnumber", [NumberTkn |-> Tk("LNUM"), Value |-> Vl("NumberTkn")]), SemiColonTkn |-> Tk(";")]),
  V("StmtContinue", "StmtContinue", {"stmt", "closed"}, "both", 0, TRUE, [ContinueTkn |-> Tk("continue"), SemiColonTkn |-> Tk(";")]),
  V("StmtThrow", "StmtThrow", {"stmt", "closed"}, "both", 0, FALSE, [ThrowTkn |-> Tk("throw"), Expr |-> Ch("expr", 0), SemiColonTkn |-> Tk(";")]),
  V("StmtGlobal", "StmtGlobal", {"stmt", "closed"}, "both", 0, TRUE,
    [GlobalTkn |-> Tk("global"), Vars |-> Ls("simplevar", 1, 2, "SeparatorTkns", ",", "no"), SemiColonTkn |-> Tk(";")]),
  V("simplevar", "ExprVariable", {"simplevar"}, "both", 0, TRUE, [Name |-> Ident("VAR")]),
  V("StmtStatic", "StmtStatic", {"stmt", "closed"}, "both", 0, TRUE,
    [StaticTkn |-> Tk("static"), Vars |-> Ls("staticvar", 1, 2, "SeparatorTkns", ",", "no"), SemiColonTkn |-> Tk(";")]),
  V("StmtStaticVar", "StmtStaticVar", {"staticvar"}, "both", 0, TRUE, [Var |-> SimpleVar]),
  V("StmtStaticVar/init", "StmtStaticVar", {"staticvar"}, "both", 0, FALSE, [Var |-> SimpleVar, EqualTkn |-> Tk("="), Expr |-> Ch("scalar", 0)]),
  V("StmtUnset", "StmtUnset", {"stmt", "closed"}, "both", 0, FALSE,
    [UnsetTkn |-> Tk("unset"), OpenParenthesisTkn |-> Tk("("), Vars |-> LsM("var", 0, 1, 2, "SeparatorTkns", ",", "no"), CloseParenthesisTkn |-> Tk(")"), SemiColonTkn |-> Tk(";")]),
  V("StmtGoto", "StmtGoto", {"stmt", "closed"}, "both", 0, TRUE, [GotoTkn |-> Tk("goto"), Label |-> Ident("IDENT"), SemiColonTkn |-> Tk(";")]),
  V("StmtLabel", "StmtLabel", {"stmt", "closed"}, "both", 0, TRUE, [Name |-> Ident("IDENT"), ColonTkn |-> Tk(":")]),
  V("StmtIf", "StmtIf", {"stmt"}, "both", 0, FALSE,
    [IfTkn |-> Tk("if"), OpenParenthesisTkn |-> Tk("("), Cond |-> Ch("expr", 0), CloseParenthesisTkn |-> Tk(")"), Stmt |-> Ch("stmt", 0)]),
  V("StmtIf/else", "StmtIf", {"stmt", "closed"}, "both", 0, FALSE,
    [IfTkn |-> Tk("if"), OpenParenthesisTkn |-> Tk("("), Cond |-> Ch("expr", 0), CloseParenthesisTkn |-> Tk(")"), Stmt |-> Ch("closed", 0),
     ElseIf |-> Ls("elseif", 0, 2, "", "", "no"), Else |-> Ch("else", 0)]),
  V("StmtIf/elseif", "StmtIf", {"stmt"}, "both", 0, FALSE,
    [IfTkn |-> Tk("if"), OpenParenthesisTkn |-> Tk("("), Cond |-> Ch("expr", 0), CloseParenthesisTkn |-> Tk(")"), Stmt |-> Ch("closed", 0),
     ElseIf |-> Ls("elseif_last", 1, 1, "", "", "no")]),
  V("StmtElseIf", "StmtElseIf", {"elseif"}, "both", 0, FALSE,
    [ElseIfTkn |-> Tk("elseif"), OpenParenthesisTkn |-> Tk("("), Cond |-> Ch("expr", 0), CloseParenthesisTkn |-> Tk(")"), Stmt |-> Ch("closed", 0)]),
  V("StmtElseIf/last", "StmtElseIf", {"elseif_last"}, "both", 0, FALSE,
    [ElseIfTkn |-> Tk("elseif"), OpenParenthesisTkn |-> Tk("("), Cond |-> Ch("expr", 0), CloseParenthesisTkn |-> Tk(")"), Stmt |-> Ch("stmt", 0)]),
  V("StmtElse", "StmtElse", {"else"}, "both", 0, FALSE, [ElseTkn |-> Tk("else"), Stmt |-> Ch("closed", 0)]),
  V("StmtIf/alt", "StmtIf", {"stmt", "closed"}, "both", 0, FALSE,
    [IfTkn |-> Tk("if"), OpenParenthesisTkn |-> Tk("("), Cond |-> Ch("expr", 0), CloseParenthesisTkn |-> Tk(")"), ColonTkn |-> Tk(":"), Stmt |-> BareClosed,
     ElseIf |-> Ls("elseif_alt", 0, 2, "", "", "no"), Else |-> Ch("else_alt", 0), EndIfTkn |-> Tk("endif"), SemiColonTkn |-> Tk(";")]),
  V("StmtIf/alt_noelse", "StmtIf", {"stmt", "closed"}, "both", 0, TRUE,
    [IfTkn |-> Tk("if"), OpenParenthesisTkn |-> Tk("("), Cond |-> SimpleVar, CloseParenthesisTkn |-> Tk(")"), ColonTkn |-> Tk(":"), Stmt |-> Bare,
     EndIfTkn |-> Tk("endif"), SemiColonTkn |-> Tk(";")]),
  V("StmtElseIf/alt", "StmtElseIf", {"elseif_alt"}, "both", 0, FALSE,
    [ElseIfTkn |-> Tk("elseif"), OpenParenthesisTkn |-> Tk("("), Cond |-> Ch("expr", 0), CloseParenthesisTkn |-> Tk(")"), ColonTkn |-> Tk(":"), Stmt |-> BareClosed]),
  V("StmtElse/alt", "StmtElse", {"else_alt"}, "both", 0, TRUE, [ElseTkn |-> Tk("else"), ColonTkn |-> Tk(":"), Stmt |-> Bare]),
  V("StmtWhile", "StmtWhile", {"stmt"}, "both", 0, FALSE,
    [WhileTkn |-> Tk("while"), OpenParenthesisTkn |-> Tk("("), Cond |-> Ch("expr", 0), CloseParenthesisTkn |-> Tk(")"), Stmt |-> Ch("stmt", 0)]),
  V("StmtWhile/alt", "StmtWhile", {"stmt", "closed"}, "both", 0, FALSE,
    [WhileTkn |-> Tk("while"), OpenParenthesisTkn |-> Tk("("), Cond |-> Ch("expr", 0), CloseParenthesisTkn |-> Tk(")"), ColonTkn |-> Tk(":"), Stmt |-> Bare,
     EndWhileTkn |-> Tk("endwhile"), SemiColonTkn |-> Tk(";")]),
  V("StmtDo", "StmtDo", {"stmt", "closed"}, "both", 0, FALSE,
    [DoTkn |-> Tk("do"), Stmt |-> Ch("closed", 0), WhileTkn |-> Tk("while"), OpenParenthesisTkn |-> Tk("("), Cond |-> Ch("expr", 0), CloseParenthesisTkn |-> Tk(")"), SemiColonTkn |-> Tk(";")]),
  V("StmtFor", "StmtFor", {"stmt"}, "both", 0, FALSE,
    [ForTkn |-> Tk("for"), OpenParenthesisTkn |-> Tk("("), Init |-> LsM("expr", L.yield, 0, 2, "InitSeparatorTkns", ",", "no"), InitSemiColonTkn |-> Tk(";"),
     Cond |-> LsM("expr", L.yield, 0, 2, "CondSeparatorTkns", ",", "no"), CondSemiColonTkn |-> Tk(";"),
     Loop |-> LsM("expr", L.yield, 0, 2, "LoopSeparatorTkns", ",", "no"), CloseParenthesisTkn |-> Tk(")"), Stmt |-> Ch("stmt", 0)]),
  V("StmtFor/alt", "StmtFor", {"stmt", "closed"}, "both", 0, TRUE,
    [ForTkn |-> Tk("for"), OpenParenthesisTkn |-> Tk("("), InitSemiColonTkn |-> Tk(";"), CondSemiColonTkn |-> Tk(";"), CloseParenthesisTkn |-> Tk(")"),
     ColonTkn |-> Tk(":"), Stmt |-> Bare, EndForTkn |-> Tk("endfor"), SemiColonTkn |-> Tk(";")]),
  V("StmtForeach", "StmtForeach", {"stmt"}, "both", 0, FALSE,
    [ForeachTkn |-> Tk("foreach"), OpenParenthesisTkn |-> Tk("("), Expr |-> Ch("expr", L.yield), AsTkn |-> Tk("as"), Var |-> Ch("var", 0),
     CloseParenthesisTkn |-> Tk(")"), Stmt |-> Ch("stmt", 0)]),
  V("StmtForeach/key", "StmtForeach", {"stmt"}, "both", 0, FALSE,
    [ForeachTkn |-> Tk("foreach"), OpenParenthesisTkn |-> Tk("("), Expr |-> Ch("expr", L.yield), AsTkn |-> Tk("as"), Key |-> Ch("var", 0), DoubleArrowTkn |-> Tk("=>"),
     AmpersandTkn |-> Tk("&"), Var |-> Ch("var", 0), CloseParenthesisTkn |-> Tk(")"), Stmt |-> Ch("stmt", 0)]),
  V("StmtForeach/alt", "StmtForeach", {"stmt", "closed"}, "both", 0, FALSE,
    [ForeachTkn |-> Tk("foreach"), OpenParenthesisTkn |-> Tk("("), Expr |-> Ch("expr", L.yield), AsTkn |-> Tk("as"), Var |-> Ch("var", 0),
     CloseParenthesisTkn |-> Tk(")"), ColonTkn |-> Tk(":"), Stmt |-> Bare, EndForeachTkn |-> Tk("endforeach"), SemiColonTkn |-> Tk(";")]),
  V("StmtSwitch", "StmtSwitch", {"stmt", "closed"}, "both", 0, FALSE,
    [SwitchTkn |-> Tk("switch"), OpenParenthesisTkn |-> Tk("("), Cond |-> Ch("expr", 0), CloseParenthesisTkn |-> Tk(")"),
     OpenCurlyBracketTkn |-> Tk("{"), Cases |-> Ls("case", 0, 3, "", "", "no"), CloseCurlyBracketTkn |-> Tk("}")]),
  V("StmtSwitch/alt", "StmtSwitch", {"stmt", "closed"}, "both", 0, FALSE,
    [SwitchTkn |-> Tk("switch"), OpenParenthesisTkn |-> Tk("("), Cond |-> Ch("expr", 0), CloseParenthesisTkn |-> Tk(")"),
     ColonTkn |-> Tk(":"), Cases |-> Ls("case", 0, 2, "", "", "no"), EndSwitchTkn |-> Tk("endswitch"), SemiColonTkn |-> Tk(";")]),
  V("StmtSwitch/leadsemi", "StmtSwitch", {"stmt", "closed"}, "both", 0, FALSE,
    [SwitchTkn |-> Tk("switch"), OpenParenthesisTkn |-> Tk("("), Cond |-> Ch("expr", 0), CloseParenthesisTkn |-> Tk(")"),
     OpenCurlyBracketTkn |-> Tk("{"), CaseSeparatorTkn |-> Tk(";"), Cases |-> Ls("case", 0, 2, "", "", "no"), CloseCurlyBracketTkn |-> Tk("}")]),
  V("StmtCase", "StmtCase", {"case"}, "both", 0, FALSE,
    [CaseTkn |-> Tk("case"), Cond |-> Ch("expr", 0), CaseSeparatorTkn |-> Tk(":"), Stmts |-> Ls("inner", 0, 2, "", "", "no")]),
  V("StmtCase/semi", "StmtCase", {"case"}, "both", 0, FALSE,
    [CaseTkn |-> Tk("case"), Cond |-> Ch("scalar", 0), CaseSeparatorTkn |-> Tk(";"), Stmts |-> Ls("inner", 0, 1, "", "", "no")]),
  V("StmtDefault", "StmtDefault", {"case"}, "both", 0, TRUE, [DefaultTkn |-> Tk("default"), CaseSeparatorTkn |-> Tk(":"), Stmts |-> Ls("inner", 0, 2, "", "", "no")]),
  V("StmtTry", "StmtTry", {"stmt", "closed"}, "both", 0, FALSE,
    [TryTkn |-> Tk("try"), OpenCurlyBracketTkn |-> Tk("{"), Stmts |-> Ls("inner", 0, 2, "", "", "no"), CloseCurlyBracketTkn |-> Tk("}"),
     Catches |-> Ls("catch", 1, 2, "", "", "no")]),
  V("StmtTry/finally", "StmtTry", {"stmt", "closed"}, "both", 0, FALSE,
    [TryTkn |-> Tk("try"), OpenCurlyBracketTkn |-> Tk("{"), Stmts |-> Ls("inner", 0, 1, "", "", "no"), CloseCurlyBracketTkn |-> Tk("}"),
     Catches |-> Ls("catch", 0, 1, "", "", "no"), Finally |-> Ch("finally", 0)]),
  V("StmtCatch", "StmtCatch", {"catch"}, "both", 0, TRUE,
    [CatchTkn |-> Tk("catch"), OpenParenthesisTkn |-> Tk("("), Types |-> Ls("name", 1, 1, "SeparatorTkns", "|", "no"), Var |-> SimpleVar, CloseParenthesisTkn |-> Tk(")"),
     OpenCurlyBracketTkn |-> Tk("{"), Stmts |-> Ls("inner", 0, 2, "", "", "no"), CloseCurlyBracketTkn |-> Tk("}")]),
  V("StmtCatch/multi", "StmtCatch", {"catch"}, "7", 0, TRUE,
    [CatchTkn |-> Tk("catch"), OpenParenthesisTkn |-> Tk("("), Types |-> Ls("name", 2, 3, "SeparatorTkns", "|", "no"), Var |-> SimpleVar, CloseParenthesisTkn |-> Tk(")"),
     OpenCurlyBracketTkn |-> Tk("{"), Stmts |-> Ls("inner", 0, 1, "", "", "no"), CloseCurlyBracketTkn |-> Tk("}")]),
  V("StmtFinally", "StmtFinally", {"finally"}, "both", 0, TRUE,
    [FinallyTkn |-> Tk("finally"), OpenCurlyBracketTkn |-> Tk("{"), Stmts |-> Ls("inner", 0, 2, "", "", "no"), CloseCurlyBracketTkn |-> Tk("}")]),
  V("StmtFunction", "StmtFunction", {"inner"}, "both", 0, TRUE,
    [FunctionTkn |-> Tk("function"), Name |-> Ident("IDENT"), OpenParenthesisTkn |-> Tk("("), Params |-> Ls("param", 0, 2, "SeparatorTkns", ",", "no"),
     CloseParenthesisTkn |-> Tk(")"), OpenCurlyBracketTkn |-> Tk("{"), Stmts |-> Ls("inner", 0, 2, "", "", "no"), CloseCurlyBracketTkn |-> Tk("}")]),
  V("StmtFunction/ref", "StmtFunction", {"inner"}, "both", 0, TRUE,
    [FunctionTkn |-> Tk("function"), AmpersandTkn |-> Tk("&"), Name |-> Ident("IDENT"), OpenParenthesisTkn |-> Tk("("), Params |-> Ls("param", 0, 1, "SeparatorTkns", ",", "no"),
     CloseParenthesisTkn |-> Tk(")"), OpenCurlyBracketTkn |-> Tk("{"), Stmts |-> Ls("inner", 0, 1, "", "", "no"), CloseCurlyBracketTkn |-> Tk("}")]),
  V("StmtFunction/rettype", "StmtFunction", {"inner"}, "7", 0, FALSE,
    [FunctionTkn |-> Tk("function"), Name |-> Ident("IDENT"), OpenParenthesisTkn |-> Tk("("), Params |-> Ls("param", 0, 1, "SeparatorTkns", ",", "no"),
     CloseParenthesisTkn |-> Tk(")"), ColonTkn |-> Tk(":"), ReturnType |-> Ch("type", 0),
     OpenCurlyBracketTkn |-> Tk("{"), Stmts |-> Ls("inner", 0, 1, "", "", "no"), CloseCurlyBracketTkn |-> Tk("}")])
>>

Variants == Binaries \o Assigns \o Unaries \o Atoms \o Others \o Statements

\* the root: a file is a statement list (the harness prefixes the open tag as free-floating text of the first token)
RootFill == [Stmts |-> Ls("top", 0, 3, "", "", "no")]

NV == Len(Variants)
\* inner statements = statements + function/class declarations; top statements = inner + namespace/use/const/halt
InCat(v, c) == \/ c \in Variants[v].cats
               \/ (c = "inner" /\ "stmt" \in Variants[v].cats)
               \/ (c = "top" /\ ({"stmt", "inner"} \cap Variants[v].cats) # {})
=============================================================================
