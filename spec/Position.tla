------------------------------ MODULE Position ------------------------------
(* internal/position.Builder: the thirteen New*Position combinators that the    *)
(* grammar actions use to give a node its span (C05).  A self-contained case    *)
(* analysis: every combinator takes tokens, nodes and node lists and yields     *)
(* [start line, end line, start offset, end offset], where an argument that      *)
(* cannot supply a boundary - a nil node, a node without a position, a nil or    *)
(* empty list - supplies -1 (the documented convention: -1 stands for a boundary *)
(* formed by an empty statement list).                                           *)
(*                                                                               *)
(* The combinators are written here from their NAMES (which argument is the      *)
(* first, which the last), not from the Go text.  TLC enumerates every           *)
(* combinator x every shape of its arguments over a small universe of offsets    *)
(* (one state per case), checks the properties below on the definitions, and     *)
(* prints each case; the harness runs every case on the real Builder (through    *)
(* the verif shim) and compares the four numbers, and checks that the result is  *)
(* a fresh Position object (no argument's position is handed out or changed).    *)
EXTENDS Integers, Sequences, FiniteSets, TLC, Json

CONSTANT MaxOff        \* offsets 0 .. MaxOff; the line of an offset is 1 + offset \div 2 (two bytes per line)

Offs == 0 .. MaxOff
LineOf(p) == 1 + (p \div 2)
Span(s, e) == [sl |-> LineOf(s), el |-> LineOf(e), sp |-> s, ep |-> e]
ProperSpans == UNION {{Span(s, e) : e \in s .. MaxOff} : s \in Offs}

\* argument shapes
TokSet == {[k |-> "tok", s |-> x] : x \in ProperSpans}
NodeSet == {[k |-> "nil"], [k |-> "nopos"]} \cup {[k |-> "pos", s |-> x] : x \in ProperSpans}
ListSet == {[k |-> "nillist"], [k |-> "list", items |-> <<>>]}
           \cup {[k |-> "list", items |-> <<a>>] : a \in NodeSet}
           \cup {[k |-> "list", items |-> <<a, b>>] : a \in NodeSet, b \in NodeSet}
           \cup {[k |-> "list", items |-> <<a, [k |-> "nopos"], b>>] : a \in NodeSet, b \in NodeSet}    \* the middle item never matters

None == <<-1, -1>>            \* <<line, offset>> of a boundary that does not exist
StartOfNode(n) == IF n.k = "pos" THEN <<n.s.sl, n.s.sp>> ELSE None
EndOfNode(n)   == IF n.k = "pos" THEN <<n.s.el, n.s.ep>> ELSE None
StartOfList(l) == IF l.k = "nillist" \/ l.items = <<>> THEN None ELSE StartOfNode(l.items[1])
EndOfList(l)   == IF l.k = "nillist" \/ l.items = <<>> THEN None ELSE EndOfNode(l.items[Len(l.items)])
StartOfTok(t)  == <<t.s.sl, t.s.sp>>
EndOfTok(t)    == <<t.s.el, t.s.ep>>

StartOf(a) == CASE a.k = "tok" -> StartOfTok(a) [] a.k \in {"nillist", "list"} -> StartOfList(a) [] OTHER -> StartOfNode(a)
EndOf(a)   == CASE a.k = "tok" -> EndOfTok(a)   [] a.k \in {"nillist", "list"} -> EndOfList(a)   [] OTHER -> EndOfNode(a)

Mk(st, en) == [sl |-> st[1], el |-> en[1], sp |-> st[2], ep |-> en[2]]

\* the combinators: name -> argument sorts
Sig == [ NodeList          |-> <<"list">>,
         Node              |-> <<"node">>,
         Token             |-> <<"tok">>,
         Tokens            |-> <<"tok", "tok">>,
         TokenNode         |-> <<"tok", "node">>,
         NodeToken         |-> <<"node", "tok">>,
         Nodes             |-> <<"node", "node">>,
         NodeListToken     |-> <<"list", "tok">>,
         TokenNodeList     |-> <<"tok", "list">>,
         NodeNodeList      |-> <<"node", "list">>,
         NodeListNode      |-> <<"list", "node">>,
         OptionalListTokens |-> <<"list", "tok", "tok">> ]
Combs == DOMAIN Sig
SortSet(s) == CASE s = "tok" -> TokSet [] s = "node" -> NodeSet [] s = "list" -> ListSet

\* the span a combinator owes: from the start of its first argument to the end of its last one; the optional list of
\* OptionalListTokens replaces the first token as the start when it is there (not nil), even if it is empty
Owed(c, args) ==
   IF c = "OptionalListTokens"
   THEN (IF args[1].k = "nillist" THEN Mk(StartOf(args[2]), EndOf(args[3])) ELSE Mk(StartOf(args[1]), EndOf(args[3])))
   ELSE Mk(StartOf(args[1]), EndOf(args[Len(args)]))

VARIABLES comb, args, done
pvars == <<comb, args, done>>

ArgTuples(c) == LET sg == Sig[c] IN
                IF Len(sg) = 1 THEN {<<a>> : a \in SortSet(sg[1])}
                ELSE IF Len(sg) = 2 THEN {<<a, b>> : a \in SortSet(sg[1]), b \in SortSet(sg[2])}
                ELSE {<<a, b, d>> : a \in SortSet(sg[1]), b \in SortSet(sg[2]), d \in SortSet(sg[3])}

PInit == /\ comb \in Combs /\ args \in ArgTuples(comb) /\ done = FALSE
PNext == /\ ~done /\ done' = TRUE
         /\ PrintT(ToJson([comb |-> comb, args |-> args, owed |-> Owed(comb, args)]))
         /\ UNCHANGED <<comb, args>>
PSpec == PInit /\ [][PNext]_pvars

\* ---- properties of the definitions (what C05 says about spans) ----
HasBoth(a) == StartOf(a) # None /\ EndOf(a) # None
\* arguments that all have positions and stand in source order (each ends before the next starts)
Ordered == /\ \A i \in 1 .. Len(args) : HasBoth(args[i])
           /\ \A i \in 1 .. Len(args) - 1 : EndOf(args[i])[2] <= StartOf(args[i + 1])[2]
           /\ \A i \in 1 .. Len(args) : StartOf(args[i])[2] <= EndOf(args[i])[2]
Res == Owed(comb, args)
\* the span of ordered arguments is proper, contains every argument, and begins / ends exactly where the outermost ones do
Covers == Ordered => /\ Res.sp <= Res.ep /\ Res.sl <= Res.el
                     /\ \A i \in 1 .. Len(args) : Res.sp <= StartOf(args[i])[2] /\ EndOf(args[i])[2] <= Res.ep
                     /\ Res.sp = StartOf(args[1])[2] /\ Res.ep = EndOf(args[Len(args)])[2]
\* lines are the lines of the offsets
LinesOfOffsets == /\ (Res.sp # -1 => Res.sl = LineOf(Res.sp)) /\ (Res.ep # -1 => Res.el = LineOf(Res.ep))
                  /\ (Res.sp = -1 <=> Res.sl = -1) /\ (Res.ep = -1 <=> Res.el = -1)
\* -1 appears exactly when the argument that forms the boundary cannot supply it
MinusOneRule == LET first == IF comb = "OptionalListTokens" /\ args[1].k = "nillist" THEN args[2] ELSE args[1]
                    last == args[Len(args)]
                IN /\ (Res.sp = -1 <=> StartOf(first) = None)
                   /\ (Res.ep = -1 <=> EndOf(last) = None)
\* a token always supplies its boundary
TokensAlwaysSupply == \A i \in 1 .. Len(args) : args[i].k = "tok" => HasBoth(args[i])
=============================================================================
