------------------------------ MODULE CliTrace ------------------------------
(* Trace validation of cmd/php-parser against Cli.tla (impl -> spec).        *)
(*                                                                           *)
(* The goroutines of the tool are not synchronised with the log, so the      *)
(* global order of the log lines is NOT the order of the operations: what a  *)
(* run yields is, per goroutine, the exact sequence of its actions, and for  *)
(* every action an interval [begin, end] of log sequence numbers (begin is   *)
(* written before the operation starts, end after it has completed, both     *)
(* under one mutex).  An action whose end precedes another action's begin    *)
(* really happened first.  The run is accepted iff SOME interleaving of the  *)
(* per-goroutine sequences that respects this real-time order is a behaviour *)
(* of Cli.tla - the linearisability question, answered by TLC: one cursor    *)
(* per goroutine; an event may be consumed only if its specification action  *)
(* is enabled with the logged arguments and every event that ended before it *)
(* began has been consumed (need[a] = how many events of goroutine a).       *)
(*                                                                           *)
(* Logged arguments: the file (index in walk order) and the addresses of the *)
(* objects that travel with it, renamed to small numbers: the source buffer  *)
(* (add, take, parse), root node and error slice (parse, ptake, print).  The *)
(* actions take the objects the code really used, and are enabled only if    *)
(* those are not owned by another file that is still on its way.             *)
(* Several runs are checked by one TLC process (Reset).                      *)
EXTENDS Cli

Traces == JsonDeserialize("clitraces.json")
\* Traces[k] = [m |-> events of the main goroutine, p |-> events of the printer, w |-> <<events of worker 1, ...>>]
\* event = [act, f, objs, need]  with need = <<main, printer, worker 1, ...>>

VARIABLES tn,    \* which run
          cm, cp, cw   \* cursors (next event) of main, the printer and the workers
tvars == <<vars, tn, cm, cp, cw>>
tview == <<view, tn, cm, cp, cw>>

Tr == Traces[tn]
Active == tn <= Len(Traces)

Consumed(ev) == /\ cm - 1 >= ev.need[1]
                /\ cp - 1 >= ev.need[2]
                /\ \A w \in Workers : cw[w] - 1 >= ev.need[2 + w]

NonZero(s) == {s[k] : k \in 1 .. Len(s)} \ {0}

TCInit == TLCSet(1, 0) /\ TLCSet(2, 0) /\ TLCSet(3, <<>>)
TInit == TCInit /\ Init /\ tn = 1 /\ cm = 1 /\ cp = 1 /\ cw = [w \in Workers |-> 1]

(* ---- main ---- *)
MEv == Tr.m[cm]
MIs(a) == Active /\ cm <= Len(Tr.m) /\ MEv.act = a /\ Consumed(MEv)
TAdd == /\ MIs("add") /\ wk.pc = "add" /\ wk.i = MEv.f
        /\ MEv.objs[1] \in Obj \ (LiveObjs \cup free)       \* the buffer belongs to no file that is still on its way
        /\ AddWith(MEv.objs[1])
        /\ cm' = cm + 1 /\ UNCHANGED <<tn, cp, cw>>
TSend == /\ MIs("send") /\ wk.pc = "send" /\ wk.i = MEv.f /\ Send
         /\ cm' = cm + 1 /\ UNCHANGED <<tn, cp, cw>>
TWalkEnd == Active /\ WalkEnd /\ UNCHANGED <<tn, cm, cp, cw>>
TWait == /\ MIs("wait") /\ Wait /\ cm' = cm + 1 /\ UNCHANGED <<tn, cp, cw>>
TClose == /\ MIs("close") /\ Close /\ cm' = cm + 1 /\ UNCHANGED <<tn, cp, cw>>

(* ---- workers ---- *)
WEv(w) == Tr.w[w][cw[w]]
WIs(w, a) == Active /\ cw[w] <= Len(Tr.w[w]) /\ WEv(w).act = a /\ Consumed(WEv(w))
TTake(w) == /\ WIs(w, "take") /\ Take(w)
            /\ wst'[w].f = WEv(w).f                          \* FIFO: the file the worker got is the head of the channel
            /\ NonZero(WEv(w).objs) \subseteq own[WEv(w).f]  \* ... with the buffer it was read into
            /\ cw' = [cw EXCEPT ![w] = @ + 1] /\ UNCHANGED <<tn, cm, cp>>
TParse(w) == /\ WIs(w, "parse") /\ wst[w].pc = "parse" /\ wst[w].f = WEv(w).f /\ Running
             /\ LET ev == WEv(w)
                    res == NonZero(Tail(ev.objs))
                IN /\ ev.objs[1] \in own[ev.f]
                   /\ res \cap (LiveObjs \cup free) = {}     \* root node and error slice are new
                   /\ ParseWith(w, res, ev.objs[2] # 0)
             /\ cw' = [cw EXCEPT ![w] = @ + 1] /\ UNCHANGED <<tn, cm, cp>>
TRSend(w) == /\ WIs(w, "rsend") /\ wst[w].f = WEv(w).f /\ RSend(w)
             /\ cw' = [cw EXCEPT ![w] = @ + 1] /\ UNCHANGED <<tn, cm, cp>>

(* ---- printer ---- *)
PEv == Tr.p[cp]
PIs(a) == Active /\ cp <= Len(Tr.p) /\ PEv.act = a /\ Consumed(PEv)
TPTake == /\ PIs("ptake") /\ PTake
          /\ pr'.f = PEv.f                                   \* the result the printer got is the head of the channel
          /\ NonZero(PEv.objs) \subseteq own[PEv.f]          \* ... and carries the objects Parse produced for this file
          /\ cp' = cp + 1 /\ UNCHANGED <<tn, cm, cw>>
TPrint == /\ PIs("print") /\ pr.f = PEv.f /\ PrintOut
          /\ NonZero(PEv.objs) \subseteq own[PEv.f]
          /\ cp' = cp + 1 /\ UNCHANGED <<tn, cm, cw>>

AllConsumed == /\ Active /\ cm = Len(Tr.m) + 1 /\ cp = Len(Tr.p) + 1
               /\ \A w \in Workers : cw[w] = Len(Tr.w[w]) + 1
TReset == /\ AllConsumed /\ wk.pc = "exit"
          /\ tn' = tn + 1 /\ cm' = 1 /\ cp' = 1 /\ cw' = [w \in Workers |-> 1]
          /\ wk' = [pc |-> "add", i |-> 1] /\ wg' = 0
          /\ fileCh' = <<>> /\ resultCh' = <<>> /\ closed' = FALSE
          /\ wst' = [w \in Workers |-> [pc |-> "take", f |-> 0]]
          /\ pr' = [pc |-> "ptake", f |-> 0]
          /\ own' = [f \in Files |-> {}] /\ stamp' = [o \in Obj |-> 0]
          /\ free' = {} /\ werrs' = [w \in Workers |-> 0]
          /\ out' = <<>> /\ sched' = <<>>

TNext == \/ TAdd \/ TSend \/ TWalkEnd \/ TWait \/ TClose
         \/ \E w \in Workers : TTake(w) \/ TParse(w) \/ TRSend(w)
         \/ TPTake \/ TPrint \/ TReset

TSpec == TInit /\ [][TNext]_tvars

\* progress made on run tn: number of events consumed; the high-water mark is kept for the rejection message
Progress == cm + cp + (LET S[k \in 0 .. NW] == IF k = 0 THEN 0 ELSE S[k - 1] + cw[k] IN S[NW])
HighWater == /\ IF tn > TLCGet(1) \/ (tn = TLCGet(1) /\ Progress > TLCGet(2))
                THEN TLCSet(1, tn) /\ TLCSet(2, Progress) /\ TLCSet(3, <<cm, cp, cw>>) ELSE TRUE
Report == PrintT(ToJson([reached |-> TLCGet(1), progress |-> TLCGet(2), cursors |-> TLCGet(3), runs |-> Len(Traces)]))
Accepted == IF TLCGet(1) = Len(Traces) + 1 THEN Report ELSE Report /\ FALSE
=============================================================================
