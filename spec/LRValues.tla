------------------------------ MODULE LRValues ------------------------------
(* goyacc's parser loop WITH its value stack, run on concrete LALR(1) tables    *)
(* (LRMiniTable: a top-level statement list and an inner statement list, each   *)
(* with an `error` statement - the recovery shape of php5.y / php7.y), over     *)
(* EVERY token string up to a bound.  LRDriver.tla specifies the driver for any *)
(* tables but knows no values; this module is about what error recovery does to *)
(* the TREE (C07, C06):                                                          *)
(*   NoInvention   the leaves of the result are tokens of the input, each at    *)
(*                 most once, in source order                                   *)
(*   PrefixKept    the top-level statement list only ever grows: what was       *)
(*                 completed before a syntax error stays, as it was             *)
(*   Reported      every parse of a string that is not in the language reports  *)
(*   CleanIsWhole  a parse that reported nothing returns all tokens of the input *)
(*   Terminates    every parse ends (accept or abort)                           *)
(*                                                                              *)
(* The value stack is modelled the way the generated code treats it: a slice    *)
(* that is never cleared.  A reduction pops its right-hand side by moving the   *)
(* stack pointer, pre-loads $$ with the slot above the new top (yyVAL =         *)
(* yyS[yyp+1]: $1 for a non-empty rule, a STALE slot for an empty one), runs    *)
(* the action and pushes $$.  The shifted `error` token gets whatever yyVAL     *)
(* holds.  Hence the OBLIGATION on grammar actions that the properties rest on: *)
(*   the action of every production with an empty right-hand side, and of every *)
(*   production `x: error`, assigns $$.                                         *)
(* Deviation = "stale-empty" drops the assignment in `ilist: (empty)` (it is   *)
(* what four of the seeded changes did to the real grammars): TLC then finds    *)
(* NoInvention violated.  vf/yaccobl.py checks the obligation on the action     *)
(* code of the real generated parsers.                                          *)
EXTENDS LRMiniTable, Naturals, Sequences, FiniteSets, TLC

CONSTANTS MaxLen,       \* longest input (tokens before $end)
          Deviation     \* "none" | "stale-empty" | "stale-error"

Alphabet == {TokX, TokSemi, TokOpen, TokClose}
Nil == [k |-> "nil"]

VARIABLES input,      \* the token string (without $end)
          pos,        \* tokens lexed so far
          la,         \* look-ahead: 0 none, else token number
          lav,        \* its value: the index of the token in the input (0 for $end)
          st,         \* state stack (bottom first), st[i] in 0 .. 16
          vs,        \* value slots 1 .. : vs[i] belongs to st[i] while i <= Len(st); slots above are stale, not cleared
          yyval,      \* goyacc's yyVAL register
          errflag, nerrs,
          status,     \* "parsing" | "accepted" | "aborted"
          toplist,    \* history: the last value the top-level list had (for PrefixKept)
          steps
vars == <<input, pos, la, lav, st, vs, yyval, errflag, nerrs, status, toplist, steps>>

Strings(n) == UNION {[1 .. k -> Alphabet] : k \in 0 .. n}

Init == /\ input \in Strings(MaxLen)
        /\ pos = 0 /\ la = 0 /\ lav = 0
        /\ st = <<0>> /\ vs = <<Nil>> /\ yyval = Nil
        /\ errflag = 0 /\ nerrs = 0 /\ status = "parsing" /\ toplist = <<>> /\ steps = 0

Top == st[Len(st)]
ActOf(s, t) == Act[s + 1][t]
GotoOf(s, nt) == GotoTab[s + 1][NtNo[nt]]

\* write value v into slot i (extending the slice by one when i is the next free slot)
SetSlot(i, v) == IF i <= Len(vs) THEN [vs EXCEPT ![i] = v] ELSE Append(vs, v)
Slot(i) == IF i <= Len(vs) THEN vs[i] ELSE Nil

\* ---- semantic actions of the mini grammar (rule numbers of LRMiniTable.Rules); p = index of $0, so $k = Slot(p + k)
Leaf(i) == [k |-> "tok", i |-> i]
Items(v) == IF v.k = "list" THEN v.items ELSE <<>>
Action(r, p, dflt) ==
  CASE r = 1 -> Slot(p + 1)                                                           \* start: list
    [] r \in {2, 7} -> IF Slot(p + 2) = Nil THEN Slot(p + 1)                           \* list: list stmt   (an error statement adds nothing)
                       ELSE [k |-> "list", items |-> Items(Slot(p + 1)) \o <<Slot(p + 2)>>]
    [] r = 3 -> [k |-> "list", items |-> <<>>]                                        \* list: (empty)
    [] r = 8 -> IF Deviation = "stale-empty" THEN dflt ELSE [k |-> "list", items |-> <<>>]    \* ilist: (empty)
    [] r \in {4, 9} -> IF Deviation = "stale-error" /\ r = 9 THEN dflt ELSE Nil        \* stmt: error
    [] r \in {5, 10} -> [k |-> "x", a |-> Slot(p + 1), b |-> Slot(p + 2)]               \* stmt: X ';'
    [] r \in {6, 11} -> [k |-> "block", open |-> Slot(p + 1), body |-> Slot(p + 2), close |-> Slot(p + 3)]

Running == status = "parsing"
Bump == steps' = steps + 1

Lex == /\ Running /\ la = 0
       /\ IF pos < Len(input) THEN la' = input[pos + 1] /\ lav' = pos + 1 ELSE la' = TokEof /\ lav' = 0
       /\ pos' = IF pos < Len(input) THEN pos + 1 ELSE pos
       /\ Bump /\ UNCHANGED <<input, st, vs, yyval, errflag, nerrs, status, toplist>>

Shift == /\ Running /\ la # 0 /\ ActOf(Top, la).k = "shift"
         /\ st' = Append(st, ActOf(Top, la).n)
         /\ vs' = SetSlot(Len(st) + 1, Leaf(lav))                 \* yyVAL = the token's value
         /\ yyval' = Leaf(lav)
         /\ la' = 0 /\ lav' = 0
         /\ errflag' = IF errflag > 0 THEN errflag - 1 ELSE 0
         /\ Bump /\ UNCHANGED <<input, pos, nerrs, status, toplist>>

Reduce == /\ Running /\ la # 0 /\ ActOf(Top, la).k = "reduce"
          /\ LET r == ActOf(Top, la).n
                 n == Rules[r].len
                 p == Len(st) - n                                 \* index of $0 after popping the right-hand side
                 v == Action(r, p, Slot(p + 1))                   \* $$ starts out as yyS[yyp+1]
                 g == GotoOf(st[p], Rules[r].lhs)
             IN /\ st' = Append(SubSeq(st, 1, p), g)
                /\ vs' = SetSlot(p + 1, v)
                /\ yyval' = v
                /\ toplist' = IF Rules[r].lhs = "list" /\ v.k = "list" THEN v.items ELSE toplist
          /\ Bump /\ UNCHANGED <<input, pos, la, lav, errflag, nerrs, status>>

Accept == /\ Running /\ la # 0 /\ ActOf(Top, la).k = "accept"
          /\ status' = "accepted"
          /\ Bump /\ UNCHANGED <<input, pos, la, lav, st, vs, yyval, errflag, nerrs, toplist>>

\* error with Errflag < 3: report if Errflag = 0, then pop to a state that shifts `error` and shift it
HasErrShift(s) == ActOf(s, TokError).k = "shift"
Recover == /\ Running /\ la # 0 /\ ActOf(Top, la).k = "error" /\ errflag < 3
           /\ nerrs' = IF errflag = 0 THEN nerrs + 1 ELSE nerrs
           /\ errflag' = 3
           /\ LET ks == {k \in 1 .. Len(st) : HasErrShift(st[k])} IN
              IF ks = {} THEN /\ status' = "aborted" /\ UNCHANGED <<st, vs>>
              ELSE LET k == CHOOSE x \in ks : \A y \in ks : y <= x IN
                   /\ st' = Append(SubSeq(st, 1, k), ActOf(st[k], TokError).n)
                   /\ vs' = SetSlot(k + 1, yyval)                 \* the error token's value is whatever yyVAL holds
                   /\ status' = status
           /\ Bump /\ UNCHANGED <<input, pos, la, lav, yyval, toplist>>

\* error with Errflag = 3: the look-ahead is discarded; $end cannot be
Discard == /\ Running /\ la # 0 /\ ActOf(Top, la).k = "error" /\ errflag = 3
           /\ IF la = TokEof THEN status' = "aborted" /\ UNCHANGED <<la, lav>>
              ELSE la' = 0 /\ lav' = 0 /\ status' = status
           /\ Bump /\ UNCHANGED <<input, pos, st, vs, yyval, errflag, nerrs, toplist>>

Next == Lex \/ Shift \/ Reduce \/ Accept \/ Recover \/ Discard
Spec == Init /\ [][Next]_vars
FairSpec == Spec /\ WF_vars(Next)

\* ---------------------------------------------------------------- properties
RECURSIVE Leaves(_), LeavesSeq(_, _)
LeavesSeq(s, i) == IF i > Len(s) THEN <<>> ELSE Leaves(s[i]) \o LeavesSeq(s, i + 1)
Leaves(v) == CASE v.k = "tok" -> IF v.i = 0 THEN <<>> ELSE <<v.i>>
               [] v.k = "nil" -> <<>>
               [] v.k = "list" -> LeavesSeq(v.items, 1)
               [] v.k = "x" -> Leaves(v.a) \o Leaves(v.b)
               [] v.k = "block" -> Leaves(v.open) \o Leaves(v.body) \o Leaves(v.close)

Increasing(s) == \A i \in 1 .. Len(s) - 1 : s[i] < s[i + 1]
Result == vs[2]          \* the value of `start` / the top-level list sits above the start state

\* C07: recovery never invents, duplicates or reorders text - at every moment, for the top-level list built so far
NoInvention == LET l == Leaves([k |-> "list", items |-> toplist]) IN
               Increasing(l) /\ \A i \in 1 .. Len(l) : l[i] \in 1 .. Len(input)
\* C07: what was completed stays: the top-level list only grows, by appending
PrefixKept == [][Len(toplist') >= Len(toplist) /\ SubSeq(toplist', 1, Len(toplist)) = toplist]_vars
\* C06: a parse that was never in trouble returns everything
CleanIsWhole == (status = "accepted" /\ nerrs = 0) => Leaves([k |-> "list", items |-> toplist]) = [i \in 1 .. Len(input) |-> i]
\* C06: no abort and no recovery without a report
Reported == (status = "aborted" \/ errflag > 0) => nerrs >= 1
\* C01: every parse ends; the bound is generous (each token is shifted or discarded once, each shift is followed by few reductions)
Bounded == steps <= 12 * (Len(input) + 2)
Terminates == <>(status # "parsing")
=============================================================================
