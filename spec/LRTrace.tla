------------------------------ MODULE LRTrace -------------------------------
(* Trace validation of the real goyacc driver (C06, C07, C01): the ND-JSON      *)
(* trace holds the steps yyParse printed with yyDebug = 4, one event each:      *)
(*   lex(tok)  push(state, look-ahead held)  reduce(rule, state)                *)
(*   err(state, tok)  pop(state)  discard(tok)  ret(n)  reset                   *)
(* plus, with every event, the number of "syntax error" messages delivered to   *)
(* the callback so far (ncb).  Every event is explained by actions of           *)
(* LRDriver.tla with the logged arguments bound; the unlogged choice (was a     *)
(* push a shift, a goto or the shift of "error"? was an error detected with     *)
(* Errflag in {1, 2}, which prints nothing?) is inferred, and checked against   *)
(* the logged look-ahead.  R2 = right-hand-side length per rule (exported by    *)
(* the generated parser).  All invariants of LRDriver are evaluated at every    *)
(* step; CallbackAgrees ties the driver's report counter to the callback.       *)
EXTENDS LRDriver, TLC, Json

Tr == ndJsonDeserialize("trace.ndjson")
R2 == ndJsonDeserialize("r2.ndjson")[1]            \* one line: the array of right-hand-side lengths (rule i at index i + 1)

VARIABLES l, cb      \* position in Tr; "syntax error" callbacks logged so far
tvars == <<vars, l, cb>>

Ev == Tr[l]
Is(k) == l <= Len(Tr) /\ Ev.k = k
Adv == l' = l + 1 /\ cb' = Ev.ncb

TInit == /\ TLCSet(1, 0) /\ l = 1 /\ cb = 0
         /\ stack = <<>> /\ la = None /\ errflag = 0 /\ nerrs = 0 /\ reports = 0
         /\ phase = "start" /\ status = "parsing" /\ lexed = 0 /\ consumed = 0

\* a new parse: the first event of every parse is the push of the start state
TReset == /\ Is("reset") /\ Adv
          /\ stack' = <<>> /\ la' = None /\ errflag' = 0 /\ nerrs' = 0 /\ reports' = 0
          /\ phase' = "start" /\ status' = "parsing" /\ lexed' = 0 /\ consumed' = 0

TStart == /\ Is("push") /\ phase = "start" /\ Adv
          /\ stack' = <<Ev.s>> /\ phase' = "run"
          /\ UNCHANGED <<la, errflag, nerrs, reports, status, lexed, consumed>>

TLex == Is("lex") /\ Adv /\ Lex(Ev.t)

\* push: a shift (the look-ahead is gone afterwards), a goto or the shift of "error" (the look-ahead is still held)
TShift == Is("push") /\ phase = "run" /\ Adv /\ Shift(Ev.s) /\ Ev.la = None
TGoto == Is("push") /\ phase = "goto" /\ Adv /\ Goto(Ev.s) /\ Ev.la = la
TErrShift == Is("push") /\ phase = "recover" /\ Adv /\ ErrShift(Ev.s) /\ Ev.la = la

\* the error state is shifted right away, without a pop and (Errflag in {1,2}) without a report: DetectAgain . ErrShift
TErrShiftAgain == /\ Is("push") /\ phase = "run" /\ errflag \in {1, 2} /\ Adv /\ Ev.la = la
                  /\ Push(Ev.s) /\ errflag' = 3
                  /\ UNCHANGED <<la, nerrs, reports, phase, status, lexed, consumed>>

TReduce == /\ Is("reduce") /\ Adv /\ Top = Ev.s
           /\ Ev.r + 1 <= Len(R2) /\ Reduce(R2[Ev.r + 1])

TErr == Is("err") /\ Adv /\ Top = Ev.s /\ (la = Ev.t \/ la = None) /\ DetectNew

TPop == Is("pop") /\ phase = "recover" /\ Adv /\ Top = Ev.s /\ Pop
\* the first pop after an unreported detection: DetectAgain . Pop
TPopAgain == /\ Is("pop") /\ phase = "run" /\ errflag \in {1, 2} /\ Adv /\ Top = Ev.s
             /\ stack' = SubSeq(stack, 1, Len(stack) - 1) /\ errflag' = 3 /\ phase' = "recover"
             /\ UNCHANGED <<la, nerrs, reports, status, lexed, consumed>>

TDiscard == Is("discard") /\ Adv /\ la = Ev.t /\ Discard
\* "$end" cannot be discarded: the driver prints the line and returns 1
TDiscardEof == /\ Is("discard") /\ Adv /\ la = Ev.t /\ Ev.t = Eof /\ AbortEof

TRet == /\ Is("ret") /\ Adv
        /\ \/ (Ev.n = 0 /\ status = "parsing" /\ Accept)
           \/ (Ev.n = 1 /\ status = "aborted" /\ UNCHANGED vars)
           \/ (Ev.n = 1 /\ status = "parsing" /\ AbortEmpty)

TNext == TReset \/ TStart \/ TLex \/ TShift \/ TGoto \/ TErrShift \/ TErrShiftAgain \/ TReduce \/ TErr \/ TPop \/ TPopAgain
         \/ TDiscard \/ TDiscardEof \/ TRet
TSpec == TInit /\ [][TNext]_tvars

\* the driver's report counter and the callback agree at every step (C06: every detection with Errflag = 0 reaches the user)
CallbackAgrees == cb = reports

HighWater == TLCSet(1, IF TLCGet(1) > l THEN TLCGet(1) ELSE l)
Accepted == IF TLCGet(1) = Len(Tr) + 1 THEN TRUE
            ELSE PrintT(ToJson(<<"REJECTED_AT", TLCGet(1)>>)) /\ FALSE
=============================================================================
