----------------------------- MODULE PoolShared -----------------------------
(* Who may share a pool.  Pool.Get is not one step of the machine: it is     *)
(*     if len(block) == off { block = make(...); off = 0 }                   *)
(*     off++                                                                 *)
(*     return &block[off-1]                                                  *)
(* i.e. the cursor is read, written back and read again without any lock     *)
(* (pkg/token/pool.go, pkg/position/pool.go).  This module splits Get into   *)
(* those steps and lets several parsers (one goroutine each) allocate.       *)
(*   Shared = FALSE  every parser owns its pool (what NewLexer / NewBuilder  *)
(*                   do today): Fresh is an invariant.                       *)
(*   Shared = TRUE   all parsers use one pool: TLC finds the interleaving    *)
(*                   in which two parsers get the same object.  This config  *)
(*                   is run as a negative check: it must be violated, which  *)
(*                   shows that "one pool per parser" is what C18 rests on   *)
(*                   as soon as parsers run concurrently (C11).              *)
(* The conformance side (pool_concurrent in the worker) observes the         *)
(* property-level fact only: objects reachable from trees built at the same  *)
(* time are pairwise distinct and hold what a solo parse puts into them.     *)
EXTENDS Naturals, FiniteSets, Sequences

CONSTANTS Parsers,   \* set of parser identities (goroutines)
          Size,      \* block size
          MaxGets,   \* allocations per parser (bound)
          Shared     \* BOOLEAN

Pools == IF Shared THEN {"the pool"} ELSE Parsers
PoolOf(p) == IF Shared THEN "the pool" ELSE p

VARIABLES blk,    \* [Pools -> block number]
          off,    \* [Pools -> cursor]
          pc,     \* [Parsers -> "idle" | "inc" | "ret" | "done"]
          tmp,    \* [Parsers -> the cursor value read by "off++" ]
          got     \* [Parsers -> sequence of handles <<pool, block, index>>]

vars == <<blk, off, pc, tmp, got>>

Init == /\ blk = [q \in Pools |-> 1] /\ off = [q \in Pools |-> 0]
        /\ pc = [p \in Parsers |-> "idle"] /\ tmp = [p \in Parsers |-> 0]
        /\ got = [p \in Parsers |-> <<>>]

\* "if len(block) == off { block = make(...); off = 0 }", then the load half of "off++"
Roll(p) == LET q == PoolOf(p) IN
           /\ pc[p] = "idle" /\ Len(got[p]) < MaxGets
           /\ IF off[q] = Size THEN blk' = [blk EXCEPT ![q] = @ + 1] /\ off' = [off EXCEPT ![q] = 0] /\ tmp' = [tmp EXCEPT ![p] = 0]
                               ELSE UNCHANGED <<blk, off>> /\ tmp' = [tmp EXCEPT ![p] = off[q]]
           /\ pc' = [pc EXCEPT ![p] = "inc"]
           /\ UNCHANGED got

\* the store half of "off++"
Inc(p) == LET q == PoolOf(p) IN
          /\ pc[p] = "inc"
          /\ off' = [off EXCEPT ![q] = tmp[p] + 1]
          /\ pc' = [pc EXCEPT ![p] = "ret"]
          /\ UNCHANGED <<blk, tmp, got>>

\* "return &block[off-1]": the cursor is read again
Ret(p) == LET q == PoolOf(p) IN
          /\ pc[p] = "ret" /\ off[q] >= 1
          /\ got' = [got EXCEPT ![p] = Append(@, <<q, blk[q], off[q] - 1>>)]
          /\ pc' = [pc EXCEPT ![p] = "idle"]
          /\ UNCHANGED <<blk, off, tmp>>

Next == \E p \in Parsers : Roll(p) \/ Inc(p) \/ Ret(p)
Spec == Init /\ [][Next]_vars

Handed == UNION {{<<p, i>> : i \in 1 .. Len(got[p])} : p \in Parsers}
\* C18: no object is handed out twice - neither to one parser nor to two
Fresh == \A a, b \in Handed : a # b => got[a[1]][a[2]] # got[b[1]][b[2]]
\* "&block[off-1]" stays inside the block
InBlock == \A p \in Parsers : \A i \in 1 .. Len(got[p]) : got[p][i][3] < Size
=============================================================================
