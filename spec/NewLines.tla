------------------------------ MODULE NewLines ------------------------------
(* The scanner's line table (internal/scanner/newline.go) together with the   *)
(* new_line action of scanner.rl that feeds it (C04: 1-based start and end    *)
(* lines where LF, CRLF and a lone CR each end one line).                      *)
(*                                                                             *)
(* The input is a string over {"n" (LF), "r" (CR), "x" (anything else)}.  The  *)
(* scanner head visits bytes one after the other, but ragel backtracks: after  *)
(* a failed longest-match attempt the head is set back and bytes are visited   *)
(* again.  Visit is the new_line action (it looks one byte ahead to tell CRLF  *)
(* from a lone CR); Append is NewLines.Append with its guard, which is what    *)
(* makes re-visiting harmless; GetLine is the backwards scan of the code.      *)
(* Line numbers may be asked for any offset below the frontier (the scanner    *)
(* positions a token only after having scanned it).                            *)
EXTENDS Naturals, Sequences, FiniteSets, TLC, Json

CONSTANTS MaxN,      \* longest input
          MaxBack    \* number of times the head may be set back

VARIABLES input,     \* the bytes
          head,      \* next byte the scanner will look at
          frontier,  \* every byte below it has been visited at least once
          data,      \* NewLines.data
          backs,     \* set-backs so far
          ops,       \* history: the Append calls made (for the replay)
          done

vars == <<input, head, frontier, data, backs, ops, done>>

N == Len(input)
Byte(q) == input[q + 1]                       \* offsets are 0-based, as in the code

Strings(n) == [1 .. n -> {"n", "r", "x"}]

Init == /\ input \in UNION {Strings(n) : n \in 0 .. MaxN}
        /\ head = 0 /\ frontier = 0 /\ data = <<>> /\ backs = 0 /\ ops = <<>> /\ done = FALSE

\* NewLines.Append: only offsets beyond the last recorded one are kept
NlAppend(d, p) == IF Len(d) = 0 \/ d[Len(d)] < p THEN Append(d, p) ELSE d

\* the new_line action at byte q
EndsLine(q) == \/ Byte(q) = "n"
               \/ (Byte(q) = "r" /\ (q + 1 = N \/ Byte(q + 1) # "n"))

Visit == /\ ~done /\ head < N
         /\ data' = IF EndsLine(head) THEN NlAppend(data, head + 1) ELSE data
         /\ ops' = IF EndsLine(head) THEN Append(ops, head + 1) ELSE ops
         /\ head' = head + 1
         /\ frontier' = IF head + 1 > frontier THEN head + 1 ELSE frontier
         /\ UNCHANGED <<input, backs, done>>

SetBack == /\ ~done /\ backs < MaxBack /\ head > 0
           /\ \E h \in 0 .. head - 1 : head' = h
           /\ backs' = backs + 1
           /\ UNCHANGED <<input, frontier, data, ops, done>>

Finish == /\ ~done /\ head = N
          /\ done' = TRUE
          /\ PrintT(ToJson([input |-> input, appends |-> ops, data |-> data]))
          /\ UNCHANGED <<input, head, frontier, data, backs, ops>>

Next == Visit \/ SetBack \/ Finish
Spec == Init /\ [][Next]_vars

\* ------------------------------------------------------------------ the code's GetLine
RECURSIVE Scan(_, _, _, _)
Scan(d, p, i, line) == IF i = 0 THEN line
                       ELSE IF p < d[i] THEN Scan(d, p, i - 1, i) ELSE line
GetLine(d, p) == Scan(d, p, Len(d), Len(d) + 1)

\* ------------------------------------------------------------------ what it must be
LineStarts == {q + 1 : q \in {q \in 0 .. N - 1 : EndsLine(q)}}
LineOf(p) == 1 + Cardinality({s \in LineStarts : s <= p})

TypeOK == /\ head \in 0 .. N /\ frontier \in 0 .. N /\ head <= frontier

Sorted == \A i \in 1 .. Len(data) - 1 : data[i] < data[i + 1]

\* the table holds exactly the line starts up to the frontier, however often the head was set back
Exact == {data[i] : i \in 1 .. Len(data)} = {s \in LineStarts : s <= frontier}

\* C04: the line of every offset that has been scanned is its 1-based line number, CRLF counting once
LinesRight == \A p \in 0 .. frontier : p <= N => GetLine(data, p) = LineOf(p)

\* a CRLF pair never yields two lines
CrLfOnce == \A q \in 0 .. N - 2 : (Byte(q) = "r" /\ Byte(q + 1) = "n") => (q + 1) \notin LineStarts
=============================================================================
