SPECIFICATION Spec
CONSTANTS Size = 2  MaxGets = 5  MaxWrites = 2  Vals = {1, 2}
INVARIANTS TypeOK BlockInv CountInv
PROPERTIES Refines Fresh NonInterference
CHECK_DEADLOCK FALSE
