----------------------------- MODULE NsResolver -----------------------------
(* PHP's compile-time name resolution (C14) as a state machine over the         *)
(* statements of a file: the current namespace, three import tables (class,     *)
(* function, const; class and function aliases are case-insensitive, constant   *)
(* aliases case-sensitive), and the map from declarations / name references to  *)
(* fully qualified names.  The rules are PHP's (language.namespaces.rules):     *)
(*   - fully qualified names resolve to themselves, namespace\X to ns\X         *)
(*   - qualified names: the first segment is looked up in the CLASS imports     *)
(*   - unqualified names: the imports of the reference's own kind               *)
(*   - otherwise the current namespace is prepended                             *)
(*   - a namespace statement drops all imports                                  *)
(*   - special names (self, parent, static, scalar type names in type position, *)
(*     true/false/null as constants) are never qualified                        *)
(* A behaviour is a file; it is rendered to PHP by the harness, parsed and      *)
(* resolved by the real code, and the final map must equal `expect`.            *)
EXTENDS Naturals, Sequences, FiniteSets, TLC, Json

CONSTANTS Names,        \* identifiers usable as name segments, with case variants (e.g. "A", "a", "B", "F", "f", "C", "X")
          Imports,      \* importable fully qualified names (sequences of segments)
          Sites,        \* referencing sites: [id, kind \in {"class", "function", "const"}, typepos \in BOOLEAN]
          MaxImports, MaxRefs, MaxSections,
          Forms,        \* name forms to explore, subset of {"unq", "qual", "fq", "rel"}
          Mixed         \* BOOLEAN: imports may also stand between (after) references and declarations of their section -
                        \* an import is in effect from its own position on; what was resolved before it stays as it was

VARIABLES ns, alias, prog, expect, nimp, nref, nsec, phase, done
vars == <<ns, alias, prog, expect, nimp, nref, nsec, phase, done>>

Lower(s) == CASE s = "A" -> "a" [] s = "B" -> "b" [] s = "C" -> "c" [] s = "F" -> "f" [] s = "X" -> "x" [] s = "P" -> "p" [] s = "Q" -> "q"
              [] s = "Self" -> "self" [] s = "INT" -> "int" [] s = "TRUE" -> "true"
              \* names with bytes >= 0x80 (U1 = an upper-case accented letter, u1 = its lower-case form, U2 = another upper-case one; the
              \* harness spells them in Latin-1 and in UTF-8): PHP folds the ASCII letters only, so U1c / u1c / U2c stay three names
              [] s = "U1C" -> "U1c"
              [] s = "Functionf" -> "functionf" [] s = "ConstC" -> "constc" [] s = "constC" -> "constc" [] OTHER -> s

Key(k, name) == IF k = "const" THEN name ELSE Lower(name)         \* constant aliases are case-sensitive
EmptyAlias == [class |-> <<>>, function |-> <<>>, const |-> <<>>]

Lookup(tbl, key) == LET idx == {i \in 1 .. Len(tbl) : tbl[i][1] = key} IN      \* a later import of the same alias wins (PHP: error)
                    IF idx = {} THEN <<>> ELSE tbl[CHOOSE i \in idx : \A j \in idx : j <= i][2]
Join(a, b) == a \o b

SpecialClass == {"self", "parent", "static"}
SpecialType == {"int", "float", "bool", "string", "void", "iterable", "object"}
SpecialConst == {"true", "false", "null"}

IsSpecial(site, form, parts) ==
   /\ form = "unq"
   /\ \/ (site.kind = "class" /\ Lower(parts[1]) \in SpecialClass)
      \/ (site.kind = "class" /\ Lower(parts[1]) \in SpecialType)      \* the property leaves scalar type names unqualified at every class-name site
      \/ (site.kind = "const" /\ Lower(parts[1]) \in SpecialConst)

Resolve(k, form, parts) ==
  CASE form = "fq"  -> parts
    [] form = "rel" -> Join(ns, parts)
    [] form = "qual" -> LET hit == Lookup(alias["class"], Lower(parts[1])) IN
                        IF hit # <<>> THEN hit \o Tail(parts) ELSE Join(ns, parts)
    [] form = "unq"  -> LET hit == Lookup(alias[k], Key(k, parts[1])) IN
                        IF hit # <<>> THEN hit ELSE Join(ns, parts)

Ev(e) == prog' = Append(prog, e)

Init == /\ ns = <<>> /\ alias = EmptyAlias /\ prog = <<>> /\ expect = <<>>
        /\ nimp = 0 /\ nref = 0 /\ nsec = 0 /\ phase = "ns" /\ done = FALSE

\* a namespace statement: "namespace N;" / "namespace N { ... }" / "namespace { ... }" / none (global code)
Namespace == /\ phase = "ns" /\ ~done /\ nsec < MaxSections
             /\ \E n \in {<<>>, <<"N">>, <<"N", "M">>}, form \in {"none", "semi", "braced"} :
                  /\ (form = "none" => (n = <<>> /\ nsec = 0))
                  /\ (form = "semi" => n # <<>>)
                  /\ (nsec > 0 => form = prog[1].form)                 \* PHP forbids mixing the two forms
                  /\ (nsec > 0 => form # "none")
                  /\ ns' = n /\ alias' = EmptyAlias                      \* imports do not survive a namespace statement
                  /\ Ev([t |-> "ns", name |-> n, form |-> form])
             /\ nsec' = nsec + 1 /\ nimp' = 0 /\ nref' = 0 /\ phase' = "use"
             /\ UNCHANGED <<expect, done>>

Use == /\ (phase = "use" \/ (Mixed /\ phase = "ref")) /\ ~done /\ nimp < MaxImports
       /\ \E k \in {"class", "function", "const"}, fqn \in Imports, al \in ({""} \cup Names) :
            LET a == IF al = "" THEN fqn[Len(fqn)] ELSE al IN
            /\ alias' = [alias EXCEPT ![k] = Append(@, <<Key(k, a), fqn>>)]
            /\ Ev([t |-> "use", kind |-> k, fqn |-> fqn, alias |-> al, group |-> FALSE])
       /\ nimp' = nimp + 1
       /\ UNCHANGED <<ns, expect, nref, nsec, phase, done>>

\* "use P\{A, function Q\b as f};" - a group use, items may carry their own kind
GroupUse == /\ (phase = "use" \/ (Mixed /\ phase = "ref")) /\ ~done /\ nimp + 2 <= MaxImports
            /\ \E k1 \in {"class", "function", "const"}, k2 \in {"class", "function", "const"}, a1 \in {"A", "a"}, al2 \in {"", "X"} :
                 LET f1 == <<"P", a1>>
                     f2 == <<"P", "Q", "B">>
                     key2 == IF al2 = "" THEN "B" ELSE al2
                 IN /\ alias' = [c \in {"class", "function", "const"} |->
                                   alias[c] \o (IF c = k1 THEN << <<Key(k1, a1), f1>> >> ELSE <<>>)
                                            \o (IF c = k2 THEN << <<Key(k2, key2), f2>> >> ELSE <<>>)]
                    /\ Ev([t |-> "groupuse", prefix |-> <<"P">>, k1 |-> k1, r1 |-> <<a1>>, k2 |-> k2, r2 |-> <<"Q", "B">>, al2 |-> al2])
            /\ nimp' = nimp + 2
            /\ UNCHANGED <<ns, expect, nref, nsec, phase, done>>

StartRefs == /\ phase = "use" /\ ~done /\ phase' = "ref"
             /\ UNCHANGED <<ns, alias, prog, expect, nimp, nref, nsec, done>>

Declare == /\ phase = "ref" /\ ~done /\ nref < MaxRefs
           /\ \E k \in {"class", "interface", "trait", "function", "const"}, n \in {"A", "f"} :
                /\ Ev([t |-> "decl", kind |-> k, name |-> n])
                /\ expect' = Append(expect, [ev |-> Len(prog) + 1, name |-> Join(ns, <<n>>)])
           /\ nref' = nref + 1
           /\ UNCHANGED <<ns, alias, nimp, nsec, phase, done>>

Parts(form) == IF form = "qual" THEN {<<a, "C">> : a \in Names} ELSE {<<a>> : a \in Names}

Reference == /\ phase = "ref" /\ ~done /\ nref < MaxRefs
             /\ \E site \in Sites, form \in Forms : \E parts \in Parts(form) :
                  /\ Ev([t |-> "ref", site |-> site.id, form |-> form, parts |-> parts])
                  /\ expect' = Append(expect,
                        [ev |-> Len(prog) + 1,
                         name |-> IF IsSpecial(site, form, parts) THEN <<Lower(parts[1])>> ELSE Resolve(site.kind, form, parts)])
             /\ nref' = nref + 1
             /\ UNCHANGED <<ns, alias, nimp, nsec, phase, done>>

NextSection == /\ phase = "ref" /\ ~done /\ nref > 0 /\ nsec < MaxSections /\ prog[1].form # "none"
               /\ phase' = "ns"
               /\ UNCHANGED <<ns, alias, prog, expect, nimp, nref, nsec, done>>

Finish == /\ phase = "ref" /\ ~done /\ nref > 0
          /\ done' = TRUE
          /\ PrintT(ToJson([prog |-> prog, expect |-> expect]))
          /\ UNCHANGED <<ns, alias, prog, expect, nimp, nref, nsec, phase>>

Next == Namespace \/ Use \/ GroupUse \/ StartRefs \/ Declare \/ Reference \/ NextSection \/ Finish
Spec == Init /\ [][Next]_vars

\* design-level properties of the rules
TypeOK == /\ \A k \in {"class", "function", "const"} : \A i \in 1 .. Len(alias[k]) : alias[k][i][2] \in Imports \cup {<<"P", "A">>, <<"P", "a">>, <<"P", "Q", "B">>}
\* fully qualified and relative names never depend on the imports
ImportIndependence == \A parts \in {<<"A">>} : Resolve("class", "fq", parts) = parts /\ Resolve("const", "rel", parts) = Join(ns, parts)
\* class and function aliases are case-insensitive, constant aliases are not
CaseRule == \A k \in {"class", "function"} : Lookup(alias[k], "a") = Lookup(alias[k], Lower("A"))
\* a namespace statement drops the imports
NamespaceDropsImports == [][(ns' # ns \/ (Len(prog') > Len(prog) /\ prog'[Len(prog')].t = "ns")) => alias' = EmptyAlias]_vars
=============================================================================
