----------------------------- MODULE SyntaxGen -----------------------------
(* The derivation machine over Syntax.tla: a left-most derivation with a depth   *)
(* budget.  A behaviour's payload is the sequence of choices <<variant, lens>>   *)
(* (lens: for every list of the variant, in source order, its length and whether *)
(* it has a trailing separator); the harness expands it into tokens, the         *)
(* expected tree and the gap list.  TLC enumerates the derivations exhaustively  *)
(* for small bounds or samples them with -simulate.                              *)
EXTENDS Syntax, Json, FiniteSets

CONSTANTS RootCat,    \* category of the top-level list items
          RootMax,    \* maximal number of top-level items
          Depth,      \* nesting budget
          Family,     \* "5" | "7": variants of the other family are excluded
          Allowed,    \* set of variant ids usable ({} = all)
          Random,     \* BOOLEAN: sample one successor per step (for -simulate)
          MaxChoices, \* bound on the size of a derivation (0 = none): prunes exhaustive enumeration to small programs
          ListLens,   \* {} or a set of lengths: every list that may have two or more items takes one of THESE lengths instead
                      \* (long lists: slices that outgrow their first capacity, separator lists of 4 .. 9 tokens)
          Glue,       \* {} or a set of variant ids ("self-nesting" mode): besides the glue variants a derivation uses ONE other
                      \* variant only, any number of times - a construct nested in itself through brackets, arguments, blocks
          FocusFamily, \* {} or a set of variant ids that together count as "the one other variant" of the self-nesting mode (e.g. all
                      \* forms of if / elseif / else: every mix of them nested in each other)
          Wrappers    \* the glue variants through which a construct can contain itself; the other glue variants are closers: the
                      \* cheapest way to finish a category; closers do not count against MaxChoices in this mode and their
                      \* own lists are as short as they can be

VARIABLES todo, choices, done
gvars == <<todo, choices, done>>

Usable(v) == /\ Variants[v].fam \in (IF Family = "7" THEN {"both", "7", "7g"} ELSE IF Family = "73" THEN {"both", "7", "7g", "73"}
                                       ELSE IF Family = "pre73" THEN {"both", "7", "7g", "pre73"} ELSE {"both", Family})
             /\ (Allowed = {} \/ Variants[v].id \in Allowed)

\* pending child requests of a (kind, fill) in source order (= schema order), inline nodes expanded
RECURSIVE Items(_, _), ItemsFrom(_, _, _), ItemOf(_), SqItems(_, _)
ItemOf(x) == CASE x.f \in {"ch", "ls"} -> <<x>>
               [] x.f = "nd" -> Items(x.kind, x.fill)
               [] x.f = "sq" -> SqItems(x.items, 1)
               [] OTHER -> <<>>
SqItems(items, i) == IF i > Len(items) THEN <<>> ELSE ItemOf(items[i]) \o SqItems(items, i + 1)
ItemsFrom(kind, fill, i) ==
   IF i > Len(SchemaX[kind]) THEN <<>>
   ELSE (IF SchemaX[kind][i][1] \in DOMAIN fill THEN ItemOf(fill[SchemaX[kind][i][1]]) ELSE <<>>) \o ItemsFrom(kind, fill, i + 1)
Items(kind, fill) == ItemsFrom(kind, fill, 1)

VItems == [v \in 1 .. NV |-> Items(Variants[v].kind, Variants[v].fill)]     \* evaluated once

\* the variants that may expand the pending request h (at depth 0 only leaf variants, if the category has any);
\* tabulated once per run (constant-level definitions are evaluated once by TLC)
AllCats == UNION {Variants[v].cats : v \in 1 .. NV} \cup {RootCat, "inner", "nsitem", "top", "top1", "toplast", "nsonly"}
UsableSet == {v \in 1 .. NV : Usable(v)}
InCatSet == [c \in AllCats |-> {v \in UsableSet : InCat(v, c)}]
CandBase == [c \in AllCats |-> [m \in 0 .. 31 |-> {v \in InCatSet[c] : Variants[v].lvl >= m}]]
CandLeaf == [c \in AllCats |-> [m \in 0 .. 31 |-> {v \in CandBase[c][m] : Variants[v].leaf}]]
Cands(h) == IF h.d > 0 \/ CandLeaf[h.cat][h.min] = {} THEN CandBase[h.cat][h.min] ELSE CandLeaf[h.cat][h.min]

\* all assignments of <<length, trailing separator?>> to the lists among items
RECURSIVE Lens(_, _, _)
Lens(items, i, d) ==
   IF i > Len(items) THEN {<<>>}
   ELSE IF items[i].f # "ls" THEN Lens(items, i + 1, d)
   ELSE LET ns == IF d = 0 THEN {items[i].lo}
                  ELSE IF ListLens # {} /\ items[i].hi >= 2 THEN {n \in ListLens : n >= items[i].lo}
                  ELSE items[i].lo .. items[i].hi
        IN {<<<<n, t>>>> \o rest : n \in ns, t \in (IF items[i].trail = "opt" THEN BOOLEAN ELSE IF items[i].trail = "yes" THEN {TRUE} ELSE {FALSE}), rest \in Lens(items, i + 1, d)}

LensTab == [v \in 1 .. NV |-> [z \in BOOLEAN |-> Lens(VItems[v], 1, IF z THEN 0 ELSE 1)]]    \* Lens depends on d only through d = 0

\* self-nesting mode: the lists are as short as they can be, or have one item
RECURSIVE LensS(_, _)
LensS(items, i) ==
   IF i > Len(items) THEN {<<>>}
   ELSE IF items[i].f # "ls" THEN LensS(items, i + 1)
   ELSE {<<<<n, FALSE>>>> \o rest : n \in {items[i].lo} \cup (IF items[i].hi >= 1 /\ items[i].trail # "yes" THEN {1} ELSE {}), rest \in LensS(items, i + 1)}
LensShort == [v \in 1 .. NV |-> LensS(VItems[v], 1)]

RECURSIVE Kids(_, _, _, _, _), Rep(_, _)
Rep(x, n) == IF n = 0 THEN <<>> ELSE <<x>> \o Rep(x, n - 1)
Kids(items, lens, i, k, d) ==
   IF i > Len(items) THEN <<>>
   ELSE IF items[i].f = "ch" THEN <<[cat |-> items[i].cat, min |-> items[i].min, d |-> d]>> \o Kids(items, lens, i + 1, k, d)
   ELSE Rep([cat |-> items[i].cat, min |-> items[i].min, d |-> d], lens[k][1]) \o Kids(items, lens, i + 1, k + 1, d)

GInit == /\ done = FALSE
         /\ \E n \in 1 .. RootMax :
              /\ todo = Rep([cat |-> RootCat, min |-> 0, d |-> Depth], n)
              /\ choices = << <<0, << <<n, FALSE>> >> >> >>

GlueIdx == {v \in 1 .. NV : Variants[v].id \in Glue}
\* self-nesting mode: v is glue, or the one other variant of this derivation
FamilyIdx == {v \in 1 .. NV : Variants[v].id \in FocusFamily}
FocusOK(v) == \/ Glue = {} \/ v \in GlueIdx
              \/ (FocusFamily # {} /\ v \in FamilyIdx)
              \/ (FocusFamily = {} /\ VItems[v] # <<>> /\ \A i \in 2 .. Len(choices) : choices[i][1] \in GlueIdx \/ choices[i][1] = v)
CloserIdx == {v \in GlueIdx : Variants[v].id \notin Wrappers}
Weight == Cardinality({i \in 2 .. Len(choices) : choices[i][1] \notin CloserIdx})
CandsF(h) == IF Glue = {} THEN Cands(h) ELSE {v \in Cands(h) : FocusOK(v) /\ (v \in CloserIdx \/ Weight < MaxChoices)}

\* sampling in the self-nesting mode: while no construct has been chosen yet, every second derivation starts with an
\* expression statement, so that expressions are the nested construct as often as statements are
ExprStmtIdx == {v \in GlueIdx : Variants[v].id = "StmtExpression"}
PickOne(S) == IF Glue # {} /\ Len(choices) = 1 /\ S \cap ExprStmtIdx # {} /\ RandomElement({0, 1}) = 1
              THEN RandomElement(S \cap ExprStmtIdx) ELSE RandomElement(S)

\* (a derivation needs at least one more choice per pending request: successors that cannot finish within MaxChoices are not generated)
Apply(h, v, lens) == LET d2 == IF h.d = 0 THEN 0 ELSE h.d - 1
                         kids == Kids(VItems[v], lens, 1, 1, d2) IN
                     /\ (Glue # {} \/ MaxChoices = 0 \/ Len(choices) + 1 + Len(kids) + Len(todo) - 1 <= MaxChoices)
                     /\ choices' = Append(choices, <<v, lens>>)
                     /\ todo' = kids \o Tail(todo)

Expand == /\ todo # <<>> /\ ~done
          /\ (Glue # {} \/ MaxChoices = 0 \/ Len(choices) + Len(todo) <= MaxChoices)
          /\ LET h == Head(todo) IN
             /\ CandsF(h) # {}
             /\ IF Random
                THEN \E v \in {PickOne(CandsF(h))} :                          \* sampling (-simulate): one successor per step
                       \E lens \in {RandomElement(IF Glue # {} /\ v \in CloserIdx THEN LensTab[v][TRUE] ELSE IF Glue # {} /\ h.d > 0 THEN LensShort[v] ELSE LensTab[v][h.d = 0])} : Apply(h, v, lens)
                ELSE \E v \in CandsF(h) : \E lens \in (IF Glue # {} /\ v \in CloserIdx THEN LensTab[v][TRUE] ELSE IF Glue # {} /\ h.d > 0 THEN LensShort[v] ELSE LensTab[v][h.d = 0]) : Apply(h, v, lens)
          /\ UNCHANGED done

Finish == /\ todo = <<>> /\ ~done
          /\ done' = TRUE
          /\ PrintT(ToJson([choices |-> choices, family |-> Family]))
          /\ UNCHANGED <<todo, choices>>

GNext == Expand \/ Finish
GSpec == GInit /\ [][GNext]_gvars

\* design-level checks on the machine itself
Terminates == Len(choices) <= 400                       \* the depth budget bounds every derivation
NoDeadEnd == (todo # <<>> /\ ~done) => Cands(Head(todo)) # {}      \* (dead ends of the self-nesting mode are simply not behaviours)

\* the table is exported once per run (first line of the output)
ExportTable == PrintT(ToJson([variants |-> Variants, root |-> RootFill]))
=============================================================================
