------------------------------ MODULE PoolAbs ------------------------------
(* What C18 promises about token.Pool / position.Pool, independent of how    *)
(* blocks are managed: every Get returns a non-nil object that has never     *)
(* been returned before, and a write through one object changes only that    *)
(* object.  Objects are identified by abstract handles.                      *)
EXTENDS Naturals, FiniteSets, TLC

CONSTANTS H,      \* universe of handles
          Vals    \* values a client may write (0 = zero value of a fresh object)

VARIABLES live,   \* handles returned so far
          mem,    \* [live -> Vals \cup {0}]: what a read through the handle yields
          last    \* handle returned by the most recent Get (or "none")

avars == <<live, mem, last>>

AInit == live = {} /\ mem = <<>> /\ last = "none"

Get(h) == /\ h \notin live                      \* pairwise distinct, for the lifetime of the pool
          /\ live' = live \cup {h}
          /\ mem'  = [x \in live \cup {h} |-> IF x = h THEN 0 ELSE mem[x]]
          /\ last' = h

Write(h, v) == /\ h \in live
               /\ mem' = [mem EXCEPT ![h] = v]   \* only h changes
               /\ UNCHANGED <<live, last>>

ANext == (\E h \in H : Get(h)) \/ (\E h \in live, v \in Vals : Write(h, v))

ASpec == AInit /\ [][ANext]_avars

ATypeOK == /\ live \subseteq H
           /\ DOMAIN mem = live
           /\ \A h \in live : mem[h] \in Vals \cup {0}

Fresh == [][live' # live => (last' \notin live /\ live' = live \cup {last'})]_avars

NonInterference == [][\A h \in live : (h \in live' /\ mem'[h] # mem[h]) =>
                        (live' = live /\ \A g \in live \ {h} : mem'[g] = mem[g])]_avars

Monotone == [][live \subseteq live']_avars
=============================================================================
