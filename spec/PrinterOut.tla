----------------------------- MODULE PrinterOut -----------------------------
(* The printer's output stage (pkg/visitor/printer: write, writeToken,        *)
(* printToken's default branch, StmtInlineHtml) as a state machine over       *)
(* chunks.  Which chunk comes from which slot of which node kind is           *)
(* Walk.tla; this module specifies what happens to each chunk on its way to   *)
(* the io.Writer: when an open tag "<?php ", a separating space or a close    *)
(* tag "?>" is put in front of it.  C02 needs "never, when the tree came from *)
(* source"; C15/C17 need "exactly where two chunks would otherwise fuse or    *)
(* PHP text would be emitted as HTML, when a chunk is synthetic".              *)
(*                                                                             *)
(* A chunk is abstracted to what the rules can depend on:                      *)
(*   kind  : "php" ordinary text, "html" the text of a StmtInlineHtml          *)
(*   car   : what carries the text: "src" a token with a position (it came     *)
(*           from the scanner), "syn" a token without position (hand-built or  *)
(*           made by the formatter), "val" no token: the canonical lexeme or   *)
(*           the node's Value written for an absent token                      *)
(*   open  : the text starts with "<?"                                         *)
(*   fw/lw : first / last byte is a name byte [A-Za-z0-9_\x80-\xff]            *)
(*   close : the text, without trailing CR/LF, ends with "?>"                  *)
(*   empty : zero bytes                                                        *)
(* The state is the one the code keeps: mode (HTML / PHP), what the last       *)
(* written chunk looked like, and whether the last chunk was synthetic.        *)
EXTENDS Naturals, Sequences, FiniteSets, TLC, Json

CONSTANTS MaxLen,        \* longest chunk sequence explored
          Shapes,        \* the chunk shapes explored (set of records, see MCPrinterOut)
          InitModes      \* subset of {"html", "php"} (NewPrinter / WithState)

VARIABLES mode,      \* "html" | "php"
          mode0,     \* the initial mode (history)
          last,      \* [some, lw, close]: was anything written yet, and how the last chunk written ended
          lastSyn,   \* BOOLEAN
          inp,       \* chunks consumed so far (history)
          out,       \* pieces written so far: OPEN | SP | CLOSE | <<"C", index into inp>> | <<"H", i>> (empty inline HTML: no bytes)
          done

vars == <<mode, mode0, last, lastSyn, inp, out, done>>

OPEN == <<"OPEN", 0>>
SP == <<"SP", 0>>
CLOSE == <<"CLOSE", 0>>
None == [some |-> FALSE, lw |-> FALSE, close |-> FALSE]

Init == /\ mode \in InitModes /\ mode0 = mode /\ last = None /\ lastSyn = FALSE
        /\ inp = <<>> /\ out = <<>> /\ done = FALSE

Src(c) == c.car = "src"
Lw(l) == l.some /\ l.lw
Cl(l) == l.some /\ l.close
ShapeOf(c) == [some |-> TRUE, lw |-> c.lw, close |-> c.close]

\* write(b), b non-empty, in mode m after a chunk of shape l: the pieces put in front of b
Before(m, l, c) ==
   (IF m = "html" /\ ~c.open THEN <<OPEN>> ELSE <<>>) \o (IF Lw(l) /\ c.fw THEN <<SP>> ELSE <<>>)

\* printToken / writeToken: one token or default lexeme goes to the writer.  An empty chunk changes nothing.
EmitChunk(c) ==
   LET i == Len(inp) + 1
       verbatim == Src(c) /\ ~lastSyn
   IN /\ inp' = Append(inp, c)
      /\ IF c.empty
         THEN UNCHANGED <<out, mode, last, lastSyn>>
         ELSE /\ out' = out \o (IF verbatim THEN <<>> ELSE Before(mode, last, c)) \o << <<"C", i>> >>
              /\ mode' = IF verbatim THEN (IF c.open THEN "php" ELSE mode) ELSE "php"
              /\ last' = ShapeOf(c)
              /\ lastSyn' = ~Src(c)

\* StmtInlineHtml: PHP is closed first unless the previous chunk already ended with "?>"; the HTML is written
\* in PHP mode (so it never gets an open tag); then the printer is in HTML mode.  The inserted "?>" is not a
\* token: it leaves lastSyn alone.
EmitHtml(c) ==
   LET i == Len(inp) + 1
       needClose == last.some /\ ~Cl(last)
       l1 == IF needClose THEN [some |-> TRUE, lw |-> FALSE, close |-> TRUE] ELSE last
       verbatim == Src(c) /\ ~lastSyn
   IN /\ inp' = Append(inp, c)
      /\ mode' = "html"
      /\ IF c.empty
         THEN /\ out' = out \o (IF needClose THEN <<CLOSE>> ELSE <<>>) \o << <<"H", i>> >>   \* zero bytes, but HTML mode from here
              /\ last' = l1 /\ lastSyn' = lastSyn
         ELSE /\ out' = out \o (IF needClose THEN <<CLOSE>> ELSE <<>>)
                            \o (IF verbatim THEN <<>> ELSE Before("php", l1, c)) \o << <<"C", i>> >>
              /\ last' = ShapeOf(c)
              /\ lastSyn' = ~Src(c)

Step == /\ ~done /\ Len(inp) < MaxLen
        /\ \E c \in Shapes : IF c.kind = "html" THEN EmitHtml(c) ELSE EmitChunk(c)
        /\ UNCHANGED <<done, mode0>>

Finish == /\ ~done /\ inp # <<>>
          /\ done' = TRUE
          /\ PrintT(ToJson([init |-> mode0, chunks |-> inp, expect |-> out]))
          /\ UNCHANGED <<mode, mode0, last, lastSyn, inp, out>>

Next == Step \/ Finish
Spec == Init /\ [][Next]_vars

\* ------------------------------------------------------------------ requirements
IsChunk(p) == p[1] = "C"
Synth(c) == ~Src(c)
AllSource == \A i \in 1 .. Len(inp) : Src(inp[i])

\* the source was well formed at every PHP -> HTML boundary: inline HTML that is not the first text follows a
\* chunk ending with "?>" (the scanner guarantees it: HTML mode is entered only through a close tag)
HtmlBoundariesClosed ==
   \A i \in 1 .. Len(inp) : inp[i].kind = "html" =>
       \/ \A l \in 1 .. i - 1 : inp[l].empty
       \/ \E j \in 1 .. i - 1 : /\ ~inp[j].empty /\ inp[j].close
                                /\ \A l \in j + 1 .. i - 1 : inp[l].empty

\* C02: a tree that came from the scanner is reproduced without any insertion
Inserted(p) == p \in {OPEN, SP, CLOSE}
SourceVerbatim == (AllSource /\ HtmlBoundariesClosed) => \A k \in 1 .. Len(out) : ~Inserted(out[k])

\* every non-empty chunk is written exactly once and in order; empty chunks are not written
ChunkPos == {k \in 1 .. Len(out) : IsChunk(out[k])}
EveryChunkOnce ==
   /\ \A i \in 1 .. Len(inp) : Cardinality({k \in ChunkPos : out[k][2] = i}) = (IF inp[i].empty THEN 0 ELSE 1)
   /\ \A k, l \in ChunkPos : k < l => out[k][2] < out[l][2]

HasPrev(k) == \E j \in 1 .. k - 1 : IsChunk(out[j])
PrevChunk(k) == CHOOSE j \in 1 .. k - 1 : IsChunk(out[j]) /\ \A l \in j + 1 .. k - 1 : ~IsChunk(out[l])

\* C15/C17: two name bytes of different chunks never fuse when at least one side is synthetic ...
NoGlue == \A k \in ChunkPos : HasPrev(k) =>
   LET b == inp[out[k][2]]
       a == inp[out[PrevChunk(k)][2]]
   IN (a.lw /\ b.fw /\ (Synth(b) \/ Synth(a))) => \E j \in PrevChunk(k) + 1 .. k - 1 : out[j] \in {SP, CLOSE}

\* ... PHP text that did not come from the source is never emitted while the output is in HTML mode.
\* The output is in HTML mode at piece k when the nearest preceding mode-setting piece (inline HTML, an inserted
\* open tag, a chunk that starts with "<?") is inline HTML, or there is none and the printer started in HTML mode.
ModeSetters(k) == {j \in 1 .. k - 1 : \/ out[j] = OPEN \/ out[j][1] = "H"
                                      \/ (IsChunk(out[j]) /\ (inp[out[j][2]].kind = "html" \/ inp[out[j][2]].open))}
Max(S) == CHOOSE x \in S : \A y \in S : y <= x
InHtmlAt(k) == IF ModeSetters(k) = {} THEN mode0 = "html"
               ELSE LET j == Max(ModeSetters(k)) IN out[j][1] = "H" \/ (IsChunk(out[j]) /\ inp[out[j][2]].kind = "html")
ModeAgrees == (mode = "html") = InHtmlAt(Len(out) + 1)
OpenTagWhenNeeded == \A k \in ChunkPos :
   LET b == inp[out[k][2]] IN
   (b.kind # "html" /\ Synth(b) /\ ~b.open /\ InHtmlAt(k)) => FALSE   \* such a chunk always has an OPEN in front, which makes InHtmlAt(k) false

\* ... and a space / open tag / close tag appears only where it is needed
Minimal == \A k \in 1 .. Len(out) :
   /\ out[k] = SP => /\ k < Len(out) /\ IsChunk(out[k + 1]) /\ inp[out[k + 1][2]].fw
                       /\ HasPrev(k) /\ inp[out[PrevChunk(k)][2]].lw
   /\ out[k] = OPEN => /\ k < Len(out) /\ InHtmlAt(k)
                         /\ (out[k + 1] = SP \/ (IsChunk(out[k + 1]) /\ ~inp[out[k + 1][2]].open))
   /\ out[k] = CLOSE => HasPrev(k) /\ ~inp[out[PrevChunk(k)][2]].close

TypeOK == /\ mode \in {"html", "php"} /\ lastSyn \in BOOLEAN /\ Len(inp) <= MaxLen
          /\ last \in [some : BOOLEAN, lw : BOOLEAN, close : BOOLEAN]
=============================================================================
