----------------------------- MODULE PoolTrace -----------------------------
(* Trace validation for C18.  An ND-JSON trace recorded from a real pool is  *)
(* a sequence of events                                                      *)
(*    g  (h = identity of the returned object derived from its ADDRESS,      *)
(*        nil, off, size = allocator state after the call)                   *)
(*    w  (k = which Get's object, v)      r  (k, v = value read back)        *)
(*    reset (size)                        start of the next pool             *)
(* The trace must be a behaviour of PoolAbs (the property).  Level = "blk"   *)
(* additionally checks the block arithmetic of Pool.tla (refinement          *)
(* conformance - reported, never a verdict).                                 *)
EXTENDS Naturals, Sequences, FiniteSets, TLC, Json

CONSTANTS Level   \* "abs" or "blk"

Tr == ndJsonDeserialize("trace.ndjson")

VARIABLES live, mem, last,    \* PoolAbs
          order,              \* handle returned by the k-th Get
          blk, off, size,     \* block view
          l

tvars == <<live, mem, last, order, blk, off, size, l>>

Abs == INSTANCE PoolAbs WITH H <- Nat, Vals <- Nat

Ev == Tr[l]
Is(e) == l <= Len(Tr) /\ Ev.op = e
Adv == l' = l + 1

TInit == /\ TLCSet(1, 0) /\ l = 1 /\ Abs!AInit /\ order = <<>> /\ blk = 1 /\ off = 0 /\ size = 0

TReset == /\ Is("reset") /\ Adv
          /\ live' = {} /\ mem' = <<>> /\ last' = "none" /\ order' = <<>>
          /\ blk' = 1 /\ off' = 0 /\ size' = Ev.size

BlockStep == IF Level = "blk"
             THEN LET roll == (off = size) IN
                  /\ Ev.size = size
                  /\ off' = (IF roll THEN 0 ELSE off) + 1
                  /\ Ev.off = off'
                  /\ blk' = IF roll THEN blk + 1 ELSE blk
             ELSE UNCHANGED <<blk, off>>

TGet == /\ Is("g") /\ Adv
        /\ Ev.nil = FALSE                 \* non-nil for every positive size
        /\ Abs!Get(Ev.h)                  \* enabled only if the object was never returned before
        /\ order' = Append(order, Ev.h)
        /\ BlockStep
        /\ UNCHANGED size

TWrite == /\ Is("w") /\ Adv
          /\ Ev.k + 1 \in 1 .. Len(order)
          /\ Abs!Write(order[Ev.k + 1], Ev.v)
          /\ UNCHANGED <<order, blk, off, size>>

TRead == /\ Is("r") /\ Adv
         /\ Ev.k + 1 \in 1 .. Len(order)
         /\ mem[order[Ev.k + 1]] = Ev.v   \* a read sees the last write through the same object
         /\ UNCHANGED <<live, mem, last, order, blk, off, size>>

TNext == TReset \/ TGet \/ TWrite \/ TRead

TSpec == TInit /\ [][TNext]_tvars

\* acceptance: the whole trace was consumed
HighWater == TLCSet(1, IF TLCGet(1) > l THEN TLCGet(1) ELSE l)
Accepted == IF TLCGet(1) = Len(Tr) + 1 THEN TRUE
            ELSE PrintT(ToJson(<<"REJECTED_AT", TLCGet(1)>>)) /\ FALSE
Fresh == Abs!Fresh
=============================================================================
