-------------------------------- MODULE Pool --------------------------------
(* The block allocator of pkg/token/pool.go and pkg/position/pool.go (the    *)
(* two files are textually identical): a current block of Size objects and   *)
(* the index of the next free one; a full block is replaced by a fresh one.  *)
(* Handles are <<block number, index>>.  Refines PoolAbs.                    *)
EXTENDS Naturals, FiniteSets, Sequences, TLC, Json

CONSTANTS Size,      \* block size, >= 1
          MaxGets,   \* bound for model checking
          MaxWrites,
          Vals

VARIABLES blk,       \* number of the current block (NewPool allocates block 1)
          off,       \* next free index in the current block
          live, mem, last,
          order,     \* history: handles in the order they were returned
          ops,       \* history: operations performed (for replay on the implementation)
          nw,        \* history: number of writes
          done

vars == <<blk, off, live, mem, last, order, ops, nw, done>>

Blocks == 1 .. (MaxGets + 1)
Handles == Blocks \X (0 .. Size - 1)

Abs == INSTANCE PoolAbs WITH H <- Handles

Init == /\ blk = 1 /\ off = 0
        /\ Abs!AInit
        /\ order = <<>> /\ ops = <<>> /\ nw = 0 /\ done = FALSE

\* Pool.Get: "if len(block) == off { block = make(...); off = 0 }; off++; return &block[off-1]"
PGet == /\ ~done /\ Len(order) < MaxGets
        /\ LET roll == (off = Size)
               b    == IF roll THEN blk + 1 ELSE blk
               o    == IF roll THEN 0 ELSE off
               h    == <<b, o>>
           IN /\ blk' = b
              /\ off' = o + 1
              /\ Abs!Get(h)
              /\ order' = Append(order, h)
              /\ ops' = Append(ops, <<"g">>)
        /\ UNCHANGED <<nw, done>>

PWrite == /\ ~done /\ nw < MaxWrites
          /\ \E k \in 1 .. Len(order), v \in Vals :
                /\ Abs!Write(order[k], v)
                /\ ops' = Append(ops, <<"w", k - 1, v>>)
          /\ nw' = nw + 1
          /\ UNCHANGED <<blk, off, order, done>>

\* Emits the behaviour (operations + the memory a client must observe afterwards).
Finish == /\ ~done /\ Len(order) = MaxGets
          /\ done' = TRUE
          /\ PrintT(ToJson([size |-> Size, ops |-> ops,
                            expect |-> [k \in 1 .. Len(order) |-> mem[order[k]]]]))
          /\ UNCHANGED <<blk, off, live, mem, last, order, ops, nw>>

Next == PGet \/ PWrite \/ Finish

Spec == Init /\ [][Next]_vars

TypeOK == /\ blk \in Blocks /\ off \in 0 .. Size
          /\ Abs!ATypeOK

\* the block-level invariant: exactly the handles below the cursor are live
BlockInv == live = {h \in Handles : (h[1] < blk) \/ (h[1] = blk /\ h[2] < off)}

CountInv == Cardinality(live) = Len(order)

Refines == Abs!ASpec
Fresh == Abs!Fresh
NonInterference == Abs!NonInterference
=============================================================================
