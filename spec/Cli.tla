-------------------------------- MODULE Cli --------------------------------
(* The command line tool cmd/php-parser as a concurrent system (C11, C02,   *)
(* C16, C06 in their real packaging): the main goroutine walks the files    *)
(* (wg.Add, ReadFile, send on fileCh), NW parser workers take files from    *)
(* fileCh, parse them and send the result on resultCh, ONE printer          *)
(* goroutine takes results, writes the outputs (-pb / -d / -e / -r) and     *)
(* calls wg.Done; main waits for the WaitGroup, closes both channels and    *)
(* returns, which ends the process whatever the other goroutines are doing. *)
(*                                                                          *)
(* One action per blocking operation / critical step of main.go:            *)
(*   Add Send WalkEnd Wait Close | Take Parse RSend TakeClosed | PTake Print *)
(* Every per-file object (the source buffer the tokens alias, the root node, *)
(* the error slice) is owned by one file from its creation to the file's    *)
(* Print; "stamp" records which file's data an object holds now, so that    *)
(* Print can say whose data it shows.  The code creates fresh objects per   *)
(* file (Deviation = "none").  Two named deviations, which the code does    *)
(* NOT have, exist to show that the invariants are not vacuous and what a   *)
(* breach looks like: "recycle" (a source buffer is put on a free list as   *)
(* soon as Parse has returned) and "workererrs" (each worker keeps one      *)
(* error slice and resets it per file).                                     *)
EXTENDS Naturals, Sequences, FiniteSets, TLC, Json

CONSTANTS F,          \* number of files
          NW,         \* parser workers (GOMAXPROCS in the code)
          Cap,        \* capacity of both channels (GOMAXPROCS in the code)
          NObj,       \* size of the object-id universe
          Deviation,  \* "none" | "recycle" | "workererrs"
          PickAny     \* TRUE: a new object is ANY object that no live file owns (trace validation); FALSE: the least one

Files == 1 .. F
Workers == 1 .. NW
Obj == 1 .. NObj

VARIABLES wk,        \* main goroutine: [pc, i]; pc in add | send | wait | close | exit ; i = file in hand / next file
          wg,        \* the WaitGroup counter
          fileCh, resultCh, closed,
          wst,       \* wst[w] = [pc, f]; pc in take | parse | rsend | exit
          pr,        \* printer [pc, f]; pc in ptake | print | exit
          own,       \* own[f]: objects the processing of f holds (source buffer; root node and error slice after Parse)
          stamp,     \* stamp[o]: the file whose data object o holds now (0: none)
          free,      \* deviation "recycle": buffers put back for reuse
          werrs,     \* deviation "workererrs": the error slice each worker keeps (0: none yet)
          out,       \* history: what the printer wrote, in order: [f, shows]
          sched      \* history: labels of the actions taken (payload for schedule replay)
vars == <<wk, wg, fileCh, resultCh, closed, wst, pr, own, stamp, free, werrs, out, sched>>
view == <<wk, wg, fileCh, resultCh, closed, wst, pr, own, stamp, free, werrs, out>>

Printed == {out[k].f : k \in 1 .. Len(out)}
Added == {f \in Files : f < wk.i \/ (f = wk.i /\ wk.pc = "send")}      \* files are added in walk order
LiveFiles == Added \ Printed
LiveObjs == UNION {own[f] : f \in LiveFiles}
Running == wk.pc # "exit"

Least(S) == CHOOSE x \in S : \A y \in S : x <= y
NewObjs(n, avoid) ==      \* the candidate sets of n new objects
    LET cand == Obj \ avoid IN
    IF n = 0 THEN {{}}
    ELSE IF PickAny THEN (IF n = 1 THEN {{x} : x \in cand} ELSE {{x, y} : x \in cand, y \in cand} \ {{x} : x \in cand})
    ELSE IF n = 1 THEN {{Least(cand)}}
    ELSE {{Least(cand), Least(cand \ {Least(cand)})}}

Init == /\ wk = [pc |-> "add", i |-> 1] /\ wg = 0
        /\ fileCh = <<>> /\ resultCh = <<>> /\ closed = FALSE
        /\ wst = [w \in Workers |-> [pc |-> "take", f |-> 0]]
        /\ pr = [pc |-> "ptake", f |-> 0]
        /\ own = [f \in Files |-> {}] /\ stamp = [o \in Obj |-> 0]
        /\ free = {} /\ werrs = [w \in Workers |-> 0]
        /\ out = <<>> /\ sched = <<>>

Log(a) == sched' = Append(sched, a)

(* ---- main goroutine: processPath, wg.Wait, close ---- *)
AddWith(b) ==            \* wg.Add(1); content := ReadFile(path) into buffer b
    /\ Running /\ wk.pc = "add" /\ wk.i <= F
    /\ own' = [own EXCEPT ![wk.i] = {b}]
    /\ stamp' = [stamp EXCEPT ![b] = wk.i]
    /\ free' = free \ {b}
    /\ wg' = wg + 1
    /\ wk' = [wk EXCEPT !.pc = "send"]
    /\ Log(<<"walker", "add">>)
    /\ UNCHANGED <<fileCh, resultCh, closed, wst, pr, werrs, out>>
Add == \/ \E S \in NewObjs(1, LiveObjs \cup free) : \E b \in S : AddWith(b)
       \/ Deviation = "recycle" /\ \E b \in free : AddWith(b)          \* a recycled buffer: possibly still aliased by a live tree

Send == /\ Running /\ wk.pc = "send" /\ Len(fileCh) < Cap
        /\ fileCh' = Append(fileCh, wk.i)
        /\ wk' = [pc |-> "add", i |-> wk.i + 1]
        /\ Log(<<"walker", "send">>)
        /\ UNCHANGED <<wg, resultCh, closed, wst, pr, own, stamp, free, werrs, out>>

WalkEnd == /\ Running /\ wk.pc = "add" /\ wk.i > F          \* processPath returns (no event of its own)
           /\ wk' = [wk EXCEPT !.pc = "wait"]
           /\ UNCHANGED <<wg, fileCh, resultCh, closed, wst, pr, own, stamp, free, werrs, out, sched>>

Wait == /\ Running /\ wk.pc = "wait" /\ wg = 0             \* wg.Wait() returns
        /\ wk' = [wk EXCEPT !.pc = "close"]
        /\ Log(<<"main", "wait">>)
        /\ UNCHANGED <<wg, fileCh, resultCh, closed, wst, pr, own, stamp, free, werrs, out>>

Close == /\ Running /\ wk.pc = "close"                     \* close(fileCh); close(resultCh); return from main
         /\ closed' = TRUE
         /\ wk' = [wk EXCEPT !.pc = "exit"]
         /\ Log(<<"main", "close">>)
         /\ UNCHANGED <<wg, fileCh, resultCh, wst, pr, own, stamp, free, werrs, out>>

(* ---- parser workers ---- *)
Take(w) == /\ Running /\ wst[w].pc = "take" /\ fileCh # <<>>
           /\ wst' = [wst EXCEPT ![w] = [pc |-> "parse", f |-> Head(fileCh)]]
           /\ fileCh' = Tail(fileCh)
           /\ Log(<<"w", w, "take">>)
           /\ UNCHANGED <<wk, wg, resultCh, closed, pr, own, stamp, free, werrs, out>>

TakeClosed(w) == /\ Running /\ wst[w].pc = "take" /\ fileCh = <<>> /\ closed
                 /\ wst' = [wst EXCEPT ![w].pc = "exit"]
                 /\ UNCHANGED <<wk, wg, fileCh, resultCh, closed, pr, own, stamp, free, werrs, out, sched>>

ParseWith(w, res, tree) ==  \* parser.Parse returns: the result objects (root node, error slice) are new; tree = a root was returned
    LET f == wst[w].f         \* (the tokens of the tree alias the source buffer; without a tree nothing refers to it any more)
        buf == own[f]
        keep == IF Deviation = "workererrs" /\ werrs[w] # 0 THEN {werrs[w]} ELSE {}
    IN /\ own' = [own EXCEPT ![f] = (IF tree THEN buf ELSE {}) \cup res \cup keep]
       /\ stamp' = [o \in Obj |-> IF o \in res \cup keep THEN f ELSE stamp[o]]
       /\ free' = IF Deviation = "recycle" THEN free \cup buf ELSE free
       /\ werrs' = IF Deviation = "workererrs" /\ werrs[w] = 0 THEN [werrs EXCEPT ![w] = Least(res)] ELSE werrs
       /\ wst' = [wst EXCEPT ![w].pc = "rsend"]
       /\ Log(<<"w", w, "parse">>)
       /\ UNCHANGED <<wk, wg, fileCh, resultCh, closed, pr, out>>
Parse(w) == /\ Running /\ wst[w].pc = "parse"
            /\ \E n \in {1, 2} : \E res \in NewObjs(n, LiveObjs \cup free \cup {werrs[v] : v \in Workers}) :
                  \E tree \in (IF n = 2 THEN {TRUE} ELSE BOOLEAN) : ParseWith(w, res, tree)

RSend(w) == /\ Running /\ wst[w].pc = "rsend" /\ Len(resultCh) < Cap /\ ~closed
            /\ resultCh' = Append(resultCh, wst[w].f)
            /\ wst' = [wst EXCEPT ![w] = [pc |-> "take", f |-> 0]]
            /\ Log(<<"w", w, "rsend">>)
            /\ UNCHANGED <<wk, wg, fileCh, closed, pr, own, stamp, free, werrs, out>>

(* ---- the printer goroutine ---- *)
PTake == /\ Running /\ pr.pc = "ptake" /\ resultCh # <<>>
         /\ pr' = [pc |-> "print", f |-> Head(resultCh)]
         /\ resultCh' = Tail(resultCh)
         /\ Log(<<"printer", "ptake">>)
         /\ UNCHANGED <<wk, wg, fileCh, closed, wst, own, stamp, free, werrs, out>>

PTakeClosed == /\ Running /\ pr.pc = "ptake" /\ resultCh = <<>> /\ closed
               /\ pr' = [pr EXCEPT !.pc = "exit"]
               /\ UNCHANGED <<wk, wg, fileCh, resultCh, closed, wst, own, stamp, free, werrs, out, sched>>

PrintOut == /\ Running /\ pr.pc = "print"                        \* all outputs of the file, then wg.Done()
         /\ out' = Append(out, [f |-> pr.f, shows |-> {stamp[o] : o \in own[pr.f]}])
         /\ wg' = wg - 1
         /\ pr' = [pc |-> "ptake", f |-> 0]
         /\ Log(<<"printer", "print">>)
         /\ UNCHANGED <<wk, fileCh, resultCh, closed, wst, own, stamp, free, werrs>>

Next == \/ Add \/ Send \/ WalkEnd \/ Wait \/ Close
        \/ \E w \in Workers : Take(w) \/ TakeClosed(w) \/ Parse(w) \/ RSend(w)
        \/ PTake \/ PTakeClosed \/ PrintOut

Spec == Init /\ [][Next]_vars
FairSpec == Spec /\ WF_vars(Next)

(* ---- properties ---- *)
TypeOK == /\ wk.pc \in {"add", "send", "wait", "close", "exit"} /\ wk.i \in 1 .. F + 1
          /\ wg \in 0 .. F
          /\ Len(fileCh) <= Cap /\ Len(resultCh) <= Cap
          /\ \A w \in Workers : wst[w].pc \in {"take", "parse", "rsend", "exit"}
          /\ pr.pc \in {"ptake", "print", "exit"}

InHand(f) ==   (IF wk.pc = "send" /\ wk.i = f THEN 1 ELSE 0)
             + Cardinality({k \in 1 .. Len(fileCh) : fileCh[k] = f})
             + Cardinality({w \in Workers : wst[w].pc \in {"parse", "rsend"} /\ wst[w].f = f})
             + Cardinality({k \in 1 .. Len(resultCh) : resultCh[k] = f})
             + (IF pr.pc = "print" /\ pr.f = f THEN 1 ELSE 0)

WgCounts == wg = Cardinality(LiveFiles)                         \* the WaitGroup counts the files on their way
Conservation == \A f \in Files : InHand(f) = IF f \in LiveFiles THEN 1 ELSE 0      \* a file on its way is in exactly one place
OnceEach == \A j, k \in 1 .. Len(out) : out[j].f = out[k].f => j = k
PrintsOwn == \A k \in 1 .. Len(out) : out[k].shows = {out[k].f}  \* every output shows its own file's data and nothing else
PrintsOwnCex == PrintsOwn \/ (PrintT(ToJson([cex |-> sched])) /\ FALSE)      \* the same, printing the behaviour that breaks it
Ownership == \A f, g \in LiveFiles : f # g => own[f] \cap own[g] = {}
ExitComplete == wk.pc \in {"close", "exit"} => Printed = Files  \* main returns only after every file was written
NoSendOnClosed == closed => /\ wk.pc = "exit"
                            /\ \A w \in Workers : wst[w].pc \notin {"parse", "rsend"}

Terminates == <>(wk.pc = "exit")

(* the behaviour's payload, printed once per complete run (schedule replay) *)
Emit == wk.pc = "exit" => PrintT(ToJson([sched |-> sched]))
=============================================================================
