------------------------------- MODULE Lexer -------------------------------
(* The scanner of internal/scanner (ragel machine + lexer.go) as a pushdown mode   *)
(* machine over LEXEME ATOMS.  An atom is a class of byte strings (concretised by  *)
(* the harness lexicon: several spellings each); applying an atom in a mode says   *)
(* which tokens / free-floating tokens the scanner owes, and what happens to the   *)
(* mode and to the call stack.  This is the lexical specification of PHP as far as *)
(* this library promises to implement it (C01, C03, C04, C08, C09).                *)
(*                                                                                 *)
(* Deliberate deviations of the code from PHP are named: RetUnderflow ('}' with an *)
(* empty stack keeps scanning PHP), HaltFallback (__halt_compiler not followed by  *)
(* "( ) ;" falls back to PHP mode), PropertyFallback.                              *)
EXTENDS LexTok, Naturals, Sequences, FiniteSets, TLC, Json

CONSTANTS MaxAtoms,   \* longest atom path
          MaxStack,   \* deepest call stack explored
          Flex,       \* BOOLEAN: version >= 7.3 (flexible heredoc terminator) - the ONLY version-dependent rule
          Small,      \* BOOLEAN: one representative per atom family (quick tier) or all of them
          LocalMax    \* 0, or: inside the index of "$a[...]" (string_var_index) all atom paths of up to LocalMax atoms are
                      \* distinguished, so that every sequence of LocalMax + 1 index atoms is a behaviour of its own

VARIABLES mode, stack,
          ws,        \* "none" | "ws" | "text" | "html": the last token can absorb a following run of the same kind
          ni,        \* inside "..." and no interpolation seen yet (the closing quote would have made a constant string)
          bol,       \* in heredoc/nowdoc body: at the beginning of a line
          after,     \* 0 | 1 | 2: just after a heredoc terminator / after terminator + ';' (< 7.3 needs newline next)
          arrow,     \* in string_var: the one "->name" has been used
          path,      \* history: atoms consumed
          out,       \* history: tokens owed so far
          nerr,      \* history: lexer warnings owed
          ex,        \* history: only atoms with a fully prescribed token stream so far
          local,     \* the first LocalMax atoms consumed since string_var_index was entered (<<>> outside, or when LocalMax = 0)
          done

view == <<mode, stack, ws, ni, bol, after, arrow, local, done>>
vars == <<mode, stack, ws, ni, bol, after, arrow, path, out, nerr, ex, local, done>>

\* ---------------------------------------------------------------- vocabularies

Keywords == <<
  <<"abstract", "T_ABSTRACT">>, <<"array", "T_ARRAY">>, <<"as", "T_AS">>, <<"break", "T_BREAK">>,
  <<"callable", "T_CALLABLE">>, <<"case", "T_CASE">>, <<"catch", "T_CATCH">>, <<"class", "T_CLASS">>,
  <<"clone", "T_CLONE">>, <<"const", "T_CONST">>, <<"continue", "T_CONTINUE">>, <<"declare", "T_DECLARE">>,
  <<"default", "T_DEFAULT">>, <<"do", "T_DO">>, <<"echo", "T_ECHO">>, <<"else", "T_ELSE">>,
  <<"elseif", "T_ELSEIF">>, <<"empty", "T_EMPTY">>, <<"enddeclare", "T_ENDDECLARE">>, <<"endfor", "T_ENDFOR">>,
  <<"endforeach", "T_ENDFOREACH">>, <<"endif", "T_ENDIF">>, <<"endswitch", "T_ENDSWITCH">>, <<"endwhile", "T_ENDWHILE">>,
  <<"eval", "T_EVAL">>, <<"exit", "T_EXIT">>, <<"die", "T_EXIT">>, <<"extends", "T_EXTENDS">>, <<"final", "T_FINAL">>,
  <<"finally", "T_FINALLY">>, <<"for", "T_FOR">>, <<"foreach", "T_FOREACH">>, <<"function", "T_FUNCTION">>,
  <<"cfunction", "T_FUNCTION">>, <<"fn", "T_FN">>, <<"global", "T_GLOBAL">>, <<"goto", "T_GOTO">>, <<"if", "T_IF">>,
  <<"isset", "T_ISSET">>, <<"implements", "T_IMPLEMENTS">>, <<"instanceof", "T_INSTANCEOF">>, <<"insteadof", "T_INSTEADOF">>,
  <<"interface", "T_INTERFACE">>, <<"list", "T_LIST">>, <<"namespace", "T_NAMESPACE">>, <<"private", "T_PRIVATE">>,
  <<"public", "T_PUBLIC">>, <<"print", "T_PRINT">>, <<"protected", "T_PROTECTED">>, <<"return", "T_RETURN">>,
  <<"static", "T_STATIC">>, <<"switch", "T_SWITCH">>, <<"throw", "T_THROW">>, <<"trait", "T_TRAIT">>, <<"try", "T_TRY">>,
  <<"unset", "T_UNSET">>, <<"use", "T_USE">>, <<"var", "T_VAR">>, <<"while", "T_WHILE">>, <<"yield", "T_YIELD">>,
  <<"include", "T_INCLUDE">>, <<"include_once", "T_INCLUDE_ONCE">>, <<"require", "T_REQUIRE">>, <<"require_once", "T_REQUIRE_ONCE">>,
  <<"__CLASS__", "T_CLASS_C">>, <<"__DIR__", "T_DIR">>, <<"__FILE__", "T_FILE">>, <<"__FUNCTION__", "T_FUNC_C">>,
  <<"__LINE__", "T_LINE">>, <<"__NAMESPACE__", "T_NS_C">>, <<"__METHOD__", "T_METHOD_C">>, <<"__TRAIT__", "T_TRAIT_C">>,
  <<"new", "T_NEW">>, <<"and", "T_LOGICAL_AND">>, <<"or", "T_LOGICAL_OR">>, <<"xor", "T_LOGICAL_XOR">> >>

Operators == <<
  <<"...", "T_ELLIPSIS">>, <<"::", "T_PAAMAYIM_NEKUDOTAYIM">>, <<"&&", "T_BOOLEAN_AND">>, <<"||", "T_BOOLEAN_OR">>,
  <<"&=", "T_AND_EQUAL">>, <<"|=", "T_OR_EQUAL">>, <<".=", "T_CONCAT_EQUAL">>, <<"*=", "T_MUL_EQUAL">>, <<"**=", "T_POW_EQUAL">>,
  <<"/=", "T_DIV_EQUAL">>, <<"+=", "T_PLUS_EQUAL">>, <<"-=", "T_MINUS_EQUAL">>, <<"^=", "T_XOR_EQUAL">>, <<"%=", "T_MOD_EQUAL">>,
  <<"--", "T_DEC">>, <<"++", "T_INC">>, <<"=>", "T_DOUBLE_ARROW">>, <<"<=>", "T_SPACESHIP">>, <<"!=", "T_IS_NOT_EQUAL">>,
  <<"<>", "T_IS_NOT_EQUAL">>, <<"!==", "T_IS_NOT_IDENTICAL">>, <<"==", "T_IS_EQUAL">>, <<"===", "T_IS_IDENTICAL">>,
  <<"<<=", "T_SL_EQUAL">>, <<">>=", "T_SR_EQUAL">>, <<">=", "T_IS_GREATER_OR_EQUAL">>, <<"<=", "T_IS_SMALLER_OR_EQUAL">>,
  <<"**", "T_POW">>, <<"<<", "T_SL">>, <<">>", "T_SR">>, <<"??", "T_COALESCE">>, <<"??=", "T_COALESCE_EQUAL">>,
  <<"\\", "T_NS_SEPARATOR">> >>

\* single-character tokens: the token id is the character itself
Chars == {";", ":", ",", ".", "[", "]", "(", ")", "|", "/", "^", "&", "+", "-", "*", "=", "%", "!", "~", "$", "<", ">", "?", "@"}

Casts == << <<"array", "T_ARRAY_CAST">>, <<"bool", "T_BOOL_CAST">>, <<"boolean", "T_BOOL_CAST">>, <<"real", "T_DOUBLE_CAST">>,
            <<"double", "T_DOUBLE_CAST">>, <<"float", "T_DOUBLE_CAST">>, <<"int", "T_INT_CAST">>, <<"integer", "T_INT_CAST">>,
            <<"object", "T_OBJECT_CAST">>, <<"string", "T_STRING_CAST">>, <<"binary", "T_STRING_CAST">>, <<"unset", "T_UNSET_CAST">> >>

\* other one-token atoms of php mode
Simple == << <<"IDENT", "T_STRING">>, <<"IDENT_HIGH", "T_STRING">>, <<"VAR", "T_VARIABLE">>,
             <<"LNUM_DEC", "T_LNUMBER">>, <<"LNUM_OCT", "T_LNUMBER">>, <<"LNUM_HEX", "T_LNUMBER">>, <<"LNUM_BIN", "T_LNUMBER">>,
             <<"LNUM_SEP", "T_LNUMBER">>, <<"LNUM_OVERFLOW", "T_DNUMBER">>, <<"HEX_OVERFLOW", "T_DNUMBER">>,
             <<"DNUM", "T_DNUMBER">>, <<"DNUM_LEADDOT", "T_DNUMBER">>, <<"DNUM_TRAILDOT", "T_DNUMBER">>, <<"DNUM_EXP", "T_DNUMBER">>,
             <<"SQ_STR", "T_CONSTANT_ENCAPSED_STRING">>, <<"SQ_STR_NL", "T_CONSTANT_ENCAPSED_STRING">>,
             <<"DQ_CONST_STR", "T_CONSTANT_ENCAPSED_STRING">>, <<"DQ_CONST_DOLLAR", "T_CONSTANT_ENCAPSED_STRING">>,
             <<"B_DQ_STR", "T_CONSTANT_ENCAPSED_STRING">>,
             <<"YIELD_FROM", "T_YIELD_FROM">> >>

Idx(tbl) == 1 .. Len(tbl)
Pick(tbl) == IF Small THEN {1, Len(tbl)} ELSE Idx(tbl)

KwAtoms   == {"KW:" \o Keywords[i][1] : i \in (IF Small THEN {1, Len(Keywords) \div 3, Len(Keywords) \div 2, Len(Keywords) - 7, Len(Keywords)} ELSE Idx(Keywords))}
OpAtoms   == {"OP:" \o Operators[i][1] : i \in (IF Small THEN {1, 9, 33} ELSE Idx(Operators))}
ChAtoms   == {"CH:" \o c : c \in (IF Small THEN {";", "(", ")", "$", "-", ",", "["} ELSE Chars)}
CastAtoms == {"CAST:" \o Casts[i][1] : i \in Pick(Casts)}
SimpleAtoms == {Simple[i][1] : i \in (IF Small THEN {1, 3, 4, 12, 15, 17} ELSE Idx(Simple))}     \* (the Small picks are IDENT VAR LNUM_DEC DNUM_LEADDOT SQ_STR DQ_CONST_STR)

TokOf(tbl, pre, a) == LET i == CHOOSE j \in Idx(tbl) : pre \o tbl[j][1] = a IN tbl[i][2]

NameStartAtoms == {"IDENT", "IDENT_HIGH", "B_DQ_STR", "YIELD_FROM"}    \* atoms whose spelling begins with a name byte
WsAtoms == {"WS:sp", "WS:lf", "WS:crlf", "WS:cr"}
CommentAtoms == {"COMMENT:line_lf", "COMMENT:hash_crlf", "COMMENT:block", "COMMENT:doc", "COMMENT:empty"}

FallModes == {"php", "property", "halt_open", "halt_close", "halt_semi", "svname"}   \* modes that fall back to php scanning
StringModes == {"template", "backqote", "heredoc"}

\* ---------------------------------------------------------------- token records

T(id)     == [id |-> id, ff |-> FALSE, mg |-> FALSE]
FF(id)    == [id |-> id, ff |-> TRUE,  mg |-> FALSE]
FFm(id, m) == [id |-> id, ff |-> TRUE,  mg |-> m]
Tm(id, m)  == [id |-> id, ff |-> FALSE, mg |-> m]

Top == stack[Len(stack)]
Pop(n) == SubSeq(stack, 1, Len(stack) - n)

\* atoms whose tokenisation is not prescribed (the code's treatment is a recorded finding or PHP leaves it open)
Malformed == {"WS:cr"}

\* the generic effect of an atom
Eff(a, toks, m, st, w, n, b, af, ar, e) ==
   /\ ~done /\ Len(path) < MaxAtoms /\ Len(st) <= MaxStack
   /\ path' = Append(path, a)
   /\ out' = out \o [i \in 1 .. Len(toks) |-> [id |-> toks[i].id, ff |-> toks[i].ff, mg |-> toks[i].mg, a |-> Len(path) + 1]]
   /\ mode' = m /\ stack' = st /\ ws' = w /\ ni' = n /\ bol' = b /\ after' = af /\ arrow' = ar
   /\ nerr' = nerr + e
   /\ ex' = (ex /\ a \notin Malformed)
   /\ local' = IF LocalMax > 0 /\ m = "string_var_index" /\ mode = "string_var_index"
               THEN (IF Len(local) < LocalMax THEN Append(local, a) ELSE local)
               ELSE <<>>
   /\ UNCHANGED done

\* after a heredoc terminator under < 7.3 only ';' then a newline, or a newline, may follow (else it is no terminator)
AfterOK(a) == \/ after = 0
              \/ after = 1 /\ a \in {"CH:;", "WS:lf", "WS:crlf"}
              \/ after = 2 /\ a \in {"WS:lf", "WS:crlf"}
AfterNext(a) == IF after = 1 /\ a = "CH:;" THEN 2 ELSE 0

\* ---------------------------------------------------------------- main / html

Html == /\ mode \in {"main", "html"}
        /\ \/ (mode = "main" /\ path = <<>> /\ Eff("SHEBANG", <<FF("T_COMMENT")>>, "main", stack, "none", FALSE, FALSE, 0, FALSE, 0))
           \/ (ws # "html" /\ Eff("HTML_TEXT", <<T("T_INLINE_HTML")>>, "html", stack, "html", FALSE, FALSE, 0, FALSE, 0))
           \/ (\E w \in {"sp", "lf", "crlf"} :     \* "<?php" + one blank, which is scanned again in php mode
                 Eff("OPEN_PHP:" \o w, <<FF("T_OPEN_TAG"), FF("T_WHITESPACE")>>, "php", stack, "ws", FALSE, FALSE, 0, FALSE, 0))
           \/ Eff("OPEN_SHORT", <<FF("T_OPEN_TAG")>>, "php", stack, "none", FALSE, FALSE, 0, FALSE, 0)
           \/ Eff("OPEN_ECHO", <<T("T_ECHO")>>, "php", stack, "none", FALSE, FALSE, 0, FALSE, 0)

\* ---------------------------------------------------------------- php (and the modes that fall back to it)

Stay(a, id) == Eff(a, <<T(id)>>, "php", stack, "none", FALSE, FALSE, AfterNext(a), FALSE, 0)

Php == /\ mode \in FallModes
       /\ \/ \E a \in WsAtoms :          \* white space is free-floating in every one of these modes and merges with a preceding run
               /\ AfterOK(a) /\ mode # "svname"
               /\ Eff(a, <<FFm("T_WHITESPACE", ws = "ws")>>, mode, stack, "ws", FALSE, FALSE, 0, FALSE, 0)
          \/ \E a \in CommentAtoms :     \* comments exist only in php mode: the other modes fall back (HaltFallback, PropertyFallback)
               /\ after = 0
               /\ Eff(a, <<FF(IF a = "COMMENT:doc" THEN "T_DOC_COMMENT" ELSE "T_COMMENT")>>, "php", stack, "none", FALSE, FALSE, 0, FALSE, 0)
          \/ \E a \in KwAtoms : after = 0 /\ mode # "property" /\ Stay(a, TokOf(Keywords, "KW:", a))
          \/ \E a \in OpAtoms : after = 0 /\ Stay(a, TokOf(Operators, "OP:", a))
          \/ \E a \in ChAtoms : /\ AfterOK(a)
                                /\ ~(mode = "halt_open" /\ a = "CH:(") /\ ~(mode = "halt_close" /\ a = "CH:)") /\ ~(mode = "halt_semi" /\ a = "CH:;")
                                /\ Stay(a, a)
          \/ \E a \in CastAtoms : after = 0 /\ mode # "halt_open" /\ Stay(a, TokOf(Casts, "CAST:", a))   \* after __halt_compiler "(" is the halt rule's
          \/ \E a \in SimpleAtoms : /\ after = 0
                                    /\ ~(mode = "property" /\ a \in NameStartAtoms)   \* there the leading name bytes are the property name
                                    /\ Stay(a, TokOf(Simple, "", a))
          \* DEVIATION (finding D20): constant_string knows the binary prefix before '"' only, so  b'a'  is a name and a string
          \* (the same two tokens in the property state, where the name is the property name)
          \/ (after = 0 /\ Eff("B_SQ_STR", <<T("T_STRING"), T("T_CONSTANT_ENCAPSED_STRING")>>, "php", stack, "none", FALSE, FALSE, 0, FALSE, 0))
          \* "->" : the next name is a property name, whatever keyword it spells
          \/ (after = 0 /\ Eff("ARROW", <<T("T_OBJECT_OPERATOR")>>, "property", stack, "none", FALSE, FALSE, 0, FALSE, 0))
          \/ (mode = "property" /\ Eff("PROP_NAME", <<T("T_STRING")>>, "php", stack, "none", FALSE, FALSE, 0, FALSE, 0))
          \* braces drive the call stack
          \/ (after = 0 /\ Eff("LBRACE", <<T("CH:{")>>, "php", Append(stack, "php"), "none", FALSE, FALSE, 0, FALSE, 0))
          \/ (after = 0 /\ stack # <<>> /\ Eff("RBRACE", <<T("CH:}")>>, Top, Pop(1), "none", FALSE, FALSE, 0, FALSE, 0))
          \/ (after = 0 /\ stack = <<>> /\ Eff("RBRACE", <<T("CH:}")>>, "php", <<>>, "none", FALSE, FALSE, 0, FALSE, 0))     \* RetUnderflow
          \* strings
          \/ (after = 0 /\ Eff("DQUOTE", <<T("CH:\"")>>, "template", stack, "none", TRUE, FALSE, 0, FALSE, 0))
          \/ (after = 0 /\ Eff("BACKTICK", <<T("CH:`")>>, "backqote", stack, "none", FALSE, FALSE, 0, FALSE, 0))
          \/ \E q \in {"plain", "dq"} : after = 0 /\ ~(mode = "property" /\ q = "plain")     \* "b<<<A" is one of its spellings
                                         /\ Eff("HEREDOC_START:" \o q, <<T("T_START_HEREDOC")>>, "heredoc", stack, "none", FALSE, TRUE, 0, FALSE, 0)
          \/ (after = 0 /\ Eff("HEREDOC_START:sq", <<T("T_START_HEREDOC")>>, "nowdoc", stack, "none", FALSE, TRUE, 0, FALSE, 0))
          \* leaving php
          \/ \E a \in {"CLOSE_TAG", "CLOSE_TAG:lf", "SEMI_CLOSE_TAG"} :
               after = 0 /\ ~(mode = "halt_semi" /\ a = "SEMI_CLOSE_TAG")       \* there the ";" belongs to the halt rule
               /\ Eff(a, <<T("CH:;")>>, "html", stack, "none", FALSE, FALSE, 0, FALSE, 0)
          \* a "//" comment ended by the close tag: the comment stops before "?>"
          \/ (after = 0 /\ Eff("COMMENT_THEN_CLOSE_TAG", <<FF("T_COMMENT"), T("CH:;")>>, "html", stack, "none", FALSE, FALSE, 0, FALSE, 0))
          \/ (after = 0 /\ mode # "property" /\ Eff("KW:__halt_compiler", <<T("T_HALT_COMPILER")>>, "halt_open", stack, "none", FALSE, FALSE, 0, FALSE, 0))
          \/ (mode = "halt_open"  /\ Eff("CH:(", <<T("CH:(")>>, "halt_close", stack, "none", FALSE, FALSE, 0, FALSE, 0))
          \/ (mode = "halt_close" /\ Eff("CH:)", <<T("CH:)")>>, "halt_semi", stack, "none", FALSE, FALSE, 0, FALSE, 0))
          \/ (mode = "halt_semi"  /\ Eff("CH:;", <<T("CH:;")>>, "halt_end", stack, "none", FALSE, FALSE, 0, FALSE, 0))
          \* a character no rule knows: a warning, no token, one byte skipped
          \/ (after = 0 /\ Eff("BADCHAR", <<>>, "php", stack, "none", FALSE, FALSE, 0, FALSE, 1))
          \* "${name}" / "${name[": the name, then php scanning goes on
          \/ (mode = "svname" /\ stack # <<>> /\ Eff("SVNAME_RBRACE", <<T("T_STRING_VARNAME"), T("CH:}")>>, Top, Pop(1), "none", FALSE, FALSE, 0, FALSE, 0))
          \/ (mode = "svname" /\ Eff("SVNAME_LBRACKET", <<T("T_STRING_VARNAME"), T("CH:[")>>, "php", stack, "none", FALSE, FALSE, 0, FALSE, 0))

HaltEnd == mode = "halt_end" /\ ws # "payload"
           /\ Eff("HALT_PAYLOAD", <<FF("T_HALT_COMPILER")>>, "halt_end", stack, "payload", FALSE, FALSE, 0, FALSE, 0)

\* ---------------------------------------------------------------- strings

StrBody(m, st) ==     \* what may follow inside a string mode m with stack st (also used when string_var falls out)
   \/ \E a \in {"STR_TEXT", "STR_ESC"} :
        Eff(a, <<Tm("T_ENCAPSED_AND_WHITESPACE", ws = "text" /\ mode = m)>>, m, st, "text", ni, FALSE, 0, FALSE, 0)
   \/ (m = "heredoc" /\ Eff("HD_TEXT_LINE", <<Tm("T_ENCAPSED_AND_WHITESPACE", ws = "text" /\ mode = m)>>, m, st, "text", FALSE, TRUE, 0, FALSE, 0))
   \/ Eff("SV_VAR", <<T("T_VARIABLE")>>, "string_var", Append(st, m), "none", FALSE, FALSE, 0, FALSE, 0)
   \/ Eff("CURLY_OPEN_VAR", <<T("T_CURLY_OPEN"), T("T_VARIABLE")>>, "php", Append(st, m), "none", FALSE, FALSE, 0, FALSE, 0)
   \/ Eff("DOLLAR_CURLY", <<T("T_DOLLAR_OPEN_CURLY_BRACES")>>, "svname", Append(st, m), "none", FALSE, FALSE, 0, FALSE, 0)
   \/ (m = "template" /\ ~ni /\ Eff("DQUOTE_CLOSE", <<T("CH:\"")>>, "php", st, "none", FALSE, FALSE, 0, FALSE, 0))
   \/ (m = "backqote" /\ Eff("BACKTICK_CLOSE", <<T("CH:`")>>, "php", st, "none", FALSE, FALSE, 0, FALSE, 0))
   \* heredoc terminator: at the beginning of a line; an indented one only under >= 7.3
   \/ (m = "heredoc" /\ mode = m /\ bol /\
         \E v \in (IF Flex THEN {"HD_END", "HD_END:indented"} ELSE {"HD_END"}) :
            Eff(v, <<T("T_END_HEREDOC")>>, "php", st, "none", FALSE, FALSE, IF Flex THEN 0 ELSE 1, FALSE, 0))

Str == mode \in StringModes /\ StrBody(mode, stack)

Nowdoc == /\ mode = "nowdoc"
          /\ \/ (ws # "text" /\ Eff("NOWDOC_BODY", <<T("T_ENCAPSED_AND_WHITESPACE")>>, "nowdoc", stack, "text", FALSE, TRUE, 0, FALSE, 0))
             \/ Eff("HD_END", <<T("T_END_HEREDOC")>>, "php", stack, "none", FALSE, FALSE, IF Flex THEN 0 ELSE 1, FALSE, 0)

StrVar == /\ mode = "string_var" /\ stack # <<>>
          /\ \/ Eff("SV_LBRACKET", <<T("CH:[")>>, "string_var_index", Append(stack, "string_var"), "none", FALSE, FALSE, 0, FALSE, 0)
             \/ (~arrow /\ Eff("SV_ARROW_NAME", <<T("T_OBJECT_OPERATOR"), T("T_STRING")>>, "string_var", stack, "none", FALSE, FALSE, 0, TRUE, 0))
             \/ StrBody(Top, Pop(1))                   \* anything else: fall out (fret) and scan it in the string mode

StrIdx == /\ mode = "string_var_index" /\ Len(stack) >= 2
          /\ \/ \E p \in {<<"IDX_NUM", "T_NUM_STRING">>, <<"IDX_HEX", "T_NUM_STRING">>, <<"IDX_BIN", "T_NUM_STRING">>, <<"IDX_SEP", "T_NUM_STRING">>,
                          <<"IDX_VAR", "T_VARIABLE">>, <<"IDX_IDENT", "T_STRING">>, <<"IDX_MINUS", "CH:-">>} :
                  Eff(p[1], <<T(p[2])>>, mode, stack, "none", FALSE, FALSE, 0, FALSE, 0)
             \* every other operator character is a token of its own and the index goes on
             \/ \E c \in {"+", "*", ".", "(", ")", "[", ",", ";", "=", "!", "<", "@"} :
                  Eff("IDX_OP:" \o c, <<T("CH:" \o c)>>, mode, stack, "none", FALSE, FALSE, 0, FALSE, 0)
             \* a byte no rule of this mode knows ('{', '}', '"' ... ): a warning, no token, one byte skipped, the index goes on
             \/ Eff("IDX_BADCHAR", <<>>, mode, stack, "none", FALSE, FALSE, 0, FALSE, 1)
             \/ Eff("IDX_RBRACKET", <<T("CH:]")>>, stack[Len(stack) - 1], Pop(2), "none", FALSE, FALSE, 0, FALSE, 0)
             \/ Eff("IDX_WS", <<T("T_ENCAPSED_AND_WHITESPACE")>>, stack[Len(stack) - 1], Pop(2), "none", FALSE, FALSE, 0, FALSE, 0)

\* end of input: the end token carries the pending free-floating tokens
Eof == /\ ~done /\ path # <<>>
       /\ done' = TRUE
       /\ path' = Append(path, "EOF")
       /\ UNCHANGED <<mode, stack, ws, ni, bol, after, arrow, out, nerr, ex, local>>

\* where the token stream is fully prescribed (V atoms only): not inside an unterminated construct
Exact == /\ ex
         /\ mode \in {"main", "html", "php", "property", "halt_open", "halt_close", "halt_semi", "halt_end"}
         /\ after = 0

Step == Html \/ Php \/ HaltEnd \/ Str \/ Nowdoc \/ StrVar \/ StrIdx

\* every transition is emitted once (with the shortest path to its source state, BFS): transition cover
Emit == PrintT(ToJson([path |-> path', toks |-> out', mode |-> mode', stack |-> stack', exact |-> Exact', nerr |-> nerr', flex |-> Flex]))

Next == (Step /\ Emit) \/ Eof

Init == /\ mode = "main" /\ stack = <<>> /\ ws = "none" /\ ni = FALSE /\ bol = FALSE /\ after = 0 /\ arrow = FALSE
        /\ path = <<>> /\ out = <<>> /\ nerr = 0 /\ ex = TRUE /\ local = <<>> /\ done = FALSE

Spec == Init /\ [][Next]_vars

\* ---------------------------------------------------------------- invariants of the mode machine

Modes == {"main", "html", "php", "property", "nowdoc", "heredoc", "backqote", "template", "string_var",
          "string_var_index", "svname", "halt_open", "halt_close", "halt_semi", "halt_end"}

TypeOK == mode \in Modes /\ \A i \in 1 .. Len(stack) : stack[i] \in {"php", "string_var"} \cup StringModes

\* the call stack discipline of the interpolation modes
StackDiscipline ==
   /\ (mode = "string_var" => (stack # <<>> /\ Top \in StringModes))
   /\ (mode = "string_var_index" => (Len(stack) >= 2 /\ Top = "string_var" /\ stack[Len(stack) - 1] \in StringModes))
   /\ (mode = "svname" => (stack # <<>> /\ Top \in StringModes))
   /\ \A i \in 1 .. Len(stack) : (stack[i] = "string_var" => (i > 1 /\ stack[i - 1] \in StringModes))

\* every atom yields at least one token or a warning: the machine has no silent, zero-width transition,
\* hence no cycle without progress (design-level statement of "never loops forever")
Progress == [][(path' # path /\ ~done') => (Len(out') > Len(out) \/ nerr' > nerr)]_vars

\* The atom-level machine agrees with the token-level relation LexTok!After that LexerTrace uses to validate
\* implementation traces: replaying the tokens an atom owes from (mode, stack) can reach (mode', stack').
\* (Lexer.tla has no heredoc_end mode: a text token that reaches the closing label stays in the body mode here.)
Shapes == [closetag : BOOLEAN, hd : {"heredoc", "nowdoc", "heredoc_end"}, next : {"var", "eof", "other"}]
NormMode(m1, m0) == IF m1 = "heredoc_end" THEN m0 ELSE m1
RECURSIVE Reach(_, _, _, _)
Reach(m, st, toks, k) ==          \* set of <<mode, stack>> reachable after tokens k .. Len(toks)
  IF k > Len(toks) THEN {<<m, st>>}
  ELSE LET t == toks[k]
           m0 == IF t.id = "T_END_HEREDOC" THEN "heredoc_end" ELSE m
           nxt == IF t.ff THEN {<<x, st>> : x \in AfterFF(IF m0 = "main" /\ t.id # "T_COMMENT" THEN "html" ELSE m0, t.id)}
                  ELSE UNION {After(IF m0 = "main" THEN "html" ELSE m0, st, t.id, sh) : sh \in Shapes}
       IN UNION {Reach(NormMode(p[1], m), p[2], toks, k + 1) : p \in nxt}
NewToks == SubSeq(out', Len(out) + 1, Len(out'))
Consistent == [][(path' # path /\ ~done' /\ path'[Len(path')] \notin {"BADCHAR", "IDX_BADCHAR", "HD_END:indented"})
                   => <<mode', stack'>> \in Reach(mode, stack, NewToks, 1)]_vars

\* C08: white space and comments never change the mode of php scanning nor the stack
TriviaTransparent == [][(path' # path /\ ~done' /\ mode = "php" /\
                         (path'[Len(path')] \in WsAtoms \cup CommentAtoms)) => (mode' = "php" /\ stack' = stack)]_vars
=============================================================================
