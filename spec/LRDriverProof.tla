--------------------------- MODULE LRDriverProof ----------------------------
(* The invariants of LRDriver.tla that C06 relies on, proved for EVERY grammar  *)
(* (any sets of states, tokens and right-hand-side lengths; the tables are     *)
(* open in LRDriver.tla) with the TLA+ proof system.                            *)
EXTENDS LRDriver, TLAPS

ASSUME NoneNotTok == None \notin Toks /\ Eof \in Toks

Ind == /\ errflag \in 0 .. 3 /\ nerrs \in Nat /\ reports \in Nat /\ lexed \in Nat /\ consumed \in Nat
       /\ la \in Toks \cup {None}
       /\ phase \in {"run", "goto", "recover"} /\ status \in {"parsing", "accepted", "aborted"}
       /\ reports = nerrs
       /\ ((phase = "recover" \/ errflag > 0) => reports >= 1)
       /\ (status = "aborted" => reports >= 1)
       /\ lexed = consumed + (IF la = None THEN 0 ELSE 1)

THEOREM IndInit == Init => Ind
  BY NoneNotTok DEF Init, Ind

THEOREM IndStep == Ind /\ [Next]_vars => Ind'
  <1> SUFFICES ASSUME Ind, [Next]_vars PROVE Ind' OBVIOUS
  <1>1. ASSUME NEW t \in Toks, Lex(t) PROVE Ind' BY <1>1, NoneNotTok DEF Lex, Ind, Running
  <1>2. ASSUME NEW s \in States, Shift(s) PROVE Ind' BY <1>2, NoneNotTok DEF Shift, Ind, Running, Push
  <1>3. ASSUME NEW s \in States, Goto(s) PROVE Ind' BY <1>3 DEF Goto, Ind, Running, Push
  <1>4. ASSUME NEW s \in States, ErrShift(s) PROVE Ind' BY <1>4 DEF ErrShift, Ind, Running, Push
  <1>5. ASSUME NEW n \in RhsLen, Reduce(n) PROVE Ind' BY <1>5 DEF Reduce, Ind, Running
  <1>6. CASE Accept BY <1>6 DEF Accept, Ind, Running
  <1>7. CASE DetectNew BY <1>7 DEF DetectNew, Ind, Running
  <1>8. CASE DetectAgain BY <1>8 DEF DetectAgain, Ind, Running
  <1>9. CASE Pop BY <1>9 DEF Pop, Ind, Running
  <1>10. CASE AbortEmpty BY <1>10 DEF AbortEmpty, Ind, Running
  <1>11. CASE Discard BY <1>11, NoneNotTok DEF Discard, Ind, Running
  <1>12. CASE AbortEof BY <1>12 DEF AbortEof, Ind, Running
  <1>13. CASE UNCHANGED vars BY <1>13 DEF vars, Ind
  <1> QED BY <1>1, <1>2, <1>3, <1>4, <1>5, <1>6, <1>7, <1>8, <1>9, <1>10, <1>11, <1>12, <1>13 DEF Next

THEOREM IndImplies == Ind => ReportedBeforeAbort /\ ReportedBeforeRecovery /\ ReportsAreDetections /\ InputAccounting
  BY DEF Ind, ReportedBeforeAbort, ReportedBeforeRecovery, ReportsAreDetections, InputAccounting

THEOREM Safety == Spec => [](ReportedBeforeAbort /\ ReportedBeforeRecovery /\ ReportsAreDetections /\ InputAccounting)
  <1>1. Spec => []Ind BY IndInit, IndStep, PTL DEF Spec
  <1> QED BY <1>1, IndImplies, PTL
=============================================================================
