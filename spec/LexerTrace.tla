----------------------------- MODULE LexerTrace -----------------------------
(* Trace validation of the real scanner (C04, C01, C03): the ND-JSON trace holds  *)
(* one event per token or free-floating token in the order the scanner produced   *)
(* them (k = "ff" | "tok" | "eof" | "reset"), with offsets, the scanner state     *)
(* logged after every Lex() call (m1, st1), the number of warnings reported so    *)
(* far, and a shape computed from the bytes.  TLC decides whether the recorded    *)
(* run is a behaviour of the token-level relation LexTok, and checks Tiling       *)
(* (tokens contiguous; a byte is skipped only under a reported warning) and       *)
(* Progress (no empty token) at every step.                                       *)
EXTENDS LexTok, Naturals, Sequences, TLC, Json

Tr == ndJsonDeserialize("trace.ndjson")

VARIABLES mode, stack, prevEnd, skipped, l
tvars == <<mode, stack, prevEnd, skipped, l>>

Ev == Tr[l]
Is(k) == l <= Len(Tr) /\ Ev.k = k
Adv == l' = l + 1

\* contiguity and progress; bytes may be skipped only if at least as many warnings were reported
Tile == /\ Ev.s >= prevEnd /\ Ev.e > Ev.s
        /\ skipped' = skipped + (Ev.s - prevEnd)
        /\ skipped' <= Ev.nerr
        /\ prevEnd' = Ev.e

Sh == [closetag |-> Ev.closetag, hd |-> Ev.hd, next |-> Ev.next]
Eff0(m) == IF m = "main" /\ ~(Ev.k = "ff" /\ Ev.id = "T_COMMENT") THEN "html" ELSE m     \* main -> html without a token

TInit == TLCSet(1, 0) /\ mode = "main" /\ stack = <<>> /\ prevEnd = 0 /\ skipped = 0 /\ l = 1

TReset == Is("reset") /\ Adv /\ mode' = "main" /\ stack' = <<>> /\ prevEnd' = 0 /\ skipped' = 0

TFF == /\ Is("ff") /\ Adv /\ Tile
       /\ mode' \in AfterFF(Eff0(mode), Ev.id)
       /\ UNCHANGED stack

TTok == /\ Is("tok") /\ Adv /\ Tile
        /\ \E p \in After(Eff0(mode), stack, Ev.id, Sh) : mode' = p[1] /\ stack' = p[2]
        /\ mode' = Ev.m1 /\ stack' = Ev.st1            \* bind the logged scanner state

\* heredoc text: under a lone "$" the scanner stays in the body
TTokLone == /\ Is("tok") /\ Adv /\ Tile /\ Ev.next = "lone" /\ mode = "heredoc" /\ Ev.id = "T_ENCAPSED_AND_WHITESPACE"
            /\ mode' = "heredoc" /\ Ev.m1 = "heredoc" /\ stack' = stack /\ Ev.st1 = stack

TEof == /\ Is("eof") /\ Adv
        /\ UNCHANGED <<mode, stack, prevEnd, skipped>>

TNext == TReset \/ TFF \/ TTok \/ TTokLone \/ TEof
TSpec == TInit /\ [][TNext]_tvars

HighWater == TLCSet(1, IF TLCGet(1) > l THEN TLCGet(1) ELSE l)
Accepted == IF TLCGet(1) = Len(Tr) + 1 THEN TRUE
            ELSE PrintT(ToJson(<<"REJECTED_AT", TLCGet(1)>>)) /\ FALSE
=============================================================================
