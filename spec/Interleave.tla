----------------------------- MODULE Interleave -----------------------------
(* Concurrent part of the library-as-object model (C11): N independent       *)
(* pipelines (parse -> print -> dump -> resolve), each cut at K gate points  *)
(* (the first K tokens its parser pulls from its scanner, or the first K     *)
(* writes of its printer).  The specification's claim is that the pipelines  *)
(* share NO variable: every object (lexer, pools, position builder, parser,  *)
(* printer, dumper, resolver) is touched by exactly one worker (Ownership),  *)
(* hence every interleaving yields, for each worker, the result of running   *)
(* it alone.  TLC enumerates all interleavings of the gates; each schedule   *)
(* is replayed on the real code with blocking hooks.                         *)
EXTENDS Naturals, Sequences, FiniteSets, TLC, Json

CONSTANTS N,    \* number of workers
          K     \* gates per worker

VARIABLES pc,       \* pc[w]: gates passed by worker w
          touched,  \* touched[w]: the objects worker w has used so far (its own: <<w, i>>)
          sched,    \* history: order in which the gates were passed
          done
ivars == <<pc, touched, sched, done>>

W == 1 .. N

IInit == pc = [w \in W |-> 0] /\ touched = [w \in W |-> {}] /\ sched = <<>> /\ done = FALSE

Step(w) == /\ ~done /\ pc[w] < K
           /\ pc' = [pc EXCEPT ![w] = @ + 1]
           /\ touched' = [touched EXCEPT ![w] = @ \cup {<<w, pc[w] + 1>>}]     \* a worker only ever touches its own objects
           /\ sched' = Append(sched, w)
           /\ UNCHANGED done

Finish == /\ ~done /\ \A w \in W : pc[w] = K
          /\ done' = TRUE
          /\ PrintT(ToJson([sched |-> sched]))
          /\ UNCHANGED <<pc, touched, sched>>

INext == (\E w \in W : Step(w)) \/ Finish
ISpec == IInit /\ [][INext]_ivars

Ownership == \A a, b \in W : a # b => touched[a] \cap touched[b] = {}
Bounded == \A w \in W : pc[w] <= K
=============================================================================
