------------------------------ MODULE Pipeline ------------------------------
(* The library as an object (sequential part, C13/C17): a parsed tree with a     *)
(* structure and a layout, and the operations a client may apply to it.          *)
(* Observers (print, the four dump variants, traverse, resolve) leave the tree   *)
(* unchanged and their output is a function of the tree; Format replaces the      *)
(* layout by the canonical one and keeps the structure.  The tree is abstracted   *)
(* to a generation counter that only a mutation would advance: the specification *)
(* has no action that advances it outside Format, which is the claim of C13.      *)
EXTENDS Naturals, Sequences, TLC, Json

CONSTANTS Observers,   \* e.g. {"print", "dump11", "traverse", "resolve"}
          MaxLen,      \* longest history
          WithFormat,  \* BOOLEAN: may the client also call Format
          Faulty       \* the observers that may also be run with a failing writer

VARIABLES gen,      \* generation of the tree's structure (0 = as parsed)
          layout,   \* "orig" | "canon"
          hist,     \* operations applied so far
          obs,      \* what each observation depended on: <<op, gen, layout>>
          done

vars == <<gen, layout, hist, obs, done>>

Init == gen = 0 /\ layout = "orig" /\ hist = <<>> /\ obs = <<>> /\ done = FALSE

Observe(op) == /\ ~done /\ Len(hist) < MaxLen
               /\ hist' = Append(hist, op)
               /\ obs' = Append(obs, <<op, gen, layout>>)     \* output = F_op(tree)
               /\ UNCHANGED <<gen, layout, done>>               \* observers never modify the tree

\* an observation whose output writer fails part-way (full disk, closed pipe): the call ends early - the dumper panics with
\* the writer's error and the caller recovers, the printer drops the error - and nothing is observed; the tree is as before
\* and, the visitors being per-call objects, so is everything else: later observations are what they are on a fresh tree
Fault(op) == /\ ~done /\ Len(hist) < MaxLen /\ op \in Faulty
             /\ hist' = Append(hist, op \o "!")
             /\ UNCHANGED <<gen, layout, obs, done>>

Format == /\ WithFormat /\ ~done /\ Len(hist) < MaxLen
          /\ hist' = Append(hist, "format")
          /\ layout' = "canon"                                  \* canonical trivia, idempotent
          /\ UNCHANGED <<gen, obs, done>>                       \* structure and values are kept

Finish == /\ ~done /\ hist # <<>>
          /\ done' = TRUE
          /\ PrintT(ToJson([hist |-> hist]))
          /\ UNCHANGED <<gen, layout, hist, obs>>

Next == (\E op \in Observers : Observe(op) \/ Fault(op)) \/ Format \/ Finish
Spec == Init /\ [][Next]_vars

\* C13: after any sequence of operations every observer produces what it produces on a fresh tree
\* (modulo the layout, which only Format changes)
Pure == \A i \in 1 .. Len(obs) : obs[i][2] = 0
SameAsFresh == \A i, j \in 1 .. Len(obs) :
                  (obs[i][1] = obs[j][1] /\ obs[i][3] = obs[j][3]) => obs[i] = obs[j]
StructureKept == [][gen' = gen]_vars
FormatIdempotent == [][layout = "canon" => layout' = "canon"]_vars
=============================================================================
