import sys,json; sys.path.insert(0,'/verif')
from vf import core
from collections import Counter
wp=core.WorkerPool(core.build_worker())
corpus=json.load(open('/verif/corpus/repo_snippets.json'))
tasks=[]
for c in corpus:
    for ver in ("7.4","5.6"):
        tasks.append({"op":"analyze","src":c["src"],"ver":ver})
res=wp.run(tasks)
cnt=Counter(); ex={}
for t,r in zip(tasks,res):
    if r.get('panic') or r.get('hang') or r.get('crash'):
        cnt['crash:'+str(r.get('site'))]+=1; ex.setdefault('crash:'+str(r.get('site')),(t['src'],t['ver'],r)); continue
    if r.get('nerr')==0 and r.get('print_eq') is False:
        cnt['print_neq']+=1; ex.setdefault('print_neq',(t['src'],t['ver'],r.get('printed_ctx'),r.get('src_ctx')))
    for f in r.get('fails') or []:
        key=f['c']+'|'+str(f.get('kind') or f.get('owner'))+'|'+str(f.get('side'))+'|'+str(f.get('observed'))+'|'+str(f.get('parent'))+'|'+t['ver'][0]
        cnt[key]+=1; ex.setdefault(key,(t['src'],f))
print(len(tasks), sum(1 for r in res if r.get('nerr')==0))
for k,v in sorted(cnt.items()): print(v,k); print('     ',repr(ex[k])[:400])
