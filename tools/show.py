#!/usr/bin/env python3
"""usage: tools/show.py '<?php code' [ver] [-t]  - prints the tree the real parser returns (compact)."""
import sys, json, subprocess, os
sys.path.insert(0, os.path.dirname(os.path.dirname(os.path.abspath(__file__))))
src = sys.argv[1].encode().decode('unicode_escape')
ver = sys.argv[2] if len(sys.argv) > 2 and not sys.argv[2].startswith('-') else "7.4"
tok = '-t' in sys.argv
t = {"id": 1, "op": "tree", "src": src, "ver": ver, "tokens": tok}
out = subprocess.run(['/verif/build/worker'], input=json.dumps(t) + "\n", capture_output=True, text=True)
r = json.loads(out.stdout)
print("errs:", r.get('errs'), " printed==src:", r.get('printed') == src)
def show(n, d=0, role=''):
    if isinstance(n, dict) and 'k' in n:
        vals = {k: v['val'] for k, v in n['f'].items() if isinstance(v, dict) and 'val' in v}
        toks = {k: v['v'] for k, v in n['f'].items() if isinstance(v, dict) and 'id' in v}
        print('  ' * d + (role + ': ' if role else '') + n['k'], vals or '', toks if tok else '', n.get('p'))
        for k, v in n['f'].items():
            if isinstance(v, dict) and 'k' in v: show(v, d + 1, k)
            if isinstance(v, list) and v and not (isinstance(v[0], dict) and 'id' in v[0]):
                for x in v: show(x, d + 1, k + '[]')
    elif n is None:
        print('  ' * d + role + ': nil')
show(r.get('tree'))
