#!/usr/bin/env python3
"""Generates MANIFEST.json from the table below (single source of truth for check registration)."""
import json, os
HERE = os.path.dirname(os.path.dirname(os.path.abspath(__file__)))
props = [json.loads(l) for l in open(os.path.join(HERE, "properties.jsonl"))]
ids = [p["id"] for p in props]

CLAIMED = {
 "C18": dict(
   technique="TLA+ model checking (Pool.tla refines PoolAbs.tla, TLC exhaustive) + replay of all model behaviours on the real pools + TLC trace validation (PoolTrace.tla) of recorded allocation histories",
   text="TLC checks exhaustively (block sizes 1..4 quick / 1..6 thorough) that the block allocator Pool.tla refines the abstract promise PoolAbs.tla (fresh, non-nil, non-interfering objects); every behaviour of the model is replayed on both real pools and the client-visible memory compared; histories of up to 3 blocks+2 requests for sizes up to 1024 are recorded from the real pools (object identity from addresses) and accepted/rejected by TLC against PoolAbs. Right level: the allocator is a two-variable state machine whose only risk is the roll-over transition; the model enumerates it completely and the conformance step ties both implementations to it.",
   note="Trusted: TLC/SANY, Go toolchain, the pool driver in harness/cmd/worker/pool.go (derives object identity from addresses while all objects are kept alive). Bounded in block size and request count; sizes between those tried are covered only by the model's size-independence, not proven.",
   design="5 (C18), 3.1"),
 "C12": dict(
   technique="TLA+ model checking of the walk machine Walk.tla (mode traverse, invariant TraverseOK) over NodeSchema.tla + replay of every enumerated node instance on the real Traverser + pre-order comparison on parsed trees",
   text="TLC enumerates, for all 155 node kinds, every combination of filled child slots and list lengths 0..2 (thorough: 0..2 with all subsets) and checks on the specification that the prescribed visit sequence has the parent first and every present child exactly once in schema (= source) order; each instance is built from the real pkg/ast types by reflection and traversed by the real Traverser with a recording visitor, and the recorded sequence must equal the prescribed one. Parsed trees: recorded sequence = reflection pre-order, no node reachable twice. Right level: the traverser is 155 hand-written methods over a finite schema, so the finite space is enumerated completely.",
   note="Trusted: NodeSchema.tla (generated from pkg/ast by reflection, compared with the tree under test at run time; drift = exit 2), field order = source order, reflection builder/walker in harness/cmd/worker/{tree,synth}.go. Lists longer than 2 and nested synthetic children are not enumerated.",
   design="5 (C12), 3.5"),
 "C15": dict(
   technique="TLA+ model checking of Walk.tla (mode print, invariant PrintOK) with Lexemes.tla + replay of every enumerated node instance on the real printer, output tokenised back into markers",
   text="For all 155 kinds TLC enumerates instances (each token/child/value slot present or absent around the all-present and all-absent baselines, list lengths 0..2, separator arrangements none/between/trailing) and prescribes the marker sequence the printer owes: free-floating then token, children, separators interleaved, and for an absent token nothing or one canonical lexeme from Lexemes.tla (written from PHP syntax). The real printer's output for each instance is split into markers and gaps; markers must match exactly, gaps must decompose into the allowed lexemes. Right level: per-kind slot lists are finite case analysis; enumeration covers every slot of every kind.",
   note="Trusted: NodeSchema.tla, Lexemes.tla (hand-written canonical lexemes), marker design (markers never trigger the printer's automatic space). quick: <=1 deviating slot per baseline; thorough: <=3. The subtree-locality clause is exercised on parsed trees by C02/C17 round trips, not separately here.",
   design="5 (C15), 3.5"),
 "C16": dict(
   technique="TLA+ model checking of Walk.tla (mode dump, invariant DumpOK) + replay of every enumerated instance x 4 option combinations on the real dumper, dump parsed with go/parser; reflection comparison on parsed trees",
   text="TLC enumerates all kinds x slot contents x {WithTokens, WithPositions} subsets and prescribes the labelled entries owed (each non-empty slot once under its own field name, Val for byte values, tokens/positions only when requested, nothing else). The real dump is parsed as Go syntax and compared entry by entry (missing, extra, duplicate, mislabelled, wrong content). For parsed programs the parsed dump is compared with a reflection walk of the tree under all four option combinations, including token ids, values, positions and free-floating lists.",
   note="Trusted: go/parser as judge of Go syntax (the dump is wrapped as a list element because the dumper ends every literal with a comma), NodeSchema.tla, reflection comparer in synth.go. Empty lists may be shown or omitted (the property speaks of non-empty fields).",
   design="5 (C16), 3.5"),
 "C09": dict(
   technique="TLA+ model checking of Version.tla (supported set vs. the two textual copies of the ranges, total order, class soundness; TLC exhaustive on 13x13 versions) + replay of the exported version/strings tables on version.New/Validate/Compare/InRange/parser.Parse + metamorphic comparison of all 12 supported versions per input",
   text="TLC checks on all pairs of D x D (D = 0..12, mapped order-preservingly to uint64 incl. 2^32+5 and 2^64-1) that validation and parser dispatch both equal the supported set written once in the specification, that the comparison is a total order and that classes (family, >= 7.3) are sound; the exported table is replayed on the real code (Validate, Parse -> tree or ErrVersionOutOfRange, Compare/Less/..., InRange) and every string of <= 4 (thorough 5) symbols over {0,1,7,9,.,x,+,-,space} is replayed on version.New (digits.digits must parse to the numeric pair). Metamorphic part: each input under all 12 versions and nil; same class => identical tree fingerprint and error list; nil == 7.4.",
   note="Trusted: the order-preserving abstraction D -> uint64, the analyze fingerprint. Malformed version strings are only required not to crash (the property does not say they are rejected). Metamorphic inputs: corpus + heredoc inputs sensitive to the 7.3 rule.",
   design="5 (C09), 3.7"),
 "C13": dict(
   technique="TLA+ model checking of Pipeline.tla (observers are UNCHANGED on the tree; TLC enumerates all operation histories up to the bound) + replay of every history on real trees with deep-fingerprint and output comparison after each step",
   text="TLC enumerates every history over {print, dump x4 option sets, traverse, resolve} up to length 3 (quick) / length 5 over the four base observers plus length 3 over all seven (thorough) and checks Pure/SameAsFresh on the specification; each history is replayed on the tree of each program: after every operation its output must equal its output on a freshly parsed tree and the deep fingerprint (kinds, fields, values, tokens, positions, free-floating lists, slice len/cap contents, object identities) and the source buffer must be unchanged.",
   note="Trusted: reflection fingerprint in harness/cmd/worker/history.go. Histories are bounded; programs come from the corpus and generated programs.",
   design="5 (C13), 3.8"),
 "C01": dict(
   technique="input space generated from the TLA+ scanner specification Lexer.tla (TLC transition cover of the mode/call-stack machine; invariants StackDiscipline, Progress) concretised by a lexicon, plus byte prefixes and random byte soup; every input executed on the real parser in killable child processes under a deadline (replay, spec -> impl)",
   text="TLC explores the abstract scanner machine of Lexer.tla (15 modes x call-stack shapes x ~90 (quick) / ~250 (thorough) lexeme atoms) exhaustively up to the stack bound, checks TypeOK/StackDiscipline/Progress/TriviaTransparent on it and emits one behaviour per transition; each is concretised to bytes and, together with every truncation of its last lexeme and a trailing lone CR, every byte prefix of the corpus programs and a seeded random byte stream, parsed by the real code under >= 3 (version, callback) combinations with a 2 s + 50 us/byte deadline and a heap limit. Verdict = the property itself (no panic, no hang, input buffer unchanged); thorough adds a scaling ratio t(4n)/t(n). Right level: crashes here live at end-of-input inside specific lexical states, which the specification enumerates systematically.",
   note="Trusted: watchdog in harness/cmd/worker/main.go, lexicon spellings. TLA+ contributes the input space and Progress; the timing clause is a measurement (generous bound 12x for 4x input). One known finding (empty heredoc under >= 7.3, pinned by existing tests).",
   design="5 (C01), 3.3"),
 "C04": dict(
   technique="TLA+ scanner specification (Lexer.tla atoms, LexTok.tla token relation, cross-checked by TLC: Consistent) used in both directions: replay of the transition cover with exact expected token streams, and TLC trace validation (LexerTrace.tla: Tiling, Progress, mode/stack relation) of scanner traces recorded from the real lexer; plus token-by-token checks of every returned tree",
   text="(1) Every behaviour of Lexer.tla's transition cover whose stream is fully prescribed is concretised and lexed by the real scanner: extents, free-floating classification and attachment order must match exactly. (2) Traces (one event per token/free-floating token with offsets, logged mode and stack, warning count, byte shape) of generated, corpus and random inputs under a >= 7.3 and a < 7.3 version are validated by TLC against LexerTrace.tla: contiguous tokens, a byte skipped only under a reported warning, no empty token, and the token-level mode relation; corrupted copies must be rejected (binding self-test). (3) Every tree returned for these inputs and for CRLF renderings is checked by the worker: value = source slice, 1-based lines by the LF/CRLF/CR rule, increasing disjoint offsets; with zero errors full tiling, free-floating classes, leaf value = token text.",
   note="Trusted: lexicon spellings + conservative Fuses filter; shape computation in vf/lextrace.py; the independent line rule in analyze.go. Mode-relation rejections that are not tiling problems are reported as notes, not verdicts. One known finding (empty heredoc under >= 7.3).",
   design="5 (C04), 3.3, 4.2"),
 "C02": dict(
   technique="TLA+ reference syntax (Syntax.tla) + derivation machine (SyntaxGen.tla, TLC simulation/enumeration) generate programs x trivia layouts; replay on the real parser + printer with the identity oracle; Lexer.tla transition-cover inputs and scaled multi-block programs added",
   text="Every derivation of SyntaxGen.tla (sampled to depth 3, both families; every token slot of every covered construct) is rendered under 4 (quick) / 10 (thorough) trivia layouts, parsed under 2+ versions and printed: with zero reported errors the printed bytes must equal the source. The same oracle is applied to the error-free inputs of Lexer.tla's transition cover (shebang, open/close tags, inline HTML, halt-compiler payload, heredoc forms), to the corpus and to scaled programs of > 1024 tokens/positions (several allocation blocks). Right level: the property is an identity over all accepted sources; the specification supplies a systematic input space instead of 188 fixed snippets.",
   note="Trusted: expander and renderer (vf/syntax.py), lexicon. Reference grammar covers the constructs listed in evidence (variants_*); constructs not yet in Syntax.tla are exercised only through the corpus.",
   design="5 (C02), 3.4"),
 "C03": dict(
   technique="TLA+ reference syntax Syntax.tla (node-kind variants, PHP's documented precedence table, stratified child levels) + SyntaxGen.tla (TLC: exhaustive for expression statements up to a derivation-size bound, simulation for whole programs); each derivation expanded to source + the prescribed tree and replayed on the real parser (tree comparison); token ids of Lexer.tla's cover",
   text="The specification prescribes exactly one tree per generated program (stratified precedence: left/right/non-assoc child levels, dangling-else via the 'closed' statement category, include/require lowest). The real parser must accept each program of its family with zero errors under several versions and return that tree: kinds, child roles and order, list lengths, separators, values verbatim, tokens in the right slots. TLC enumerates every expression statement whose derivation has <= 6 (quick) / 7 (thorough) choices (all operator pairs); PHP 7-only variants must be rejected under 5.6; keyword/cast case variants and number classification are checked through the prescribed token ids of Lexer.tla.",
   note="Trusted: my transcription of PHP's grammar and precedence table into Syntax.tla (the tree PHP prescribes), the expander, the comparer (cmptree.go). Coverage is that of the variant table (listed in evidence with never-generated variants).",
   design="5 (C03), 3.4"),
 "C05": dict(
   technique="expected node spans derived from Syntax.tla yields (first/last token of each variant instance, documented conventions) replayed against the real tree for SyntaxGen.tla derivations; structural span rule on every error-free tree",
   text="For each generated program the specification gives every node its first and last token; the rendered offsets (and lines by the LF/CRLF/CR rule) are compared with the recorded StartPos/EndPos/StartLine/EndLine of the real tree under 3 layouts incl. CRLF. Additionally every error-free tree (corpus, Lexer.tla cases, CRLF/CR renderings) is checked: span = extent of the subtree's positioned tokens with the four conventions, children within parents, siblings ordered and disjoint. Deviations pinned by existing tests are known findings matched by (kind, relation).",
   note="Trusted: the span rule (vf/syntax.py _span, analyze.go checkSpans), conventions as documented in the property (+ the -1 convention applied to a catch-less try). Two known findings.",
   design="5 (C05), 3.4, 3.5"),
 "C08": dict(
   technique="SyntaxGen.tla derivations rendered under every trivia recipe (metamorphic replay on the real parser: equal structural projection across renderings) + TLC-checked TriviaTransparent on Lexer.tla",
   text="Each derivation is rendered minimally and with each of 14 recipes (space, tab, LF, CRLF, lone CR, blank lines, block/doc/line/hash comments, /**/, mixtures) in all gaps, with a random mixture, and (thorough) with each recipe in each single gap; all renderings must parse without errors and have the same structural fingerprint (kinds, roles, values), which C03 ties to the prescribed tree. Gaps where PHP forbids trivia are marked in Syntax.tla (glue).",
   note="Trusted: gap classification and Fuses rule of the renderer. One known finding (lone CR between tokens). Special gaps (after ->, yield from, halt compiler) are covered only as far as the variants exist.",
   design="5 (C08), 3.3, 3.4"),
 "C10": dict(
   technique="SyntaxGen.tla derivations restricted to variants marked family 'both' in Syntax.tla, replayed on the PHP 5 and the PHP 7 parser; full fingerprint equality + comparison with the prescribed tree",
   text="Programs of the common subset (PHP 7-only syntax and uniform-variable-syntax regroupings excluded by family marks in the specification) are parsed under 5.x/7.x version pairs under several layouts; the full fingerprints (kinds, nesting, values, token texts/offsets, free-floating content, positions) must be equal; the deviating side is identified by comparison with the tree Syntax.tla prescribes.",
   note="Trusted: family marks in Syntax.tla. One known finding (PHP 5 goto label span).",
   design="5 (C10), 3.4"),
 "C14": dict(
   technique="TLA+ specification of PHP's name-resolution rules as a state machine over file statements (NsResolver.tla; TLC exhaustive over factorised matrices + simulation of long multi-section files); every behaviour rendered to PHP and replayed on the real resolver through the real traverser, final map compared exactly",
   text="TLC enumerates every file of matrix A (rules: 3 reference kinds x 4 name forms x 7 names incl. case variants x <=1 import out of 120 (thorough: <=2) x 6 namespace forms; 68k files), matrix B (all 29 referencing sites incl. nullable/typed-property/arrow-function/multi-catch/trait adaptations x forms x imports; 99k files), matrix C (special names) and simulates long files with several namespace sections, group use and declarations. Each file is rendered, parsed and resolved by the real code; ResolvedNames must equal the specification's map: no missing, wrong or extra entry (keys = node start offsets). TLC also checks rule-level invariants (import independence of fq/relative names, case rule, namespace statement drops imports).",
   note="Trusted: my reading of PHP's rules in NsResolver.tla; per-site rendering templates (vf/c14.py). Scalar type names are treated as special at every class-name site because the property says so (PHP itself only does that in type positions). Special names compared case-insensitively.",
   design="5 (C14), 3.6"),
 "C06": dict(
   technique="SyntaxGen.tla derivations (Syntax.tla) broken by three language-leaving edits, replayed on the real parser (>= 1 error must be delivered); error-shape, silent-implies-complete and callback-independence checks on broken programs, Lexer.tla's transition cover and random bytes",
   text="Each generated (bracket-balanced) program is edited by inserting an unmatched closing bracket at a token boundary outside string bodies, deleting a mandatory closing bracket, or truncating after a token that demands a continuation; every edited program must produce at least one error under two versions of its family. For all these inputs plus the scanner cover and random bytes: every error has a non-empty message and no position or an in-range one with lines by the LF/CRLF/CR rule; start offsets are non-decreasing; zero errors implies a non-nil root that prints back to the whole source; parsing with and without callback yields the same tree fingerprint.",
   note="Trusted: the argument that the three edits leave the language for bracket-balanced programs of Syntax.tla; analyze.go's error checks. The LR-driver-level statement (FirstErrorReported on LRDriver.tla) is future work recorded in DESIGN.md.",
   design="5 (C06)"),
 "C07": dict(
   technique="statement sequences derived from Syntax.tla with a malformed statement inserted at every boundary (3 list contexts), replayed on the real parser and compared statement-by-statement with the unbroken parse (fingerprints); no-invention checks on every tree returned with errors",
   text="4-statement sequences of generated statements are placed at top level, in a function body and in a block; a malformed, bracket-balanced statement from a menu is inserted at each boundary. When the parser recovers (tree returned), the statements before the insertion point must be present in the same list with fingerprints (tokens, offsets, positions) identical to the unbroken parse, and at least one later statement must be present. Every tree returned with errors (also from the scanner cover and random bytes) must have tokens with strictly increasing disjoint offsets holding source slices, no shared node/token, and print exactly the concatenation of its tokens.",
   note="Trusted: menu of malformed statements; fingerprint identity. goyacc driver-level properties (PrefixKept, NoInvention on LRDriver.tla) are future work recorded in DESIGN.md.",
   design="5 (C07)"),
 "C11": dict(
   technique="TLA+ interleaving model (Interleave.tla: N workers x K gates, invariant Ownership; TLC enumerates all schedules) replayed on the real code through blocking verif hooks (Parser.Lex gate, gating writer under the printer); un-gated stress under the Go race detector with sequential cross-check",
   text="TLC enumerates every interleaving of the gate points of 2-3 workers (K = 2-4) and checks Ownership on the model; each schedule (sampled above a cap) is replayed: the workers' pipelines (parse, print, dump, resolve) run on their own goroutines and are stepped through the hook inside Parser.Lex or a gating writer in exactly that order; each worker's tree fingerprint, errors, printed text, dump and resolved names must equal its solo results. The same pipelines then run un-gated on 16 goroutines in a -race build (halt on first report); data races, panics, deviations from the sequential results and differences between two parses of the same input are violations.",
   note="Trusted: Go race detector, the gate implementation (concurrent.go). Lost-update corruption shows deterministically under gating; unsynchronised access under -race. Schedules are sampled when numerous.",
   design="5 (C11), 3.8"),
 "C17": dict(
   technique="Pipeline.tla with the Format action (TLC: structure kept, layout canonical and idempotent) + replay of parse -> format -> print -> parse -> format -> print on the real code for SyntaxGen.tla derivations under several layouts",
   text="The specification says Format changes only the layout, to a canonical one, idempotently. Each generated program (both families) is rendered under 2 (quick) / 5 (thorough) layouts and pushed through the real pipeline: a formatter panic or hang, formatted text that does not parse, a changed structural projection, different formatted text for two layouts of the same derivation, or a second formatting that changes the text are violations. Known formatter defects are matched by (failure class, trigger pattern).",
   note="Trusted: structural fingerprint; trigger classification in vf/c17.py. Three known findings (unfinished formatter), four repaired defects.",
   design="5 (C17), 3.8"),
}

REASONS_PENDING = "check not built yet in this round; see DESIGN.md section 9 for the construction order"

# additions of round 2 (appended to the texts above)
EXTRA = {
 "C01": ("; byte sweep (scanner modes x lexeme prefixes x 256 byte values), programs with action-reported errors under a nil callback, every parameter shape, deeply nested programs",
         " Round 2 adds: a byte sweep (29 mode contexts of Lexer.tla x 66 lexeme prefixes x all 256 byte values; thorough: pairs of class-boundary bytes), the programs on which a PHP 5 grammar action reports an error itself (nil callback), every (type, &, ..., default) parameter shape in every kind of signature, programs nested 20+ blocks deep."),
 "C02": ("; PrinterOut.tla (printer output stage; invariant SourceVerbatim) replayed through a recording io.Writer; the command line tool's -pb over a directory",
         " Round 2 adds: PrinterOut.tla specifies when the printer puts '<?php ', a space or '?>' in front of a chunk; TLC checks SourceVerbatim/EveryChunkOnce on all chunk sequences up to the bound and every source-only sequence is replayed Write call by Write call. All three root forms of Syntax.tla (statement lists, bracketed-namespace files, __halt_compiler + payload); scaled sources must parse clean (else exit 2). The real cmd/php-parser binary processes a directory with -pb; every file must hold what the library prints for it alone."),
 "C03": ("; exhaustive operator pairs/triples and constant-expression pairs; flexible-heredoc version gating; literal table; statement-pair compositionality; rule coverage of the real grammars via the goyacc debug stream",
         " Round 2 adds: every expression statement of <= 7 choices in the quick tier too (all operator pairs), the same for constant expressions (PHP 5's static_operation grammar), the '73' family (accepted under 7.3/7.4/nil, rejected before), PHP's literal spellings, sequences of two statements = the two statements, and a measurement of which productions of the real grammars the programs reduce (453 of 494 / 482 of 520)."),
 "C04": ("; NewLines.tla (line table fed by the new_line action with head set-backs; Sorted/Exact/LinesRight/CrLfOnce) replayed on scanner.NewLines and on every LF/CR/other string in 17 lexical contexts; long multi-line tokens; sources of 35 k tokens",
         " Round 2 adds NewLines.tla and its two bindings, multi-line tokens of up to 130 lines starting in column 0, and sources of tens of thousands of tokens (pool blocks)."),
 "C05": ("; every access chain of <= 6 choices (TLC, exhaustive); all root forms; scaled sources",
         " Round 2 adds the exhaustive access-chain fragment, bracketed-namespace files and halt-compiler programs, and the structural span rule on sources with tens of thousands of nodes."),
 "C06": ("; LRDriver.tla (goyacc's parser loop with error recovery) + TLC trace validation (LRTrace.tla) of yyParse's own debug stream; action-reported errors must select the offending text",
         " Round 2 adds LRDriver.tla/LRTrace.tla: yyParse runs with its debug stream on (hook VerifSetDebug) and every step (lex, shift/goto, reduce, error report, pop, error shift, discard, return) is validated by TLC with ReportedBeforeAbort, ReportedBeforeRecovery, InputAccounting and CallbackAgrees (driver reports = callback deliveries) evaluated at every step; rejections are re-derived independently before they become verdicts; a trace without its error event must be rejected (binding self-test). PHP 5's action-reported errors must be delivered with a position that selects the offending text."),
 "C07": ("; 17 malformed-statement kinds incl. stray closers; unrecoverable give-ups; trees returned with action-reported errors",
         " Round 2 adds stray ')' ']' (and '}' at the top level), constructs left open at the end of the input after complete statements / bracketed namespaces, and the no-invention facts on trees returned with PHP 5's action-reported errors."),
 "C08": ("; __halt_compiler gaps, the line break after a heredoc's ';', blanks in heredoc openers, the gap between ';' and '?>', empty comments",
         " Round 2 adds the named special gaps; three known findings (lone CR, comment inside __halt_compiler ( ) ;, comment between ';' and '?>') need a scanner regeneration."),
 "C09": ("; version strings parsed twice with the caller changing the first result in between",
         " Round 2 adds an aliasing test on version.New."),
 "C10": ("; every shared access chain of <= 6 choices and every shared constant expression of <= 9 choices (TLC, exhaustive)", ""),
 "C11": ("; inputs incl. rendered NsResolver.tla files; the command line tool (parser workers + printer goroutine) built with the race detector over a directory",
         " Round 2 adds the pipelines in their real packaging: cmd/php-parser built with -race processes a directory under GOMAXPROCS 2 and 16; every file's dump, error lines and printed text must be those of the library run on that file alone."),
 "C12": ("; parsed trees of generated programs; statement pairs (no node shared between the two statements)", ""),
 "C13": ("; the same observations in one long-lived process vs. a fresh process each (state kept outside the tree); signature programs; generated programs and rendered NsResolver.tla files",
         " Round 2 adds a cross-process phase: operations on OTHER trees are part of 'any sequence of these operations', so every observer's output on resolver-heavy files is compared between one long-lived process and one fresh process per file."),
 "C14": ("; sites for anonymous classes", ""),
 "C15": ("; separator lists one short; PrinterOut.tla (NoGlue, Minimal, EveryChunkOnce, OpenTagWhenNeeded) replayed Write call by Write call; printing two nodes in one list = printing each (all kind pairs)",
         " Round 2 adds PrinterOut.tla (879 k states at length 3, every behaviour replayed), list length 3 with a separator list that is one short (the default separator is owed), and compositionality over all ordered pairs of kinds."),
 "C16": ("; generated and byte-diverse (non-UTF-8) programs; the command line tool's -d over a directory", ""),
 "C17": ("; deeply nested programs; negative and non-decimal string offsets", " Two formatter defects found in round 2 are repaired (2ccad06, 12eb6e8); five known findings remain."),
 "C18": ("; runs of 40 000 requests over 17 block sizes (powers of two and not); TLAPS proof (PoolProof.tla, block size symbolic) that Get never returns a handle twice",
         " Round 2 adds PoolProof.tla: the allocator's arithmetic with Size a symbolic constant >= 1; tlapm proves (34 obligations) that the cursor invariant is inductive and that the handle returned by Get is not among those returned before - the unbounded counterpart of the TLC runs."),
}
for k, (t1, t2) in EXTRA.items():
    CLAIMED[k]["technique"] += t1
    CLAIMED[k]["text"] += t2

# additions of rounds 3 and 4
EXTRA2 = {
 "C11": ("; Cli.tla (cmd/php-parser as a concurrent system: walker, N parser workers, printer goroutine, two channels, WaitGroup; TLC: WgCounts, Conservation, OnceEach, PrintsOwn, Ownership, ExitComplete, NoSendOnClosed, termination under fairness) bound both ways: simulated behaviours forced on the real binary through schedule gates, free-running traced runs linearised by TLC against CliTrace.tla",
         " Rounds 3-4 add Cli.tla / CliTrace.tla: one action per blocking operation of main.go; every per-file object (source buffer, root node, error slice) is owned by one file from its creation to the file's print. TLC checks the invariants and termination exhaustively for small (files, workers, capacity) and shows that two named deviations (recycled source buffers, per-worker error slice) violate Ownership/PrintsOwn. spec -> impl: simulated behaviours are forced on the real binary (hook gates in cmd/php-parser, tag verif), the recorded actions must be the schedule and every file's outputs those of the library alone. impl -> spec: free-running traced runs (GOMAXPROCS 1-4) record per goroutine its action sequence with [begin, end] log intervals and the addresses of the per-file objects; TLC decides whether some interleaving that respects the recorded real-time order is a behaviour of Cli.tla; corrupted copies of a run (results swapped, live buffer reused, file printed twice, wait returning early) must be rejected (binding self-test, else exit 2)."),
}
EXTRA2.update({
 "C07": ("; LRValues.tla (goyacc's loop with its value stack on concrete LALR tables of the grammars' recovery shape, every token string up to the bound: NoInvention, PrefixKept, Reported, CleanIsWhole, Terminates; deviations stale-empty / stale-error violate NoInvention) + the obligation it rests on checked on the action code of both real parsers",
         " Round 4 adds LRValues.tla: the driver of LRDriver.tla with goyacc's value stack (a slice that is never cleared; $$ pre-loaded with the slot above the new top; the error token carries yyVAL) on the tables of a mini grammar with a top-level and an inner statement list, each with an `error` statement (tables transcribed from goyacc's y.output by tools/gen_lrmini.py). TLC runs every token string of <= 6 (thorough 8) tokens: the leaves of the top-level list are input tokens, each once, in order; the list only grows by appending; no recovery without a report; a silent parse returns everything; every parse ends. With the assignment of $$ dropped from an empty or error production the model violates NoInvention; vf/yaccobl.py therefore checks, for php5 and php7, that every production with an empty right-hand side or `error` alone, whose value has a type and is read by some action, assigns yyVAL in its `case N:` (generated parser) and in the .y source (regenerated with goyacc from the module cache)."),
 "C05": ("; Position.tla (the twelve span combinators as a case analysis over argument shapes; Covers, LinesOfOffsets, MinusOneRule) with every case executed on the real internal/position.Builder",
         " Round 4 adds Position.tla: TLC enumerates every combinator x argument shape (token; nil / position-less / positioned node; nil / empty / 1-3 item list) over offsets 0..2 (thorough 0..3), checks the span properties on the definitions and every case runs on the real Builder: the four numbers, the result is a fresh object, no argument changed."),
 "C12": ("; SyntaxGen self-nesting mode (every operator nested in itself in every operand position, exhaustive); Walk.tla derived prescriptions Again / Shared", ""),
 "C13": ("; wide history on the whole shared pool (long-list, self-nesting, long-token programs); Pipeline.tla Fault action (observations whose writer fails part-way)", ""),
 "C14": ("; matrix E (imports between references, NsResolver.tla Mixed), matrix F (kind words inside names)", ""),
 "C15": ("; Walk.tla derived prescriptions Again (the same printer object used again) / Shared (one node object in every child slot)", ""),
 "C16": ("; Walk.tla derived prescriptions Again / Shared on the real dumper", ""),
 "C01": ("; Lexer.tla index sub-mode with all its atoms and LocalMax (every sequence of three index atoms); BOM cases", ""),
 "C02": ("; SyntaxGen long-list mode; files of 80-300 KiB in the tool's directory", ""),
 "C03": ("; foreign node kinds in a returned tree are violations", ""),
 "C08": ("; heredoc/labelinside", ""),
})
for k, (t1, t2) in EXTRA2.items():
    CLAIMED[k]["technique"] += t1
    CLAIMED[k]["text"] += t2

# round 4 B
EXTRA3 = {
 "C01": "; long runs (every scanner context x one unit repeated to 40 000 / 160 000 bytes: deadline and a bound on the growth of the time)",
 "C03": "; programs nested a dozen blocks deep; every mix of if / elseif / else forms nested in each other (SyntaxGen family focus, exhaustive), loops, try, switch; the pre-7.3 family (a heredoc body line beginning with the label)",
 "C06": "; programs that are malformed from 7.3 on only (pre-7.3 family)",
 "C07": "; files with fifteen malformed statements (parsing goes on to the end)",
 "C14": "; matrix G (names with bytes >= 0x80 in Latin-1 and UTF-8: ASCII-only folding)",
 "C16": "; tokens without an id",
 "C17": "; every mix of if / elseif / else forms nested in each other up to six, loops, try, switch (SyntaxGen family focus, exhaustive); self-nesting programs",
 "C18": "; the parser object run again (reparse_check)",
 "C11": "; TLC's counterexamples for the two named deviations of Cli.tla replayed as forced schedules on the real binary",
}
# round 5
EXTRA4 = {
 "C11": "; cold start (in fresh processes the first use of the library is 16 concurrent pipelines)",
 "C12": "; trees as the formatter leaves them; the yacc obligation check",
 "C05": "; tokens of 9-130 lines beginning in column 0",
 "C08": "; comments that contain code or begin like something else",
 "C02": "; the yacc obligation check",
 "C10": "; the yacc obligation check; static arrays with a trailing comma",
 "C17": "; every operator chain of the exhaustive set of C03",
}
for k, t1 in EXTRA4.items():
    EXTRA3[k] = EXTRA3.get(k, "") + t1
for k, t1 in EXTRA3.items():
    CLAIMED[k]["technique"] += t1

m = {
 "version": 1,
 "setup_cmd": "./setup.sh",
 "hooks": {
   "guard": "verif",
   "enable": "go build -tags verif (harness module /verif/harness with replace github.com/z7zmey/php-parser => /repo)",
   "baseline_off_cmd": "cd /repo && GOFLAGS=-mod=mod go test -vet=off -count=1 -timeout 25m ./...",
   "source_commits": json.load(open(os.path.join(HERE, "tools", "hook_commits.json"))),
   "add_only": True,
 },
 "engines": [
   {"name": "tlc", "path": "/opt/veriftools/tla/tla2tools.jar", "serves_properties": sorted(CLAIMED), "kind_free_text": "TLC 1.8.0 explicit-state model checker: exhaustive checking of the specifications in /verif/spec, behaviour generation for replay, trace validation of recorded implementation executions"},
   {"name": "worker", "path": "/verif/harness/cmd/worker", "serves_properties": sorted(CLAIMED), "kind_free_text": "Go conformance harness built with -tags verif against /repo's working tree; executes replayed behaviours and records traces in killable child processes"},
 ],
 "checks": [],
 "not_applicable": [],
 "notes": "All checks: ./check <ID> --tier quick|thorough; exit 0 held, 1 VIOLATION, 2 infrastructure problem (never a verdict). Known findings: /verif/known_findings.json.",
}
for i in ids:
    if i in CLAIMED:
        c = CLAIMED[i]
        m["checks"].append({
          "property_id": i,
          "quick_cmd": "./check %s --tier quick" % i,
          "thorough_cmd": "./check %s --tier thorough" % i,
          "evidence_file": "/verif/evidence/%s.json" % i,
          "replay_cmd_template": "./replay {path}",
          "engine": "tlc+worker",
          "level_claimed": {"category": "model_checking", "text": c["text"], "design_ref": c["design"]},
          "level_note": c["note"],
          "technique": c["technique"],
        })
    else:
        m["not_applicable"].append({"property_id": i, "reason": REASONS_PENDING})
json.dump(m, open(os.path.join(HERE, "MANIFEST.json"), "w"), indent=1)
print("claimed:", sorted(CLAIMED))
