#!/usr/bin/env python3
"""Generates MANIFEST.json from the table below (single source of truth for check registration)."""
import json, os
HERE = os.path.dirname(os.path.dirname(os.path.abspath(__file__)))
props = [json.loads(l) for l in open(os.path.join(HERE, "properties.jsonl"))]
ids = [p["id"] for p in props]

CLAIMED = {
 "C18": dict(
   technique="TLA+ model checking (Pool.tla refines PoolAbs.tla, TLC exhaustive) + replay of all model behaviours on the real pools + TLC trace validation (PoolTrace.tla) of recorded allocation histories",
   text="TLC checks exhaustively (block sizes 1..4 quick / 1..6 thorough) that the block allocator Pool.tla refines the abstract promise PoolAbs.tla (fresh, non-nil, non-interfering objects); every behaviour of the model is replayed on both real pools and the client-visible memory compared; histories of up to 3 blocks+2 requests for sizes up to 1024 are recorded from the real pools (object identity from addresses) and accepted/rejected by TLC against PoolAbs. Right level: the allocator is a two-variable state machine whose only risk is the roll-over transition; the model enumerates it completely and the conformance step ties both implementations to it.",
   note="Trusted: TLC/SANY, Go toolchain, the pool driver in harness/cmd/worker/pool.go (derives object identity from addresses while all objects are kept alive). Bounded in block size and request count; sizes between those tried are covered only by the model's size-independence, not proven.",
   design="5 (C18), 3.1"),
}

REASONS_PENDING = "check not built yet in this round; see DESIGN.md section 9 for the construction order"

m = {
 "version": 1,
 "setup_cmd": "./setup.sh",
 "hooks": {
   "guard": "verif",
   "enable": "go build -tags verif (harness module /verif/harness with replace github.com/z7zmey/php-parser => /repo)",
   "baseline_off_cmd": "cd /repo && GOFLAGS=-mod=mod go test -vet=off -count=1 -timeout 25m ./...",
   "source_commits": json.load(open(os.path.join(HERE, "tools", "hook_commits.json"))),
   "add_only": True,
 },
 "engines": [
   {"name": "tlc", "path": "/opt/veriftools/tla/tla2tools.jar", "serves_properties": sorted(CLAIMED), "kind_free_text": "TLC 1.8.0 explicit-state model checker: exhaustive checking of the specifications in /verif/spec, behaviour generation for replay, trace validation of recorded implementation executions"},
   {"name": "worker", "path": "/verif/harness/cmd/worker", "serves_properties": sorted(CLAIMED), "kind_free_text": "Go conformance harness built with -tags verif against /repo's working tree; executes replayed behaviours and records traces in killable child processes"},
 ],
 "checks": [],
 "not_applicable": [],
 "notes": "All checks: ./check <ID> --tier quick|thorough; exit 0 held, 1 VIOLATION, 2 infrastructure problem (never a verdict). Known findings: /verif/known_findings.json.",
}
for i in ids:
    if i in CLAIMED:
        c = CLAIMED[i]
        m["checks"].append({
          "property_id": i,
          "quick_cmd": "./check %s --tier quick" % i,
          "thorough_cmd": "./check %s --tier thorough" % i,
          "evidence_file": "/verif/evidence/%s.json" % i,
          "replay_cmd_template": "./replay {path}",
          "engine": "tlc+worker",
          "level_claimed": {"category": "model_checking", "text": c["text"], "design_ref": c["design"]},
          "level_note": c["note"],
          "technique": c["technique"],
        })
    else:
        m["not_applicable"].append({"property_id": i, "reason": REASONS_PENDING})
json.dump(m, open(os.path.join(HERE, "MANIFEST.json"), "w"), indent=1)
print("claimed:", sorted(CLAIMED))
