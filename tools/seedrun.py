#!/usr/bin/env python3
"""Confirm a seeded change and run the checks against it, in a scratch worktree (never in /repo).

usage: seedrun.py <seed dir with patch.diff, meta.json, demo> [--checks C01,C02|own|all] [--tier quick] [--keep]

Steps (each recorded in <seed dir>/result.json):
 1. fresh worktree of /repo HEAD under /tmp/seedrun/<name>
 2. the demonstration passes without the patch
 3. the patch applies; go build ./...; the repository's tests pass (tag off); go build -tags verif ./...
 4. the demonstration fails with the patch
 5. the demonstration is removed; each requested check runs with VERIF_REPO=<worktree> VERIF_OUT=<scratch>
 6. worktree and scratch output are removed
"""
import json
import os
import shutil
import subprocess
import sys
import time

ENV = dict(os.environ, GOFLAGS="-mod=mod", GOPROXY="off", GOSUMDB="off", GOTOOLCHAIN="local")


def sh(cmd, cwd, timeout=1800, env=None):
    p = subprocess.run(cmd, cwd=cwd, shell=True, env=env or ENV, stdout=subprocess.PIPE, stderr=subprocess.STDOUT, text=True, errors="replace", timeout=timeout)
    return p.returncode, p.stdout


def main():
    sd = os.path.abspath(sys.argv[1])
    args = sys.argv[2:]
    checks = "own"
    tier = "quick"
    if "--checks" in args:
        checks = args[args.index("--checks") + 1]
    if "--tier" in args:
        tier = args[args.index("--tier") + 1]
    meta = json.load(open(os.path.join(sd, "meta.json")))
    prop = meta.get("property") or meta.get("breaks")
    name = (os.path.basename(os.path.dirname(sd)) + "_" + os.path.basename(sd)).replace("/", "_")
    wt = "/tmp/seedrun/" + name
    outd = "/tmp/seedrun/" + name + ".out"
    os.makedirs("/tmp/seedrun", exist_ok=True)
    subprocess.run("git -C /repo worktree remove --force %s 2>/dev/null; rm -rf %s %s" % (wt, wt, outd), shell=True)
    rc, out = sh("git -C /repo worktree add -q --detach %s HEAD" % wt, "/")
    if rc:
        print(out)
        return 2
    res = {"property": prop, "seed": sd, "repo_head": sh("git rev-parse --short HEAD", "/repo")[1].strip(), "when": time.strftime("%Y-%m-%d %H:%M")}
    try:
        # demo placement
        demo_dir = meta.get("demo_dir", "")
        demo_files = [f for f in os.listdir(sd) if f.startswith("demo") and (f.endswith(".go") or os.path.isdir(os.path.join(sd, f)))]
        placed = []

        def place():
            for f in demo_files:
                src = os.path.join(sd, f)
                if os.path.isdir(src):
                    dst = os.path.join(wt, f)
                    shutil.copytree(src, dst)
                else:
                    d = os.path.join(wt, demo_dir) if f.endswith("_test.go") or demo_dir not in ("demo", "demo/") else os.path.join(wt, "demo")
                    os.makedirs(d, exist_ok=True)
                    dst = os.path.join(d, f)
                    shutil.copyfile(src, dst)
                placed.append(dst)

        def unplace():
            for d in placed:
                if os.path.isdir(d):
                    shutil.rmtree(d, ignore_errors=True)
                elif os.path.exists(d):
                    os.remove(d)
            placed.clear()
        demo_cmd = meta["demo_cmd"].replace("/tmp/wt/%s" % prop, wt)
        place()
        rc, out = sh(demo_cmd, wt)
        res["demo_without_patch"] = {"exit": rc, "tail": out[-600:]}
        unplace()
        rc, out = sh("git apply %s" % os.path.join(sd, "patch.diff"), wt)
        res["patch_applies"] = rc == 0
        if rc:
            res["apply_output"] = out[-800:]
        rc, out = sh("go build ./... && go test -vet=off -count=1 ./... 2>&1 | grep -v '^ok\\|no test files'; go build -tags verif ./...", wt)
        bad = [l for l in out.splitlines() if l.startswith("FAIL") or l.startswith("---") or "panic:" in l or "cannot" in l]
        res["repo_tests_pass_with_patch"] = (not bad) and rc == 0
        if bad:
            res["repo_tests_output"] = out[-1500:]
        place()
        rc, out = sh(demo_cmd, wt)
        res["demo_with_patch"] = {"exit": rc, "tail": out[-900:]}
        unplace()
        res["confirmed"] = bool(res["patch_applies"] and res["repo_tests_pass_with_patch"] and res["demo_without_patch"]["exit"] == 0
                                and res["demo_with_patch"]["exit"] != 0)
        # checks
        if checks == "own":
            ids = [prop]
        elif checks == "all":
            ids = ["C%02d" % i for i in range(1, 19)]
        elif checks == "none":
            ids = []
        else:
            ids = checks.split(",")
        env = dict(ENV, VERIF_REPO=wt, VERIF_OUT=outd, PYTHONDONTWRITEBYTECODE="1")
        res["checks"] = {}
        # the checks run from a snapshot of /verif (edits made meanwhile do not disturb them) and share /verif's TLC result cache
        # (TLC's answers do not depend on the tree under test)
        snap = outd + ".verif"
        if ids:
            subprocess.run("rm -rf %s; mkdir -p %s %s/build /verif/build/tlccache; rsync -a --exclude build --exclude .git --exclude seeded --exclude replays "
                           "--exclude evidence /verif/ %s/; ln -sfn /verif/build/tlccache %s/build/tlccache" % (snap, snap, outd, snap, outd), shell=True)
        for cid in ids:
            t0 = time.time()
            rc, out = sh("python3 -m vf.main check %s --tier %s" % (cid, tier), snap, timeout=7200, env=env)
            lines = [l for l in out.splitlines() if l.startswith("VIOLATION") or l.startswith("  signature") or "INFRASTRUCTURE" in l]
            res["checks"][cid] = {"exit": rc, "wall_s": round(time.time() - t0, 1), "lines": lines[:12], "summary": out.strip().splitlines()[-1:] if out.strip() else []}
            print("%s on %s: exit %d (%.0fs) %s" % (cid, name, rc, time.time() - t0, "; ".join(lines[:4])[:400]))
        res["detected_by"] = sorted(c for c, r in res["checks"].items() if r["exit"] == 1)
    finally:
        if "--keep" not in args:
            subprocess.run("git -C /repo worktree remove --force %s; rm -rf %s %s %s.verif; git -C /repo worktree prune" % (wt, wt, outd, outd), shell=True)
    json.dump(res, open(os.path.join(sd, "result.json"), "w"), indent=1)
    print(json.dumps({k: v for k, v in res.items() if k in ("property", "confirmed", "detected_by", "patch_applies", "repo_tests_pass_with_patch")}))
    print("demo without:", res.get("demo_without_patch", {}).get("exit"), " with:", res.get("demo_with_patch", {}).get("exit"))
    return 0


if __name__ == "__main__":
    sys.exit(main())
