#!/usr/bin/env python3
"""rule number -> production, from a goyacc y.output (complete items 'lhs: rhs.    (N)').
usage: yrules.py y.output [rule numbers...]     (analysis aid for the rule coverage recorded in evidence/C03.json;
y.output is produced with a goyacc built from the module cache: goyacc -o x.go -v y.output php7.y)"""
import re, sys


def rules(path):
    out = {}
    for line in open(path):
        m = re.match(r"^\t(\S+):\s+(.*?)\.\s+\((\d+)\)\s*$", line)
        if m:
            out[int(m.group(3))] = (m.group(1), m.group(2).strip())
    return out


if __name__ == "__main__":
    rs = rules(sys.argv[1])
    want = [int(x) for x in sys.argv[2:]] or sorted(rs)
    for k in want:
        if k in rs:
            print(k, rs[k][0], "->", rs[k][1] or "/* empty */")
