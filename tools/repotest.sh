#!/bin/sh
# builds /repo and runs its test suite with the verif tag OFF; exit 0 iff everything passes
cd /repo || exit 2
export GOFLAGS=-mod=mod GOPROXY=off GOSUMDB=off GOTOOLCHAIN=local
go build ./... || exit 1
out=$(go test -vet=off -count=1 ./... 2>&1)
echo "$out" | grep -v "^ok\|no test files"
echo "$out" | grep -q "^FAIL\|^---\|panic:" && exit 1
go build -tags verif ./... || exit 1
exit 0
