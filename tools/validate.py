#!/usr/bin/env python3-vt
import json, sys, glob, jsonschema
m = json.load(open('/verif/MANIFEST.json'))
jsonschema.validate(m, json.load(open('/root/.vp/MANIFEST.schema.json')))
es = json.load(open('/root/.vp/EVIDENCE.schema.json'))
for c in m['checks']:
    p = c['evidence_file']
    try:
        jsonschema.validate(json.load(open(p)), es); print('ok', p)
    except Exception as e:
        print('BAD', p, str(e)[:300])
ids = {json.loads(l)['id'] for l in open('/verif/properties.jsonl')}
got = {c['property_id'] for c in m['checks']} | {n['property_id'] for n in m.get('not_applicable', [])}
print('manifest ok; unaccounted:', sorted(ids - got))
