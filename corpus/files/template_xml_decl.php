<?xml version="1.0" encoding="UTF-8"?>
<feed>
  <title><?= $title ?></title>
<?php foreach ($items as $i): ?>
  <item id="<?= $i->id ?>"><?= $i->name ?></item>
<?php endforeach; ?>
</feed>
